#!/venv/bin/python
"""tools/keep_seed.py <PID> <k> <base_commit> <caught:yes|no> "<caught by / note>" : copy a confirmed seeded change into /verif/seeded/"""
import json, os, shutil, sys, re
pid, k, base, caught, note = sys.argv[1:6]
dk = sys.argv[6] if len(sys.argv) > 6 else k  # destination number (second-round seeds of a property)
src = f"/tmp/{os.environ.get('SEED_PREFIX', 'seed')}_{pid}_out"
dst = f"/verif/seeded/{pid}-{dk}"
os.makedirs(dst, exist_ok=True)
shutil.copy(f"{src}/patch{k}.diff", f"{dst}/patch.diff")
shutil.copy(f"{src}/demo{k}.py", f"{dst}/demo.py")
notes = open(f"{src}/notes.md").read() if os.path.exists(f"{src}/notes.md") else ""
open(f"{dst}/notes.md", "w").write(notes)
meta = {
    "property": pid,
    "seed": f"{pid}-{dk}",
    "base_commit": base,
    "produced_by": "fresh sub-agent given only the property text and a scratch worktree (tools/seed_prompt.py)",
    "needs_to_manifest": "see notes.md (section for change %s)" % k,
    "confirmed": {
        "how": f"tools/eval_seed.sh {pid} patch.diff demo.py quick {base}: scratch worktree at base commit; demo exits 0 without the change and 1 with it; repo test-suite with the change: 196 passed, the same 2 known failures",
    },
    "detected_by_quick_check": caught == "yes",
    "detection": note,
}
json.dump(meta, open(f"{dst}/meta.json", "w"), indent=1)
print("kept", dst)
