#!/venv/bin/python
"""print the prompt for a seeding sub-agent: property text + scratch worktree only (nothing from /verif)"""
import json, sys
pid = sys.argv[1]
p = next(json.loads(l) for l in open('/verif/properties.jsonl') if json.loads(l)['id'] == pid)
wt = f"/tmp/{sys.argv[2] if len(sys.argv) > 2 else 'seed'}_{pid}"
print(f"""You are given a scratch git worktree of the Python library tekumara/fakesnow (a fake Snowflake connector that rewrites Snowflake SQL via sqlglot into DuckDB SQL) at {wt}. Work ONLY inside {wt} and {wt}_out (create the latter). Do NOT read, list or write anything under /verif or /repo, and do not use the network (there is none). The interpreter is /venv/bin/python; make sure the worktree's code is the one imported by running everything with `cd {wt} && PYTHONPATH={wt} /venv/bin/python ...` (check `fakesnow.__file__`). The existing test-suite is run with `cd {wt} && PYTHONPATH={wt} /venv/bin/python -m pytest -q -p no:cacheprovider tests` and currently gives 196 passed with exactly two known failures (test_get_result_batches, test_get_result_batches_dict).

Here is a behavioural property that this library is supposed to satisfy:

  Title: {p['title']}
  Statement: {p['statement']}
  It is quantified over: {p['quantifier']['text']}

Your task: produce TWO different, independent, realistic changes to the source under {wt}/fakesnow/ (each the kind of regression a maintainer could plausibly introduce while refactoring, optimising or adding a feature — e.g. hoisting a local to module/instance scope, updating state before the engine accepted the statement, reordering two pipeline stages, an off-by-one in a cursor/offset, dropping a copy, caching something keyed too coarsely, a wrong default) such that each change BREAKS the property above, still imports, and keeps the existing test-suite at exactly the same result (196 passed, the same two known failures — run it to be sure). Prefer changes that need something specific in order to manifest (a particular multi-step sequence of operations, an unusual but legal input, a particular interleaving, or two cooperating sites that each look fine alone) rather than ones ordinary use would expose at once. The two changes must use different mechanisms and touch different code paths.

For each change k in (1, 2) deliver in {wt}_out/: `patch{{k}}.diff` (output of `git diff` for that change alone, applicable with `git apply` to a clean checkout of the worktree's HEAD), `demo{{k}}.py` (a small self-contained program using only the public API — fakesnow.patch()/snowflake.connector or fakesnow's documented entry points — that exits with status 1 and prints what went wrong when the change is applied, and exits 0 on the unchanged code; run it both ways and record the outputs), and a section in `notes.md` saying which part of the property the change breaks, what is needed for it to manifest, and exactly what you ran (test-suite result with the change, demo with and without). Leave the worktree clean (git checkout -- .) when you are done. Do not commit anything.""")
