import re, subprocess, sys, glob, os
logs = sys.argv[1:]
blocks = {}
for f in logs:
    cur = None
    for line in open(f):
        m = re.match(r"######## (C\d+) (?:r2 )?change (\d)", line)
        if m:
            cur = (m.group(1), int(m.group(2)), 'r2' in line); blocks[cur] = {"classes": [], "n": None, "fail": False, "harn": False}
            continue
        if cur is None: continue
        m = re.match(r"\s+clause=(\S+) class=(.*?) count=", line)
        if m: blocks[cur]["classes"].append(m.group(1) + "/" + m.group(2))
        m = re.search(r"(\d+) violation classes in total", line)
        if m: blocks[cur]["n"] = int(m.group(1))
        if "] FAIL" in line: blocks[cur]["fail"] = True
        if "HARNESS" in line: blocks[cur]["harn"] = True
for k, b in sorted(blocks.items()):
    print(k, b["n"], b["fail"], b["harn"], b["classes"][:3])

import json
def nextidx(pid):
    ks = [int(os.path.basename(d).split("-")[1]) for d in glob.glob(f"/verif/seeded/{pid}-*")]
    return max(ks) + 1 if ks else 1
if os.environ.get("DO_KEEP"):
    for (pid, k, r2), b in sorted(blocks.items()):
        if not b["fail"] or not b["n"]:
            continue
        prefix = "seed" if r2 else os.environ.get("RPREFIX", "seed3")
        base = "15ebd3f" if r2 else os.environ.get("RBASE", "cd05aab")
        pre = os.environ.get("PRESTRENGTHENED", "").split()
        note = ("check strengthened on reading the seeding agent's report before the first evaluation (a miss by the earlier version was not measured): " if f"{pid}:{k}" in pre else "caught by the quick tier as it stood: " if not r2 else "missed first; caught after strengthening: ") + "; ".join(b["classes"][:4]) + (f" ({b['n']} classes)" )
        env = dict(os.environ, SEED_PREFIX=prefix)
        print(subprocess.run(["/verif/tools/keep_seed.py", pid, str(k), base, "yes", note, str(nextidx(pid))], env=env, capture_output=True, text=True).stdout.strip())
