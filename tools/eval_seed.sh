#!/bin/bash
# tools/eval_seed.sh <PID> <patch.diff> <demo.py> [tier] : confirm a seeded change in a scratch worktree and run the check on it.
# prints: tests result, demo with/without, check verdict. Worktree removed afterwards.
pid=$1; patch=$(realpath $2); demo=$(realpath $3); tier=${4:-quick}; base=${5:-HEAD}
wt=/tmp/ev_${pid}_$$
# prefer the current HEAD of /repo; fall back to the commit the change was written against
git -C /repo worktree add -q --detach $wt HEAD || exit 2
cd $wt
if [ "$base" != "HEAD" ] && ! git apply --check $patch 2>/dev/null; then
  cd /; git -C /repo worktree remove --force $wt; git -C /repo worktree add -q --detach $wt $base || exit 2; cd $wt
fi
echo "== base commit $(git rev-parse --short HEAD)"
echo "== demo WITHOUT change"; PYTHONPATH=$wt timeout 300 /venv/bin/python $demo >/tmp/ev_demo0_$$.txt 2>&1; echo "rc=$?"; tail -3 /tmp/ev_demo0_$$.txt
if ! git apply -3 $patch 2>/dev/null || git diff --name-only --diff-filter=U | grep -q .; then echo "PATCH DOES NOT APPLY (base $base)"; cd /; git -C /repo worktree remove --force $wt; exit 3; fi
echo "== tests WITH change"; PYTHONPATH=$wt timeout 900 /venv/bin/python -m pytest -q -p no:cacheprovider tests 2>&1 | tail -4
echo "== demo WITH change"; PYTHONPATH=$wt timeout 300 /venv/bin/python $demo >/tmp/ev_demo1_$$.txt 2>&1; echo "rc=$?"; tail -3 /tmp/ev_demo1_$$.txt
echo "== check $pid ($tier) WITH change"
cd /verif && VERIF_REPO=$wt PYTHONPATH=$wt ./run_check.py $pid --tier $tier > /tmp/ev_check_$$.txt 2>&1
grep -E "^  clause|HARNESS" /tmp/ev_check_$$.txt | cut -c1-260 | head -12
echo "   ... $(grep -c '^VIOLATION' /tmp/ev_check_$$.txt) violation classes in total"
grep -E "^\[C" /tmp/ev_check_$$.txt | tail -1; rm -f /tmp/ev_check_$$.txt
cd /; git -C /repo worktree remove --force $wt; rm -f /tmp/ev_demo0_$$.txt /tmp/ev_demo1_$$.txt
