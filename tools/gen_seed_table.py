#!/venv/bin/python
"""seeded/README.md: one line per kept seeded change."""
import glob, json, os
ROOT = os.path.dirname(os.path.dirname(os.path.abspath(__file__)))
rows = []
for d in sorted(glob.glob(os.path.join(ROOT, "seeded", "*", "meta.json"))):
    m = json.load(open(d))
    rows.append(m)
missed = [m for m in rows if "initially" in m["detection"] or "missed first" in m["detection"].lower()]
pre = [m for m in rows if "before the first evaluation" in m["detection"]]
out = ["# Seeded property-breaking changes", "",
       f"{len(rows)} changes, each produced by a fresh sub-agent that saw only the property text and a scratch worktree, each",
       "confirmed in a scratch worktree (repo suite unchanged: 196 passed + the 2 known failures; demo exits 0 without / 1 with the change).",
       f"{len(missed)} were missed (or produced a harness error) by the quick tier as it was when the change was first evaluated and led to a general strengthening of the check; "
       f"{len(pre)} more were evaluated only after the check had been strengthened on reading the seeding agent's report.",
       "All are reported by the current quick tier of their property (at the base commit given in meta.json where the patch no longer applies to HEAD), "
       "except the ones marked OTHER CHECK: these break their property through a mechanism that belongs to another listed property and are reported by that property's check.", "",
       "| seed | first evaluation | detecting classes / what was changed |", "|---|---|---|"]
for m in rows:
    first = f"OTHER CHECK ({m['detected_by_check_of']})" if m.get("detected_by_check_of") and m["detected_by_check_of"] != m["property"] else "MISSED" if "initially MISSED" in m["detection"] or "initially a HARNESS" in m["detection"] or "missed first" in m["detection"].lower() else ("not measured" if "before the first evaluation" in m["detection"] else "caught")
    out.append(f"| {m['seed']} | {first} | {m['detection'].replace('|', '/')} |")
open(os.path.join(ROOT, "seeded", "README.md"), "w").write("\n".join(out) + "\n")
print(len(rows), len(missed), len(pre))
