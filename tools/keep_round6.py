#!/venv/bin/python
"""keep the round-6 seeds: first evaluation from the first log block, detecting classes from the last one"""
import glob, json, os, re, subprocess, sys
LOGS = [f"/verif/.work/r6_{c}.log" for c in "abcdefghijklmn"]
WHY = {
 ("C01",1): "no path carried the declared type spelling inside a cast of the selected column", ("C02",2): "no session executed two statements differing only in the case of a quoted alias",
 ("C03",2): "every statement of the alphabet had one table reference in the plainest position", ("C04",1): "no history had a failing statement before the DML, and the table was judged through the writing session only",
 ("C04",2): "the predicate grammar had no NULL-safe comparison (EQUAL_NULL, IS [NOT] DISTINCT FROM)", ("C05",2): "a statement text always produced the same result shape",
 ("C06",1): "bound parameters were only combined with SELECT / INSERT / UPDATE / DELETE", ("C07",2): "the execute after a failure was always an ordinary successful statement",
 ("C08",1): "no position bound a parameter inside a MERGE", ("C08",2): "every instance was made with default options",
 ("C09",1): "reporters ran on cursors made after the last context change, and no history changed the context", ("C09",2): "the comment alphabet lacked the empty string",
 ("C10",1): "EQUAL_NULL was not in the function table and no function was evaluated as an operand of an operator", ("C10",2): "VALUES never stood in a join position",
 ("C11",1): "every operation on a FLATTEN value was applied in the SELECT that holds the FLATTEN", ("C11",2): "no session ran two statements differing only in the letter case of a path key / dollar-quoted document",
 ("C12",1): "the source name was spelled the same way at declaration and at every reference", ("C12",2): "HARNESS ERROR first (a history step that raised escaped as a harness error instead of a verdict)",
 ("C13",1): "every statement was issued from the main thread", ("C14",1): "no name contained a pattern-active character next to a decoy object differing only there",
 ("C15",1): "BFS over shortest histories never ran the same SET / UNSET text again after another statement about that variable",
 ("C16",1): "nop_regexes configurations were single or plain patterns", ("C16",2): "awkward literals never flowed from one statement of a script into a later one",
 ("C18",1): "no history left a `with connection:` block, and the before-exit oracle cannot see work published by something other than a commit",
 ("C18",2): "the first program always connected with default options", ("C19",2): "every session of a harness got its context through connect arguments",
 ("C20",1): "every connection inside the block was opened by the thread that runs the block", ("C20",2): "the target argument alphabet lacked the empty string",
}
OTHER = {("C07",1): ("C15", "needs SET v; a statement T using $v; UNSET v; the same T again - which variables are defined when is C15's subject: reported by the quick tier of C15 as it stood (dedicated re-execution cursors)"),
         ("C15",2): ("C08", "needs a session variable containing % next to executemany under client-side binding - how variables and parameters combine is C08's subject: missed by C08 first too (no executemany in the variable histories), reported after the M_ins statement kind")}
PRE = {("C13",2)}
# the first evaluation of C07 change 2 ran on a /repo HEAD that carried a regression of its own (first version of fix
# 6c29f6b): the six classes it printed were about that regression, not about the seed; on the corrected HEAD the seed was missed
SPURIOUS_FIRST = {("C07",2)}
blocks = {}
for f in LOGS:
    if not os.path.exists(f): continue
    cur = None
    for line in open(f):
        m = re.match(r"######## (C\d+) change (\d)", line)
        if m:
            cur = (m.group(1), int(m.group(2))); blocks.setdefault(cur, []).append({"classes": [], "n": None, "harn": False, "demo": [], "tests": None}); continue
        if cur is None: continue
        b = blocks[cur][-1]
        m = re.match(r"\s+clause=(\S+) class=(.*?) count=", line)
        if m: b["classes"].append(m.group(1) + "/" + m.group(2))
        m = re.search(r"(\d+) violation classes in total", line)
        if m: b["n"] = int(m.group(1))
        if "HARNESS" in line: b["harn"] = True
        if line.startswith("rc="): b["demo"].append(line.strip())
        if "passed" in line: b["tests"] = line.strip()
extra = {}  # other-check evaluations done by hand
def nextidx(pid):
    ks = [int(os.path.basename(d).split("-")[1]) for d in glob.glob(f"/verif/seeded/{pid}-*")]
    return max(ks) + 1 if ks else 1
ONLY = os.environ.get("ONLY", "").split()
SKIP = os.environ.get("SKIP", "").split()
for (pid, k) in sorted(blocks):
    if (ONLY and pid not in ONLY) or pid in SKIP:
        continue
    bl = blocks[(pid, k)]
    first, last = bl[0], next((b for b in reversed(bl) if b["n"]), bl[-1])
    assert first["demo"][:2] == ["rc=0", "rc=1"] or first["demo"] == [], (pid, k, first["demo"])
    if (pid, k) in OTHER:
        chk, why = OTHER[(pid, k)]
        note = f"NOT reported by {pid} ({why})"
        caught = "yes"
    elif (pid, k) in PRE:
        note = "check strengthened before the first evaluation (a miss by the earlier version was not measured): " + "; ".join(last["classes"][:4]) + f" ({last['n']} classes)"
        caught = "yes"
    elif first["n"] and not first["harn"] and (pid, k) not in SPURIOUS_FIRST:
        note = "caught by the quick tier as it stood: " + "; ".join(first["classes"][:4]) + f" ({first['n']} classes)"
        caught = "yes"
    else:
        assert last["n"], (pid, k, "still missed")
        note = f"missed first ({WHY[(pid, k)]}); caught after the extension of round 6: " + "; ".join(last["classes"][:4]) + f" ({last['n']} classes)"
        caught = "yes"
    print(pid, k, note[:150])
    if os.environ.get("DO_KEEP"):
        idx = nextidx(pid)
        env = dict(os.environ, SEED_PREFIX="seed6")
        print(subprocess.run(["/verif/tools/keep_seed.py", pid, str(k), "81b45aa", caught, note, str(idx)], env=env, capture_output=True, text=True).stdout.strip())
        if (pid, k) in OTHER:
            mp = f"/verif/seeded/{pid}-{idx}/meta.json"; m = json.load(open(mp)); m["detected_by_check_of"] = OTHER[(pid, k)][0]; m["detected_by_quick_check"] = False; json.dump(m, open(mp, "w"), indent=1)
