#!/venv/bin/python
"""Generate MANIFEST.json from the table below (keeps not_applicable current for unclaimed properties)."""
import json
import os

ROOT = os.path.dirname(os.path.dirname(os.path.abspath(__file__)))

E = {
    "E1-bfs": "explicit-state BFS over operation histories; the real implementation is the transition function, a Python reference model is stepped in lock-step",
    "E2-product": "exhaustive enumeration of a finite product of bounded input domains through a fixed short history on the real code against a reference evaluator",
    "E3-sched": "stateless preemption-bounded schedule exploration of real threads (scheduling point = DuckDB engine call) with a serial-order differential oracle",
    "E4-crash": "crash-point enumeration: kill before every engine call of every history, reopen from disk, compare with the model of committed work",
}

# pid -> (engine, level, text, note, technique)
CHECKS = {
    "C05": (
        "E1-bfs",
        "model_checking",
        "explicit-state BFS to fixpoint over abstract cursor states; every enabled fetch/arraysize/re-execute operation applied to the real cursor and compared with a list+index model",
        "trusted: DuckDB result order under ORDER BY, fixture rows; state abstraction (kind, shape, rows handed out, arraysize) cross-checked by expanding two histories per state",
        "explicit-state model checking (BFS to fixpoint) of the real cursor against a reference model",
    ),
    "C04": (
        "E1-bfs",
        "model_checking",
        "depth-bounded explicit-state search over table states (row multisets): every DML statement of a written-out grammar (INSERT forms, UPDATE/DELETE x three-valued predicate grammar, TRUNCATE) executed on the real cursor from every reached state and compared with a list-based SQL reference; DDL status texts by complete enumeration of a statement list",
        "trusted: raw DuckDB for state set-up and observation; reference evaluator mc/ref/sql3vl.py (selftested); not demanded: TRUNCATE status row, rowcount of DDL",
        "explicit-state model checking (depth-bounded BFS with state dedupe) against a 3-valued-logic reference model",
    ),
    "C03": (
        "E1-bfs",
        "model_checking",
        "depth-bounded explicit-state BFS over histories of DDL/USE/DML/queries at three qualification levels on two connections of one instance, deduplicated on the model state (catalog with row tags + both session contexts); after every transition the reported context (conn.database/schema, CURRENT_DATABASE/SCHEMA) and the raw DuckDB catalog are compared with a dict-based reference model",
        "trusted: raw DuckDB catalog as ground truth; not demanded: which schema is current after USE DATABASE, error codes other than 90105/90106",
        "explicit-state model checking (depth-bounded BFS, real implementation as transition function) against a catalog+context reference model",
    ),
    "C15": (
        "E1-bfs",
        "model_checking",
        "explicit-state BFS over histories of SET/UNSET/SET-from-variable/execute_string on two connections (state = the two variable maps); every applicable operation is executed from every reached state on a fresh instance and followed by a complete observation battery (all names in both letter cases through two cursors and the other connection, WHERE/IDENTIFIER()/expression positions, undefined references, non-reference '$' texts)",
        "trusted: nothing beyond DuckDB evaluating literals; not demanded: UNSET of an undefined variable, multi-assignment SET, positional $1",
        "explicit-state model checking (BFS over variable-map states, depth-bounded; fixpoint not reached) against a dict-per-connection reference model",
    ),
    "C13": (
        "E1-bfs",
        "model_checking",
        "explicit-state BFS over all statement-level interleavings of transactional operations on two connections (three cursors), deduplicated on the model state (committed store, pending working copies, acceptable snapshot versions); after every transition every cursor reads every table and is compared with the model's view for its connection; phase 2 repeats the search with long-lived cursor objects, phase 3 with every statement issued from a thread of its own and with `with connection:` exits as operations",
        "trusted: DuckDB MVCC for visibility; writes of the two connections never conflict by construction; not demanded: nested BEGIN, START TRANSACTION, which committed version a reader inside its own transaction sees",
        "explicit-state model checking (depth-bounded BFS over interleavings) against a committed-store + pending-set reference model",
    ),
    "C20": (
        "E1-bfs",
        "model_checking",
        "explicit-state BFS to fixpoint over enter/exit sequences of the real fakesnow.patch() for 13 target lists and 2 exit modes (identity of every target checked before/inside/after, connections closed, re-entry, nested refusal), the full product of patch() options, and a complete enumeration of every argv token sequence up to the length bound over a 14-token alphabet through the real fakesnow.cli.main against a reference splitter written from argparse's grammar; plus opener thread x exit x storage scenarios for the connections made inside the block, and target argument lists with empty / falsy members through both CLI entry points",
        "trusted: Python import machinery, unittest.mock; the reference argv splitter is differential-tested against a locally built argparse parser in selftest/test_c20.py; not demanded: exception types, argv[0], abbreviated long options",
        "explicit-state model checking (BFS to fixpoint) of patch() + exhaustive bounded enumeration of argv sequences against a reference splitter",
    ),
    "C01": (
        "E2-product",
        "exploration",
        "complete enumeration of the finite product column type spellings x boundary values x ingestion paths (SQL literal, pyformat/qmark parameter, INSERT..SELECT, CTAS, CLONE, write_pandas variants) x NULL placement on fresh instances; every cell read back and compared (multiset of rows, Python type per family, exact value equality, NULL<->None, bystanders by raw-DuckDB digest)",
        "trusted: raw DuckDB cursor for staging and ground truth; reference model mc/ref/c01_model.py (selftested); not demanded: see module docstring (-0.0 via text, years<1000 via pyformat, JSON whitespace, TIMESTAMP_LTZ)",
        "bounded exhaustive enumeration (finite input product) on the real code against a reference model; no state search needed: each cell is an independent one-step history",
    ),
    "C08": (
        "E2-product",
        "exploration",
        "complete enumeration of parameter values (53 adversarial strings, numeric/temporal boundary values) x 13 placeholder positions x 4 paramstyles, all ordered string pairs in adjacent placeholders, executemany over 0/1/3 parameter sets, and paramstyle changes after connect; each case executed with bound parameters and with an independently rendered literal, compared through raw DuckDB ground truth",
        "trusted: independent literal renderer mc/ref/sf_literal.py (selftested, imports nothing from the connector); not demanded: NaN/Infinity, numeric paramstyle, floats with more than 15 significant digits",
        "bounded exhaustive enumeration (finite input product) with a differential oracle (bound parameters vs reference-rendered literals)",
    ),
    "C10": (
        "E2-product",
        "exploration",
        "complete enumeration of written-out argument alphabets per rewritten construct (REGEXP_SUBSTR/REPLACE, SPLIT, TRIM family, TO_DATE/TO_TIMESTAMP, TO_DECIMAL family and TRY_ forms, numeric/float/timestamp casts, DATEADD/DATEDIFF over all date parts, SHA2 family, EQUAL_NULL, RANDOM(seed), SAMPLE SEED, IDENTIFIER, VALUES columnN, ARRAY_AGG, alias in JOIN) x expression contexts (select list, WHERE, nested, CTE, view, INSERT..SELECT, UPDATE SET), each compared with a reference implementation written from the Snowflake documentation",
        "trusted: mc/ref/sf_functions.py (selftested against documentation examples); regex alphabet restricted to the subset where POSIX ERE and Python re agree; forms named in REJ_OK_TODAY may be rejected (the property allows rejection) but never answered wrongly",
        "bounded exhaustive enumeration (finite input product) on the real code against a documentation-derived reference evaluator",
    ),
    "C07": (
        "E1-bfs",
        "model_checking",
        "for every session state of a generator (context full/db-only/none x open transaction with a pending row x rich/minimal catalog) every failing statement of a written-out catalogue (statement kinds x ways of referring to something missing or duplicate x three qualification levels), and in thorough all depth-2 chains from a 12-statement prefix set, is executed on a fresh instance; exception class/errno/sqlstate, cursor.sqlstate, and the raw-DuckDB digest + session context + variables before/after are compared, followed by a usability suffix (pending row still visible, isolated, committed); plus every operation on a closed connection",
        "trusted: raw DuckDB digest as ground truth; 'transaction still open' is decided from effects; not demanded: which of 2003/2043 for unknown column/function/schema/duplicate, message wording, failure of SHOW ... IN <missing scope>",
        "explicit-state exploration of (session state x failing statement [x failing statement]) with before/after ground-truth comparison",
    ),
    "C19": (
        "E3-sched",
        "model_checking",
        "stateless preemption-bounded schedule exploration of 2-3 real threads running unmodified fakesnow API scripts under a cooperative scheduler whose scheduling points are the DuckDB engine calls (execute/cursor/close); all schedules within the preemption bound per harness (quick 1, thorough 2-3) are executed; oracle: (thread results, final raw-DuckDB digest) must be among the outcomes of all serial interleavings at API-call granularity computed on the real code; deadlocks are detected (library locks replaced by cooperative locks)",
        "trusted: DuckDB engine calls are atomic at this granularity and fetch* is thread-local (probe p20); races inside DuckDB and unsynchronised Python-level sharing below engine-call granularity are not reached (module-level mutable objects are listed in evidence as scheduler blind spots); free-running runs are supplementary and never a verdict",
        "stateless model checking of the real threads (iterative context bounding, CHESS-style) with a serial-order differential oracle",
    ),
    "C18": (
        "E4-crash",
        "fault_enumeration",
        "trie of statement histories (DDL with comments/lengths, DML, MERGE, CREATE DATABASE + objects in it, BEGIN/COMMIT/ROLLBACK) up to the depth bound; per history four exit modes (clean with, exception in the body, sys.exit, os._exit) and one SIGKILL before every engine call of the last statement plus one right after it returned, each in a fresh interpreter on its own db_path directory; after reopening with a new patch() the raw-DuckDB catalog+data+side tables must equal what an independent connection saw as committed before exit, respectively the clean-exit observation of the history without or with the interrupted statement; a history ending with an open transaction must leave what the history cut before that BEGIN leaves (`with connection:` exits are steps of the alphabet); the same under non-default connect options of the first program; in-memory control run in an empty cwd/HOME/TMPDIR",
        "trusted: SIGKILL keeps the page cache (no power-loss model); one DuckDB engine call is atomic thanks to its WAL; the reference observations come from clean exits of the same implementation, themselves checked against the pre-exit committed view",
        "exhaustive crash-point (fault) enumeration over all engine-call boundaries of all histories within the depth bound, with a differential committed-state oracle",
    ),
    "C09": (
        "E1-bfs",
        "model_checking",
        "explicit-state BFS over DDL histories (CREATE [OR REPLACE] TABLE/VIEW, CTAS, CLONE, ALTER add/drop/rename column, rename table, set comment, COMMENT ON, DROP, re-CREATE over two schemas and two databases, no-op statements in between) plus explicit deeper name-collision histories; states deduplicated on (raw-DuckDB catalog incl. fakesnow side tables, model state); for every distinct state the full reporting sweep (information_schema.tables/columns/views/databases, DESCRIBE TABLE/VIEW, SHOW TABLES/OBJECTS/SCHEMAS in account/database/schema scope and TERSE, SHOW PRIMARY KEYS, description of SELECT *) is compared with a dict model and the reporters with each other",
        "trusted: the model's encoding of Snowflake metadata semantics (CTAS/RENAME keep VARCHAR lengths, DROP forgets comments); not demanded: created_on/owner columns, INFORMATION_SCHEMA's own rows, FLOAT precision, comment of a CLONE",
        "explicit-state model checking (depth-bounded BFS with ground-truth state dedupe) against a catalog metadata reference model",
    ),
    "C06": (
        "E1-bfs",
        "model_checking",
        "state = (statement, fetch position); for every statement of a written-out alphabet (466 hand-written statements of every kind + the product column type x 21 expression forms) seven traces are executed (control, description read before / mid / after the fetch sequence, mid-fetch on a DictCursor, cursor reuse, describe() on a fresh cursor); description/describe are checked to be self-loops on the state (pending rows, raw-DuckDB digest and session unchanged) and their content is compared with the fetched Python values, the DictCursor keys and the declared column types",
        "trusted: the type model mc/ref/c06_model.py (selftested); not demanded: is_nullable, internal_size, names of unaliased expressions, precision of REAL/TIME",
        "explicit enumeration of (statement x read point) states with self-loop checks, i.e. bounded exhaustive exploration of the real cursor against a type reference model",
    ),
    "C11": (
        "E2-product",
        "exploration",
        "complete enumeration of JSON documents up to the stated depth/width over a 10-atom alphabet (all documents of depth<=1/width<=2, all chains of 2-3 container frames, the depth-2 closure in thorough) x all paths of length<=3 over 8 steps (present, case-variant, missing, out-of-range, wrong-kind) x 6 access syntaxes x value ops (casts, UPPER/LOWER/TRIM, ARRAY_SIZE) x 31 operator contexts x sources (VARIANT/OBJECT/ARRAY columns, PARSE_JSON literal, constructors, LATERAL FLATTEN, SPLIT), each compared with Python navigation of the json.loads-ed document",
        "trusted: mc/ref/json_nav.py (selftested against Snowflake documentation examples); not demanded: number->BOOLEAN, uncast contexts over a mismatching kind, FLATTEN INDEX/KEY/PATH, result types of constructors",
        "bounded exhaustive enumeration (finite input product) on the real code against a JSON navigation reference",
    ),
    "C12": (
        "E2-product",
        "exploration",
        "complete enumeration of target multisets (<=3 rows over keys {1,2,NULL}, duplicates allowed) x source sets (distinct keys, optional NULL key, so every merge is deterministic) x all valid clause lists of <=3 clauses (MATCHED->UPDATE/DELETE, NOT MATCHED->INSERT, with conditions on source/target/both) x 24 spellings (keyword/identifier case, aliases, subquery source, qualified names) x SET/INSERT forms, plus NOT NULL failure, helper-table observation, MERGE inside BEGIN..ROLLBACK/COMMIT and two merges per session; target, source, bystanders (raw DuckDB), status row, rowcount, atomicity and session residue compared with a reference MERGE semantics",
        "trusted: mc/ref/merge_ref.py built on the 3-valued-logic operators of sql3vl (selftested against the Snowflake documentation example); not demanded: order of status columns, description after MERGE (C06), exception class (C07), nondeterministic merges",
        "bounded exhaustive enumeration (finite input product) on the real code against a reference MERGE semantics",
    ),
    "C14": (
        "E1-bfs",
        "model_checking",
        "explicit-state search: initial states are the complete product flags (2x2) x storage (memory, fresh db_path, db_path with a previous instance's files) x prior state (nothing, database, database+schema); transitions are connect() calls over the 4x4 argument alphabet (database/schema absent or in three letter cases, information_schema), sequences of 2 (quick) / 3 (thorough) connects, each history on a fresh instance, deduplicated on model state + DuckDB session context + first-statement outcomes; every connect is compared with an option table written from the property (never raises, creates exactly what the flags allow, reports upper-cased names, usable context iff the objects exist, nothing else disturbed, <DB>.db files)",
        "trusted: raw DuckDB catalog and directory listing as ground truth; not demanded: whether create_database_on_connect=False attaches an existing file (taken from ground truth), CURRENT_* when there is no context",
        "explicit-state model checking (bounded BFS over connect sequences from the complete configuration product) against an option-table reference model",
    ),
    "C16": (
        "E2-product",
        "exploration",
        "complete enumeration of statement texts: 6 literal templates x literal contents (quotes, ;, --, /* */, $$, backslash, newline, unicode) x 16 separator/comment styles x cursor class x return_cursors; every sequence over 13 statement kinds (incl. a runtime-failing and an unparsable statement, BEGIN/COMMIT/ROLLBACK) up to the length bound; 58 statement kinds x styles; statement-free texts; nop_regexes pattern sets x matching/non-matching statements x execute/execute_string. Each text runs through conn.execute_string on one fresh instance and statement by statement through cursor.execute on another; an independent splitter written from Snowflake's lexical rules fixes the statement count and the literal values",
        "trusted: mc/ref/sf_split.py (selftested; cross-checked against the composition of every text); not demanded: message text, cursors of statements before a failing one, // comments, remove_comments",
        "bounded exhaustive enumeration (finite input product) with a differential oracle (execute_string vs one-by-one execution) and an independent reference splitter",
    ),
    "C02": (
        "E2-product",
        "exploration",
        "115 statement templates of every kind in the quantifier, each tokenised with sqlglot's Snowflake tokenizer; complete enumeration of the case re-spellings of the foldable tokens (quick: all-lower/ALL-UPPER/Capitalised/aLtErNaTiNg + every single-token flip + quoted-UPPER spellings of every name; thorough: all 2^t lower/UPPER assignments for t<=10, single and pair flips above, every subset of quoted names) executed after a fixed prelude and followed by a fixed postlude; the complete outcome (status, names, rows, rowcount, context, raw-DuckDB digest, postlude) must equal that of the all-lower spelling, plus a reporting sweep against a hand-written names model (unquoted -> upper, quoted verbatim)",
        "trusted: the tokenizer for token boundaries (selftested), mc/ref/sf_ident.py names model; not demanded: message text, names of unaliased expressions, row order without ORDER BY, distinctness of \"t\" and T",
        "bounded exhaustive enumeration of re-spellings (metamorphic/differential oracle against the all-lower spelling) plus a reference names model",
    ),
    "C17": (
        "E1-bfs",
        "model_checking",
        "(b) explicit-state BFS with canonical state hashing over sequences of login {shared, :isolated:, path-backed} and query(token, stmt) / requests with missing, unknown, truncated, extended or other-scheme Authorization, up to 3 tokens, depth 4 (quick) / 6 (thorough), against a dict-per-token session model, with the raw-DuckDB ground truth of every session compared after every transition; (a) exhaustive differential of a real uvicorn server driven by the real snowflake.connector against a fresh in-process connection: one group per column type x boundary values (value, NULL, value), every microsecond fraction class and sweeps of consecutive microseconds before/after the epoch, statement kinds (DDL, DML, USE, transactions, SET, SHOW/DESCRIBE, expression forms, the C07 failing statements), row counts 0..1,000,001",
        "trusted: the real snowflake.connector and uvicorn on a loopback socket; mc/ref/c17_model.py equality functions (selftested); not demanded: server-side bound parameters, description equality where the in-process fake has none, two logins on the same path",
        "explicit-state model checking of the session machine (BFS, canonical state hashing) plus exhaustive differential enumeration of result shapes against the in-process implementation",
    ),
}

NOT_BUILT = "check not built yet in this round (planned per DESIGN.md §3); no claim is made"


def main():
    props = [json.loads(line) for line in open(os.path.join(ROOT, "properties.jsonl"))]
    checks = []
    na = []
    for p in props:
        pid = p["id"]
        if pid in CHECKS:
            eng, level, text, note, tech = CHECKS[pid]
            checks.append(
                {
                    "property_id": pid,
                    "quick_cmd": f"./run_check.py {pid} --tier quick",
                    "thorough_cmd": f"./run_check.py {pid} --tier thorough",
                    "evidence_file": f"/verif/evidence/{pid}.json",
                    "replay_cmd_template": f"./run_check.py {pid} --replay {{path}}",
                    "engine": eng,
                    "level_claimed": {"category": level, "text": text, "design_ref": f"DESIGN.md §3 {pid}"},
                    "level_note": note,
                    "technique": tech,
                }
            )
        else:
            na.append({"property_id": pid, "reason": NOT_BUILT})
    engines = []
    for name, txt in E.items():
        serves = [pid for pid, c in CHECKS.items() if c[0] == name]
        if serves:
            engines.append({"name": name, "path": "mc/", "serves_properties": serves, "kind_free_text": txt})
    m = {
        "version": 1,
        "setup_cmd": "cd /verif && /venv/bin/python -c \"import fakesnow, duckdb, sqlglot; print('ok')\"",
        "hooks": {
            "guard": "FAKESNOW_VERIF",
            "enable": "no source hooks: the harness wraps the object returned by duckdb.connect in its own process (mc/seam.py); fakesnow is imported from /repo's working tree (editable install)",
            "baseline_off_cmd": "cd /repo && /venv/bin/python -m pytest -ra -q -p no:cacheprovider --timeout=900 --continue-on-collection-errors",
            "source_commits": [],
            "add_only": True,
        },
        "engines": engines,
        "checks": checks,
        "not_applicable": na,
        "notes": "All checks decide by bounded exhaustive exploration on the real code (see DESIGN.md). known_findings.json lists recorded findings and fixes.",
    }
    with open(os.path.join(ROOT, "MANIFEST.json"), "w") as f:
        json.dump(m, f, indent=1)


if __name__ == "__main__":
    main()
