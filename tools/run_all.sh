#!/bin/bash
# run every check registered in MANIFEST.json (tier $1, default quick); print one line per check
cd "$(dirname "$0")/.."
tier=${1:-quick}
for pid in $(/venv/bin/python -c "import json; print(' '.join(c['property_id'] for c in json.load(open('MANIFEST.json'))['checks']))"); do
  out=$(./run_check.py $pid --tier $tier 2>&1); rc=$?
  echo "rc=$rc $(echo "$out" | tail -1)"
  echo "$out" | grep -E "^VIOLATION|HARNESS" | head -5
done
