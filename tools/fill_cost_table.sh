#!/bin/bash
# tools/fill_cost_table.sh <quick.log> <thorough.log>: (re)write the table between the markers in DESIGN.md §11.6
cd "$(dirname "$0")/.."
tools/gen_cost_table.py "$1" "$2" > .work/table.md
/venv/bin/python - <<'PY'
import re
s = open('DESIGN.md').read()
t = open('.work/table.md').read().rstrip()
block = "<!-- cost-table:begin -->\n" + t + "\n<!-- cost-table:end -->"
if "PLACEHOLDER_TABLE" in s:
    s = s.replace("PLACEHOLDER_TABLE", block)
else:
    s = re.sub(r"<!-- cost-table:begin -->.*?<!-- cost-table:end -->", lambda m: block, s, flags=re.S)
open('DESIGN.md', 'w').write(s)
PY
