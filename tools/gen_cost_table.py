#!/usr/bin/env python3
"""print the §11.6 table of DESIGN.md from two run_all logs: tools/gen_cost_table.py <quick.log> <thorough.log>"""
import re, sys
def parse(path):
    out = {}
    for line in open(path):
        m = re.search(r"\[(C\d+)\] (\w+) tier=(\w+) seed=\d+ evaluations=(\d+) states=(\S+) transitions=(\S+) nontrivial=(\d+) outcomes=(\d+) known=(\d+) violations=(\d+) wall=([\d.]+)s", line)
        if m:
            out[m.group(1)] = m.groups()
    return out
q, t = parse(sys.argv[1]), parse(sys.argv[2])
print("| property | quick: evaluations / states / transitions / known / wall | thorough: evaluations / states / transitions / known / wall |")
print("|---|---|---|")
for pid in sorted(set(q) | set(t)):
    def cell(r):
        if not r:
            return "-"
        return f"{int(r[3]):,} / {r[4]} / {r[5]} / {r[8]} / {float(r[10]):.0f} s"
    print(f"| {pid} | {cell(q.get(pid))} | {cell(t.get(pid))} |")
