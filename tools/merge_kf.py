#!/usr/bin/env python3
"""Merge a proposed known-findings file (kf_proposed/*.json) into known_findings.json.

    tools/merge_kf.py <proposed.json> [--fixed <class-substring>=<commit> ...]

Entries already present (same property, clause, class) are updated in place; a `--fixed` argument turns the matching
entries into "fixed" records with the commit and the required line. Never called by a check.
"""
import json
import sys

KF = "/verif/known_findings.json"


def main():
    src = sys.argv[1]
    fixed = {}
    a = sys.argv[2:]
    while a:
        assert a[0] == "--fixed", a
        k, v = a[1].rsplit("=", 1)
        fixed[k] = v
        a = a[2:]
    d = json.load(open(KF))
    idx = {(e["property"], e["clause"], e["class"]): e for e in d["findings"]}
    new = json.load(open(src))
    new = new["findings"] if isinstance(new, dict) else new
    n_add = n_upd = 0
    for e in new:
        e = dict(e)
        for k, commit in fixed.items():
            if k in e["class"]:
                e["status"] = "fixed"
                e["commit"] = commit
        if e["status"] == "fixed":
            assert e.get("commit"), e
            e["line"] = f"fixed: property={e['property']} {e['commit']} {e['what'][:160]} ({e['clause']}/{e['class']})"
            e.pop("why_not_fixed", None)
        e.pop("proposed", None)
        if e["status"] == "known" and "why_not_fixed" not in e and "reason" in e:
            e["why_not_fixed"] = e.pop("reason")
        e.pop("reason", None) if e["status"] == "fixed" else None
        key = (e["property"], e["clause"], e["class"])
        if key in idx:
            if idx[key] != e:
                idx[key].clear()
                idx[key].update(e)
                n_upd += 1
        else:
            d["findings"].append(e)
            idx[key] = e
            n_add += 1
    json.dump(d, open(KF, "w"), indent=1)
    print(f"merged {src}: added={n_add} updated={n_upd} total={len(d['findings'])}")


if __name__ == "__main__":
    main()
