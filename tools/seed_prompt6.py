#!/venv/bin/python
"""round-6 prompt: tools/seed_prompt.py text + the mechanisms already used by kept seeds (from the seeding agents' own notes,
nothing about the checks) + the round-6 instruction"""
import glob, re, subprocess, sys
pid = sys.argv[1]
base = subprocess.run(["/venv/bin/python", "/verif/tools/seed_prompt.py", pid, "seed6"], capture_output=True, text=True).stdout
taken = []
for f in sorted(glob.glob(f"/verif/seeded/{pid}-*/notes.md")):
    for l in open(f):
        m = re.match(r"#{2,3}\s*(?:Change|change|Seed|seed)\s*\d+\s*[-—:–]*\s*(.*)", l)
        if m:
            t = re.sub(r"\(?`?patch\d\.diff`?\)?:?", "", m.group(1)).strip(" -—:")
            if t and t not in taken:
                taken.append(t)
print(base)
print("Additional constraints for this round. (1) The following mechanisms are already taken by earlier contributors — find two OTHER mechanisms, "
      "preferably in code these do not touch (all modules of fakesnow/ — transforms.py, transforms_merge.py, conn.py, instance.py, server.py, pandas_tools.py, "
      "variables.py, info_schema.py, macros.py, arrow.py, types.py, expr.py, fixtures.py, checks.py, cli.py, fakes.py — are in scope where "
      "they can affect the property):")
for t in taken:
    print("   - " + t[:160])
print("(2) Each of your two changes must stay invisible in a plain one-connection create/insert/select smoke test; it should need at least one of: "
      "a state reached only after three or more operations, a second cursor or connection, a repeated execution of a statement, a statement that "
      "fails halfway, an unusual but legal spelling/quoting/value, or a non-default option. (3) Do not add new public API; change existing behaviour only.")
