#!/bin/bash
# usage: tools/eval_round.sh <seed-prefix> <base-commit> C03 C04:2 ...   (Cxx = both changes, Cxx:k = change k only)
cd /verif; pre=$1; base=$2; shift 2
for a in "$@"; do p=${a%%:*}; ks="1 2"; [[ $a == *:* ]] && ks=${a##*:}
 for k in $ks; do
  echo "######## $p change $k"
  tools/eval_seed.sh $p /tmp/${pre}_${p}_out/patch$k.diff /tmp/${pre}_${p}_out/demo$k.py quick $base 2>&1 | grep -E "^==|rc=|^\[C|violation classes|passed|clause|HARNESS|PATCH" | cut -c1-220
 done; done
