#!/venv/bin/python
"""Self-test of the C11 reference model (mc/ref/json_nav.py) and of the generators / oracles of checks/c11.py.

1. hand-written expectations taken from the Snowflake documentation (Querying semi-structured data, GET / GET_PATH,
   "NULL values" in semi-structured data, TO_VARCHAR / TO_DECIMAL / TO_DOUBLE / TO_BOOLEAN on VARIANT, ARRAY_SIZE,
   OBJECT_CONSTRUCT[_KEEP_NULL], FLATTEN, SPLIT) and from SQL's three-valued logic;
2. the comparison function: what counts as "the same value" (and what does not: quotes kept, True vs 1, 'null' text);
3. the generators: document / path / rendering counts are what the module says, renderings are Snowflake syntax of the
   intended shape, `relevant_paths` contains every existing path and each kind of negative step;
4. the oracles on synthetic observations: a right value passes, each kind of wrong value fails;
5. no fakesnow involved anywhere in this file.

exit 0 = all passed, 1 = some expectation failed.
"""
import decimal
import os
import pickle
import sys

sys.path.insert(0, os.path.dirname(os.path.dirname(os.path.abspath(__file__))))

from checks import c11  # noqa: E402
from mc.ref import json_nav as J  # noqa: E402

FAILS = []
M, U = J.MISSING, J.UNDEMANDED


def expect(cond, msg):
    if not cond:
        FAILS.append(msg)
        print("FAIL:", msg)


def eq(got, exp, msg):
    expect(got == exp and type(got) is type(exp), f"{msg}: got {got!r}, expected {exp!r}")


# the car_sales document of the Snowflake "Querying Semi-structured Data" tutorial (abridged)
CAR = {
    "customer": [{"address": "San Francisco, CA", "name": "Joyce Ridgely", "phone": "16504378889"}],
    "date": "2017-04-28",
    "dealership": "Valley View Auto Sales",
    "salesperson": {"id": "55", "name": "Frank Beasley"},
    "vehicle": [{"extras": ["ext warranty", "paint protection"], "make": "Honda", "model": "Civic", "price": "20275", "year": "2017"}],
}


def test_navigation():
    # src:dealership ; src:salesperson.name ; src['salesperson']['name'] ; src:vehicle[0].make ; src:customer[0].name
    eq(J.navigate(CAR, ("dealership",)), "Valley View Auto Sales", "src:dealership")
    eq(J.navigate(CAR, ("salesperson", "name")), "Frank Beasley", "src:salesperson.name")
    eq(J.navigate(CAR, ("vehicle", 0, "make")), "Honda", "src:vehicle[0].make")
    eq(J.navigate(CAR, ("vehicle", 0, "extras", 1)), "paint protection", "src:vehicle[0].extras[1]")
    eq(J.navigate(CAR, ("customer", 0)), CAR["customer"][0], "src:customer[0]")
    eq(J.navigate(CAR, ()), CAR, "empty path")
    # "keys are case-sensitive: src:salesperson.name is not SRC:Salesperson.Name" -> NULL
    expect(J.navigate(CAR, ("Salesperson", "name")) is M, "case variant key is missing")
    expect(J.navigate(CAR, ("salesperson", "NAME")) is M, "case variant inner key is missing")
    # GET: index out of range / key not found / wrong kind of container -> NULL
    expect(J.navigate(CAR, ("vehicle", 1)) is M, "index out of range")
    expect(J.navigate(CAR, ("vehicle", -1)) is M, "negative index")
    expect(J.navigate(CAR, ("nope",)) is M, "missing key")
    expect(J.navigate(CAR, ("nope", "x", 0)) is M, "step after missing")
    expect(J.navigate(CAR, ("vehicle", "make")) is M, "key on array")
    expect(J.navigate(CAR, ("salesperson", 0)) is M, "index on object")
    expect(J.navigate(CAR, ("date", 0)) is M, "index on string")
    expect(J.navigate(CAR, ("date", "x")) is M, "key on string")
    expect(J.navigate({"z": None}, ("z",)) is None, "JSON null is a value")
    expect(J.navigate({"z": None}, ("z", "a")) is M, "step on JSON null")
    expect(J.navigate([[1, 2], ["q"]], (1, 0)) == "q", "index chain")
    expect(J.navigate(M, ("a",)) is M and J.navigate(M, ()) is M, "SQL NULL source")
    eq([J.kind_of(x) for x in (M, None, True, 0, -1.5, "", [], {}, [0], {"a": 0})], list(J.KINDS), "kinds")
    try:
        J.navigate({}, (True,))
        expect(False, "bool step must be rejected")
    except TypeError:
        pass


def test_conversions():
    # TO_VARCHAR(variant): string as is, number as text, boolean 'true'/'false', JSON null / missing -> NULL
    eq(J.to_text("Valley View Auto Sales"), "Valley View Auto Sales", "string -> text")
    eq(J.to_text('q"'), 'q"', "escaped quote -> raw character")
    eq(J.to_text(""), "", "empty string")
    eq(J.to_text(42), "42", "int -> text")
    eq(J.to_text(0), "0", "0 -> text")
    eq(J.to_text(-1.5), "-1.5", "float -> text")
    eq(J.to_text(1.0), "1", "integral float -> text")
    eq(J.to_text(True), "true", "true -> text")
    eq(J.to_text(False), "false", "false -> text")
    expect(J.to_text(None) is None and J.to_text(M) is None, "null/missing -> NULL")
    eq(J.to_text([]), "[]", "empty array text")
    eq(J.to_text({}), "{}", "empty object text")
    expect(J.to_text({"a": 1}) == J.JsonText({"a": 1}), "container -> some JSON text")
    # TO_DECIMAL / ::NUMBER (scale 0) rounds half away from zero; TO_DOUBLE keeps the value
    eq(J.to_number(200), 200, "int -> number")
    eq(J.to_number(-1.5), -2, "-1.5 -> -2 (half away from zero)")
    eq(J.to_number(1.5), 2, "1.5 -> 2")
    eq(J.to_number(2.5), 3, "2.5 -> 3 (not banker's rounding)")
    eq(J.to_number(0.4), 0, "0.4 -> 0")
    eq(J.to_float(-1.5), -1.5, "float")
    eq(J.to_float(0), 0.0, "int -> float")
    expect(J.to_number(None) is None and J.to_float(M) is None and J.to_boolean(None) is None, "null casts are NULL")
    eq(J.to_boolean(True), True, "true -> TRUE")
    eq(J.to_boolean(False), False, "false -> FALSE")
    for v in ("s", "", [], {}, [1], True):
        expect(J.to_number(v) is U and J.to_float(v) is U, f"number cast of {v!r} is not demanded")
    for v in ("s", 0, -1.5, [], {}):
        expect(J.to_boolean(v) is U, f"boolean cast of {v!r} is not demanded")
    # UPPER/LOWER/TRIM take the text
    eq(J.upper("Str"), "STR", "upper")
    eq(J.lower("Str"), "str", "lower")
    eq(J.trim("  v11  "), "v11", "trim")
    eq(J.trim("\tx"), "\tx", "trim removes blanks only")
    eq(J.upper(True), "TRUE", "upper(true)")
    eq(J.upper(21), "21", "upper(21)")
    expect(J.upper(None) is None and J.trim(M) is None, "wrappers of NULL")
    expect(J.upper({"a": "x"}) is U and J.lower([1]) is U, "upper/lower of containers not demanded")
    eq(J.upper({}), "{}", "upper of empty object")
    expect(J.trim([1]) == J.JsonText([1]), "trim of container keeps the JSON text")


def test_array_size_flatten_constructors_split():
    # ARRAY_SIZE examples: array_size(array_construct(1,2,3)) = 3 ; of a VARIANT not holding an array -> NULL
    eq(J.array_size([1, 2, 3]), 3, "array_size")
    eq(J.array_size([]), 0, "array_size of empty array is 0")
    for v in ({"a": 1}, {}, "s", 1, None, M, True):
        expect(J.array_size(v) is None, f"array_size({v!r}) is NULL")
    # FLATTEN(input => parse_json('[1, ,77]')) -> rows in index order; empty / NULL input -> no rows (without OUTER)
    eq(J.flatten([1, "a", None, [2]]), [1, "a", None, [2]], "flatten elements in order")
    eq(J.flatten([]), [], "flatten empty")
    eq(J.flatten(None), [], "flatten JSON null")
    eq(J.flatten(M), [], "flatten missing")
    expect(J.flatten({"a": 1}) is U and J.flatten("s") is U, "flatten of object/scalar not demanded")
    # OBJECT_CONSTRUCT('a',1,'b','BBBB','c',null) -> {"a":1,"b":"BBBB"} ; KEEP_NULL keeps "c": null ; NULL key omitted
    eq(J.object_construct([("a", 1), ("b", "BBBB"), ("c", None)]), {"a": 1, "b": "BBBB"}, "object_construct drops NULL value")
    eq(J.object_construct([("a", 1), ("b", "BBBB"), ("c", None)], keep_null=True), {"a": 1, "b": "BBBB", "c": None}, "keep_null")
    eq(J.object_construct([("key_1", "one"), (None, "two")], keep_null=True), {"key_1": "one"}, "NULL key omitted (keep_null)")
    eq(J.object_construct([(None, "x")]), {}, "only NULL key -> {}")
    eq(J.object_construct([]), {}, "no argument -> {}")
    eq(J.array_construct([1, None, "a"]), [1, None, "a"], "array_construct")
    eq(c11.ctor_expected({"a": {"a": None, "B": [None, {"a": None}]}, "B": None}, "oc"), {"a": {"B": [None, {}]}}, "nested dropping")
    eq(c11.ctor_expected({"a": {"a": None}, "B": None}, "ock"), {"a": {"a": None}, "B": None}, "nested keeping")
    # SPLIT('127.0.0.1', '.') -> ["127","0","0","1"] ; SPLIT('|a||', '|') -> ["", "a", "", ""] ; no separator -> [s]
    eq(J.split("127.0.0.1", "."), ["127", "0", "0", "1"], "split doc example 1")
    eq(J.split("|a||", "|"), ["", "a", "", ""], "split doc example 2")
    eq(J.split("a b", ","), ["a b"], "split without separator occurrence")
    eq(J.split("", " "), [""], "split of empty string")
    expect(J.split(None, " ") is None and J.split("a", None) is None, "split NULL")
    eq(J.parse_json(' {"a" : [1, 2] } '), {"a": [1, 2]}, "parse_json")
    expect(J.parse_json(None) is None and J.try_parse_json("{invalid: ,]") is None, "parse NULL / try invalid")
    try:
        J.parse_json("nope")
        expect(False, "parse_json invalid must raise")
    except ValueError:
        pass


def test_3vl():
    T, F, N = True, False, None
    for a, b, x in [(T, T, T), (T, F, F), (T, N, N), (F, N, F), (N, N, N), (F, F, F)]:
        expect(J.and3(a, b) is x and J.and3(b, a) is x, f"and3 {a} {b}")
    for a, b, x in [(T, T, T), (T, F, T), (T, N, T), (F, N, N), (N, N, N), (F, F, F)]:
        expect(J.or3(a, b) is x and J.or3(b, a) is x, f"or3 {a} {b}")
    expect(J.not3(N) is N and J.not3(T) is F and J.not3(F) is T, "not3")
    expect(J.cmp3(N, "=", 1) is N and J.cmp3("a", "=", N) is N and J.cmp3(1, "<>", 2) is T and J.cmp3(-1.5, ">", -2) is T, "cmp3")
    expect(J.in3("Str", ["Str", "s"]) is T and J.in3("x", ["Str"]) is F and J.in3(N, ["x"]) is N and J.in3("x", ["y", N]) is N, "in3")
    expect(J.like3("Str", "S%") is T and J.like3("str", "S%") is F and J.like3("S", "S_") is F and J.like3(N, "S%") is N, "like3")
    expect(J.like3("a.c", "a.c") is T and J.like3("abc", "a.c") is F, "like3 escapes regex characters")
    expect(J.add3(N, 1) is N and J.add3(1, 1) == 2 and J.mul3(2, N) is N and J.concat3(N, "x") is N and J.concat3("a", "x") == "ax", "arith")


def test_matches():
    m = J.matches
    expect(m("json", "Str", '"Str"'), "JSON string keeps quotes in json mode")
    expect(not m("json", "Str", "Str"), "unquoted string is not the JSON string")
    expect(m("json", {"a": [1, None]}, '{ "a" : [1, null] }'), "whitespace free")
    expect(m("json", {"a": 1, "b": 2}, '{"b":2,"a":1}'), "key order free")
    expect(not m("json", [1, 2], "[2,1]"), "array order matters")
    expect(m("json", None, None) and m("json", M, None) and m("json", None, "null"), "null/missing/None")
    expect(not m("json", None, '"null"') and not m("json", 0, None), "null vs values")
    expect(not m("json", True, "1") and not m("json", 1, "true") and m("json", 0, "0.0") and m("json", -1.5, "-1.5"), "bool vs number")
    expect(m("json", [1, {"a": None}], [1, '{"a":null}']) and m("json", ["s"], ["s"]) and m("json", ["s"], ['"s"']), "native list results")
    expect(m("json", [True, {}], ["true", "{}"]) and not m("json", [True, 0], [1, 0]) and not m("json", ["s"], ["x"]), "native list: JSON text elements")
    expect(not m("json", [1, 2], [1]) and not m("json", [1], "[2]") and m("json", [], []), "native list: length / value")
    expect(m("text", "Str", "Str") and not m("text", "Str", '"Str"') and not m("text", "1", 1), "text mode")
    expect(m("text", J.JsonText({"a": 1}), '{ "a": 1 }') and not m("text", J.JsonText({"a": 1}), '{"a":2}'), "json text")
    expect(m("text", None, None) and not m("text", None, "null") and not m("text", "", None), "text null")
    expect(m("num", -2, decimal.Decimal("-2")) and m("num", 0, 0.0) and not m("num", 1, True) and not m("num", 1, "1"), "num mode")
    expect(m("bool", True, True) and not m("bool", True, 1) and not m("bool", False, None), "bool mode")
    for mode, exp in [("json", {"a": [1, "x", None]}), ("text", "q\""), ("text", J.JsonText([1])), ("num", -2), ("bool", False), ("json", None)]:
        m2, e2 = c11.dec(c11.enc(mode, exp))
        expect(e2 == exp or (exp is None and e2 is None), f"enc/dec round trip {mode} {exp!r}")
    expect(pickle.loads(pickle.dumps(M)) is M and pickle.loads(pickle.dumps(U)) is U, "sentinels survive pickling")


def test_ops_table():
    ex = c11.expected
    # the documented idioms: src:dealership::string = '...' ; upper(v:fruit) ; v:count::number + 1
    eq(ex("varchar", "Str"), "Str", "varchar")
    eq(ex("c_eq", "Str"), True, "cast eq")
    eq(ex("c_eq", "s"), False, "cast eq other")
    expect(ex("c_eq", M) is None and ex("c_eq", None) is None, "cast eq NULL")
    eq(ex("c_ne", 0), True, "'0' <> 'Str'")
    eq(ex("c_isnull", M), True, "is null of missing")
    eq(ex("c_isnull", ""), False, "'' is not null")
    eq(ex("c_and", "x"), True, "and")
    eq(ex("c_and", "s"), False, "and false")
    expect(ex("c_and", None) is None, "and NULL")
    eq(ex("c_or", M), True, "or with is null")
    eq(ex("c_not", "Str"), False, "not (x = 'Str')")
    eq(ex("c_notb", True), False, "not boolean")
    eq(ex("c_plus", -1.5), -1, "(-1.5)::int + 1 = -2 + 1")
    eq(ex("c_mul", -1.5), -2.0, "-1.5 * 2 + 1")
    eq(ex("c_rhs_plus", 0), 1, "1 + 0 * 2")
    eq(ex("c_arith_cmp", 0), True, "0 + 1 = 1")
    eq(ex("c_gt", -1.5), True, "-1.5 > -2")
    eq(ex("c_concat", 0), "0x", "'0' || 'x'")
    eq(ex("c_like", "Str"), True, "like")
    eq(ex("c_mix", 0), True, "0 > -2 and '0' <> 'Str'")
    expect(ex("c_plus", "s") is U and ex("c_gt", []) is U and ex("c_notb", 0) is U and ex("c_concat", [1]) is U, "undemanded contexts")
    eq(ex("c_eq", {"a": "Str"}), False, "container text never equals a word")
    eq(ex("u_eq_s", "Str"), True, "uncast eq")
    expect(ex("u_eq_s", 0) is U and ex("u_plus", "s") is U and ex("u_not", 0) is U and ex("u_isnull", None) is U, "uncast kind mismatch")
    expect(ex("u_eq_s", M) is None and ex("u_plus", M) is None and ex("u_not", M) is None and ex("u_concat", M) is None, "uncast over missing is NULL")
    eq(ex("u_isnull", M), True, "missing is null")
    eq(ex("u_isnull", 0), False, "0 is not null")
    eq(ex("u_gt", -1.5), True, "uncast -1.5 > -2")
    eq(ex("u_plus", -1.5), -0.5, "uncast + 1")
    eq(ex("u_concat", "Str"), "Strx", "uncast concat loses the quotes")
    eq(ex("u_and", True), True, "uncast and")
    eq(ex("array_size", []), 0, "array_size op")
    expect(c11.clause_of("varchar", M) == "C11.missing" and c11.clause_of("varchar", "s") == "C11.text" and c11.clause_of("u_plus", M) == "C11.context_uncast", "clauses")
    for o in c11.ALL_IDS:
        expect(all(d in c11.OPS and d in c11.VALUE_IDS for d in c11.OPS[o]["deps"]), f"deps of {o}")
        expect("{x}" in c11.OPS[o]["tpl"], f"template of {o}")


def test_generators():
    r = dict((sy, (sql, form)) for sy, sql, form in c11.renderings("v", ("a", "B", 0)))
    eq(r["colon"], ("v:a.B[0]", "p"), "colon")
    eq(r["bracket"], ("v['a']['B'][0]", "KKI"), "bracket")
    eq(r["mixed"], ("v:a['B'][0]", "p"), "mixed")
    eq(r["colon2"], ("v:a:B[0]", "p"), "colon2")
    eq(r["quoted"], ('v:"a"."B"[0]', "p"), "quoted")
    eq(r["getpath"], ("get_path(v, 'a.B[0]')", "G"), "getpath")
    eq(c11.renderings("v", (0, "a")), [("colon", "v[0]:a", "I:p"), ("bracket", "v[0]['a']", "IK"), ("quoted", 'v[0]:"a"', "I:p")], "index first")
    eq(c11.renderings("v", (0, 1)), [("colon", "v[0][1]", "II")], "index only")
    eq(c11.renderings("v", ()), [("colon", "v", "root")], "root")
    eq([c11.formclass(f) for f in ("p", "G", "root", "K", "I", "I:p", "KK", "KI", "IK", "II", "IKI", "KII", "III", "II:p")],
       ["p", "G", "root", "b1", "b1", "b1:p", "bb.K", "bb.K", "bb.I", "bb.I", "bb.K", "bb.K", "bb.I", "bb.I"], "formclass")  # fmt: skip
    eq([c11.formclass_ops(f) for f in ("p", "G", "root", "K", "I:p", "KK", "II", "III")], ["p", "G", "root", "b", "b1:p", "b", "b", "b"], "formclass_ops")
    eq(c11.shifted_steps((0, 1), "II"), (1, 1), "shift II")
    eq(c11.shifted_steps((0, 1, 0), "III"), (1, 2, 0), "shift III")
    eq(c11.shifted_steps((0, "a"), "IK"), (1, "a"), "shift IK")
    eq(c11.shift_feature([["s", "x"], ["s", "x"]], (0, 1), "II"), "same", "shift same")
    eq(c11.shift_feature([["s", "x"]], (0, 1), "II"), "differs", "shift differs")
    expect(c11.shift_feature({"a": 1}, ("a",), "p") is None, "no shift feature for paths")
    eq(c11._sqlstr('q"\\'), "'q\"\\\\'", "sql string escapes backslash")
    eq(c11._sqlstr("it's"), "'it''s'", "sql string doubles quotes")
    for tier, ndocs, npaths in (("quick", None, 1 + 7 + 49 + 11), ("thorough", None, 1 + 8 + 64 + 512)):
        docs, paths = c11.docs_for(tier), c11.paths_for(tier)
        eq(len(paths), npaths, f"{tier} paths")
        expect(len(set(map(c11.canon, docs))) == len(docs), f"{tier} documents are distinct")
        atoms = c11.ATOMS if tier == "thorough" else c11.ATOMS_QUICK
        n = len(atoms)
        d1 = {c11.canon(d) for d in docs if all(not isinstance(x, (list, dict)) or not x for x in (d.values() if isinstance(d, dict) else d if isinstance(d, list) else []))}
        eq(len(d1), n + 2 * (n + n * n) , f"{tier}: every document of depth <= 1, width <= 2 over the atoms")
        expect(len(paths) == len(set(paths)), f"{tier} paths are distinct")
    eq(len(c11.docs_for("thorough")), 3066, "thorough document count")
    rp = c11.relevant_paths({"a": ["x"], "B": None})
    for p in [(), ("a",), ("a", 0), ("B",), ("A",), ("b",), ("zz",), (0,), ("a", 1), ("a", "a"), ("a", 0, "a"), ("a", 0, 0), ("B", "a"), ("B", 0)]:
        expect(p in rp, f"relevant path {p}")
    eq(len(rp), len(set(rp)), "relevant paths distinct")
    eq(c11.ctor_sql({"a": [None, True, -1.5, "q\""], "B": {}}, "oc"), "object_construct('a', [NULL, TRUE, -1.5, 'q\"'], 'B', object_construct())", "ctor oc")
    eq(c11.ctor_sql([0, {"a": []}], "ock"), "array_construct(0, object_construct_keep_null('a', array_construct()))", "ctor ock")
    cf = c11.ctor_feats({"a": {"a": None}}, "oc")
    eq((cf["nullpair"], cf["nopair"], c11.ctor_cause(cf, "oc")), ("nested", "yes", "nopair"), "ctor feats nested null / nopair")
    cf = c11.ctor_feats([{"a": None, "B": "s"}], "oc")
    eq((cf["nullpair"], c11.ctor_cause(cf, "oc")), ("top", "nullpair.top"), "null pair in an object inside an array is not nested in an object")
    eq(c11.ctor_cause(c11.ctor_feats([0, -1.5], "oc"), "oc"), "dec+int", "dec+int")
    eq(c11.ctor_cause(c11.ctor_feats(["s", 0], "ock"), "ock"), "hetero", "hetero")
    eq(c11.ctor_cause(c11.ctor_feats([None, 0], "ock"), "ock"), "plain", "NULL elements do not make an array heterogeneous")


def test_nested():
    """nested navigation: the reference is the composition of the navigations (double-encoded payloads etc.)"""
    W = {w[0]: w for w in c11.NEST_WRAPPERS}
    inner = {"k": "inner", "list": ["p", "q"]}
    doc = {"a": "x", "n": 3, "body": c11.canon(inner), "o": {"a": "Str"}, "t": True, "z": None}

    def ex(wid, p1, p2, op):
        return c11._nest_expected(W[wid], doc, J.navigate(doc, p1), p2, op)[0]

    # parse_json(v:body::varchar):k::varchar ; ...:list[1]::varchar ; try_parse_json alike
    eq(ex("parse_json", ("body",), ("k",), "varchar"), "inner", "payload parsed and navigated")
    eq(ex("parse_json", ("body",), ("list", 1), "varchar"), "q", "payload navigated by index")
    eq(ex("try_parse_json", ("body",), ("k",), "raw"), "inner", "try_parse_json payload")
    eq(ex("parse_json", ("body",), ("list",), "array_size"), 2, "array_size of a payload array")
    expect(ex("parse_json", ("a",), ("k",), "raw") is U, "PARSE_JSON of text that is not JSON raises: not demanded")
    expect(ex("try_parse_json", ("a",), ("k",), "raw") is M, "TRY_PARSE_JSON of text that is not JSON is NULL")
    expect(ex("parse_json", ("zz",), ("k",), "varchar") is None, "PARSE_JSON(NULL) is NULL")
    eq(ex("parse_json", ("n",), (), "raw"), 3, "PARSE_JSON('3') is 3")
    eq(ex("parse_json", ("o",), ("a",), "varchar"), "Str", "the text of an object parses back to the object")
    eq(ex("parse_json.trim", ("body",), ("k",), "trim"), "inner", "trim inside and outside")
    # object_construct('k', v:a::varchar):k::varchar ; uncast value keeps being a JSON value
    eq(ex("object_construct.text", ("a",), ("k",), "varchar"), "x", "object built from an extracted string")
    eq(ex("object_construct.text", ("n",), ("k",), "raw"), "3", "the text of a number is a string")
    expect(ex("object_construct.text", ("n",), ("k",), "int") is U, "string -> int is not demanded")
    eq(ex("object_construct.raw", ("n",), ("k",), "int"), 3, "object built from an extracted number")
    eq(ex("object_construct.raw", ("o",), ("k", "a"), "varchar"), "Str", "object built from an extracted object")
    expect(ex("object_construct.text", ("zz",), ("k",), "raw") is M, "NULL value: pair dropped")
    expect(ex("object_construct.text", ("o",), ("k",), "raw") is U, "text of a container is not pinned down")
    eq(ex("array_construct.text", ("a",), (0,), "raw"), "x", "array built from an extracted string")
    eq(ex("array_literal.raw", ("o",), (0, "a"), "raw"), "Str", "array literal of an extracted object")
    # iff(v:a::varchar = 'x', v, null):n::int -- here the literal of the check is 'Str'
    eq(ex("iff.text", ("o", "a"), ("n",), "int"), 3, "branch chosen by an extracted string")
    expect(ex("iff.text", ("a",), ("n",), "int") is None and ex("iff.text", ("zz",), ("n",), "raw") is M, "condition false / NULL -> NULL")
    expect(ex("iff.int", ("n",), ("a",), "raw") is M, "3 = 0 is false")
    expect(ex("iff.int", ("a",), ("a",), "raw") is U, "string cast to int in the condition: not demanded")
    eq(ex("iff.not", ("t",), ("a",), "raw"), "x", "iff(not true, NULL, v) is v")
    eq(ex("iff.not", ("zz",), ("a",), "raw"), "x", "iff(not NULL, NULL, v) is v")
    expect(ex("iff.not", ("a",), ("a",), "raw") is U, "NOT over a string: not demanded")
    eq(ex("iff.branch", ("o",), ("a",), "varchar"), "Str", "branch holding an extraction")
    eq(ex("coalesce", ("o",), ("a",), "raw"), "Str", "coalesce(missing, extraction)")
    expect(ex("coalesce", ("z",), ("a",), "raw") is U, "coalesce over JSON null is not demanded")
    eq(ex("subquery", ("o",), ("a",), "varchar"), "Str", "path on an extracted subquery column")
    eq(ex("subquery.parse_json", ("body",), ("list", 0), "raw"), "p", "path on a parsed subquery column")
    # statements
    eq(c11._nest_place("inline", "W", "not x")[2:], (" from jn where id in (select id from kk where not x)", "W"), "inline placement")
    eq(c11._nest_place("subquery", "v:a", single=True), ("", ["t.id"], " from (select id, v:a as c from jn) t", "t.c"), "subquery placement")
    eq(c11._nest_place("cte", "v:a", single=True), ("with t as (select id, v:a as c from jn) ", ["id"], " from t", "c"), "cte placement")
    f = c11.nest_feats(W["parse_json"], doc, ("body",), "K", ("k",), "K", "raw", doc["body"], "inner")
    eq(f, {"nb": "key-bracket-in-bracket-base"}, "bracket in the base of a bracket")
    f = c11.nest_feats(W["parse_json"], doc, ("body",), "p", ("k",), "p", "varchar", doc["body"], "inner")
    eq(f, {"w": "parse_json", "ic": "cast", "oc": "cast", "xkind": "str", "res": "value"}, "features of cast in cast")
    eq(c11.nest_feats(W["subquery"], doc, ("o",), "K", ("a",), "K", "raw", doc["o"], "Str").get("nb"), None, "a subquery column is not a nested base")
    for tier in ("quick", "thorough"):
        for w in c11.NEST_WRAPPERS:
            cs = c11.nest_exprs(w, tier)
            expect(len(cs) == len(set(cs)) and any(c[3] == "raw" for c in cs), f"{tier} {w[0]}: combos distinct, raw present")
            expect(all((c[0], c[1], c[2], "raw") in cs for c in cs), f"{tier} {w[0]}: every op has its bare extraction")
        expect(len({c11.canon(d) for d in c11.nest_docs_for(tier)}) == len(c11.nest_docs_for(tier)), f"{tier} nested documents distinct")


def test_text_functions_and_flatten_value():
    # TRIM/LTRIM/RTRIM(<expr> [, <characters>]) convert to text first; default character: the blank
    eq(J.ltrim("  padded  "), "padded  ", "ltrim")
    eq(J.rtrim("  padded  "), "  padded", "rtrim")
    eq(J.trim_fn("r", "n ")("plain"), "plai", "rtrim(value, 'n ')")
    eq(J.trim_fn("r", "n ")("  padded  "), "  padded", "rtrim(value, 'n ') keeps the leading blanks")
    eq(J.trim_fn("b", "S ")("Str"), "tr", "trim(x, 'S ')")
    eq(J.trim_fn("l", " p")("  pad  "), "ad  ", "ltrim(x, ' p')")
    eq(J.ltrim(7), "7", "ltrim of a number is its text")
    eq(J.rtrim(True), "true", "rtrim of a boolean")
    expect(J.ltrim(None) is None and J.rtrim(M) is None and J.trim_fn("b", "x")(None) is None, "trim functions of NULL")
    expect(J.rtrim({"k": " v "}) == J.JsonText({"k": " v "}), "the blanks inside a container's text are not at its ends")
    eq(c11.expected("c_trim_eq", "  pad  "), True, "trim(x) = 'pad'")
    eq(c11.expected("c_trim_eq", "Str"), False, "trim(x) = 'pad' false")
    expect(c11.expected("c_trim_eq", None) is None, "trim(NULL) = 'pad' is NULL")
    eq(c11.expected("c_upper_eq", "Str"), True, "upper(x::varchar) = 'STR'")
    # the demo's list: what each FLATTEN row gives under TRIM
    tags = ["  padded  ", "plain", 'q"uo\\te', 7, True, None, {"k": " v "}]
    eq([c11.expected("trim", e) for e in tags][:6], ["padded", "plain", 'q"uo\\te', "7", "true", None], "trim over the elements")
    eq([c11.expected("ltrim", e) for e in tags][:2], ["padded  ", "plain"], "ltrim over the elements")
    eq(c11.fval_lists(c11.FVAL_INPUTS[3], "quick")[0], ["  padded  ", "plain"], "split rows")
    eq(c11.fval_lists(c11.FVAL_INPUTS[3], "quick")[-1], [], "split of NULL flattens to nothing")
    for tier, n in (("quick", 7), ("thorough", 11)):
        eq(len(c11.fval_docs_for(tier)), 1 + n + n * n + (1 if tier == "quick" else 1), f"{tier} flatten-value rows")
    h, pre, tail, val, _wj = c11._fval_stmt(c11.FVAL_INPUTS[1], c11.FVAL_VARIANTS[0], single=True)
    eq((h, pre, tail, val), ("", "t.id", " from (select * from jf) t, lateral flatten(input => t.w:a) f", "f.value"), "aliased statement")
    h, pre, tail, val, _wj = c11._fval_stmt(c11.FVAL_INPUTS[3], c11.FVAL_VARIANTS[4], single=True)
    eq((h, pre, tail, val), ("with s as (select * from sf) ", "id", " from s, lateral flatten(input => split(s, ',')) ", "value"), "unaliased statement")
    # runs of adjacent NULL-valued pairs
    docs = c11.nullrun_docs("thorough")
    d = {"k1": 1, "k2": None, "k3": None, "k4": None, "k5": 1}
    expect(d in docs and {"k0": d} in docs and [d] in docs, "vNNNv at the top, in an object, in an array")
    eq(c11.ctor_cause(c11.ctor_feats(d, "oc"), "oc"), "nullrun3+", "run of three")
    eq(c11.ctor_cause(c11.ctor_feats({"k1": None, "k2": None, "k3": 1}, "oc"), "oc"), "nullrun2", "run of two")
    eq(c11.ctor_cause(c11.ctor_feats({"k1": None, "k2": 1, "k3": None}, "oc"), "oc"), "nullpair.top", "non-adjacent NULLs are not a run")
    eq(c11.ctor_expected(d, "oc"), {"k1": 1, "k5": 1}, "every pair of the run is dropped")
    eq(c11.ctor_sql({"k1": None, "k2": None, "k3": 1}, "oc"), "object_construct('k1', NULL, 'k2', NULL, 'k3', 1)", "run as SQL")


def test_routes():
    import json as _json

    # every text a document travels as denotes the document; the escapes asked for are all there
    alltext = ""
    for d in c11.ROUTE_DOCS:
        ts = c11.route_texts(d)
        expect(len(ts) == len(set(ts)) and len(ts) >= 1, "texts distinct")
        for t in ts:
            expect(_json.loads(t) == d, f"text {t!r} denotes the document")
            alltext += t
    for esc in ('\\\\', '\\"', "\\n", "\\t", "\\r", "\\/", "\\u00e9", "\\u0001", "é"):
        expect(esc in alltext, f"escape {esc} occurs in some text")
    expect(any(isinstance(x, str) and x.endswith("\\") for d in c11.ROUTE_DOCS for x in c11._strings(d)), "a string ending in a backslash")
    eq(c11._sqlstr('a\\b\'c'), "'a\\\\b''c'", "literal with doubled quote")
    eq(c11._sqlstr_bq('a\\b\'c'), "'a\\\\b\\'c'", "literal with backslash-quote")
    eq(c11.esc_feature({"a": "back\\nslash"}), "b", "esc b")
    eq(c11.esc_feature({"a": "t\tab", "B": "é"}), "cu", "esc cu")
    eq(c11.esc_feature({"a": "q\"x"}), "q", "esc q")
    eq(c11.esc_feature({"n": 1}), "-", "esc none")
    for r in c11.ROUTES:
        rows = c11.route_rows(r)
        expect(len(rows) >= 3, f"{r}: rows")
        if r.startswith("write_pandas"):
            expect(all(t is None or d is U for d, t in rows), f"{r}: python values, no text")
            expect(all(isinstance(d, (dict, list)) for d, _t in rows if d is not M and d is not U), f"{r}: containers only")
        else:
            expect(all(_json.loads(t) == d for d, t in rows), f"{r}: text rows")
    eq(c11.route_rows("write_pandas.null_first")[0][0], M, "NULL first")
    eq(c11.route_rows("write_pandas.null_last")[-1][0], M, "NULL last")
    eq(c11.route_rows("write_pandas.string_first")[0], (U, "1"), "string first: its own value is not demanded")
    eq(c11.route_rows("write_pandas.flat_null_first")[1][0], {"a": "back\\nslash", "n": 1}, "flat documents")
    ex = c11.route_exprs("quick", [{"a": "x"}])
    expect(((), "colon", "root", "{S}", "raw") in ex and not any(c[0] == () and c[4] == "varchar" for c in ex), "root: raw only")
    expect((("a",), "bracket", "K", "{S}['a']", "varchar") in ex and (("zz",), "colon", "p", "{S}:zz", "raw") in ex, "paths and negatives")


def test_oracle_on_synthetic_observations():
    j = c11._judge
    expect(j("json", "Str", ("ok", ['"Str"'])), "right extraction")
    expect(not j("json", "Str", ("ok", ["Str"])), "extraction that lost its quotes")
    expect(not j("json", "Str", ("ok", [None])), "extraction NULL")
    expect(not j("json", "Str", ("ok", ['"Str"', '"Str"'])), "two rows")
    expect(not j("json", "Str", ("ok", [])), "no row")
    expect(not j("json", "Str", ("err", "x.Y", "msg")), "raises")
    expect(j("text", "Str", ("ok", ["Str"])) and not j("text", "Str", ("ok", ['"Str"'])), "quotes kept on cast")
    expect(j("num", 0, ("ok", [0])) and not j("num", 0, ("ok", [None])), "array_size 0 vs NULL")
    expect(j("json", M, ("ok", [None])) and not j("json", M, ("ok", ['"x"'])), "missing must be NULL")
    expect(c11._seq_ok("json", [1, "a"], ["1", '"a"']) and not c11._seq_ok("json", [1, "a"], ['"a"', "1"]) and not c11._seq_ok("json", [1], []), "flatten order / count")


def test_consumers_and_sessions():
    """hand-written expectations for the statements of the 'value consumed outside' and 'one session' layers"""
    inp, xf, xb = c11.FVAL_INPUTS[0], c11.FVAL_EXPORTS[0], c11.FVAL_EXPORTS[1]
    cons = {c[0]: c for c in c11.FVAL_CONSUMERS}
    head, pre, tail, val, wj = c11._fvalx_stmt(inp, xf, cons["cte.name"], single=True)
    eq((head, pre, tail, val, wj),
       ("with items as (select t.id, f.value from (select * from jf) t, lateral flatten(input => t.v) f) ", "id", " from items", "items.value", " where "),
       "CTE, qualified by its name")  # fmt: skip
    head, pre, tail, val, wj = c11._fvalx_stmt(inp, xb, cons["cte.alias"], single=True)
    eq((head, tail, val), ("with items as (select t.id, value from (select * from jf) t, lateral flatten(input => t.v)) ", " from items i", "i.value"), "CTE with an outer alias")
    head, pre, tail, val, wj = c11._fvalx_stmt(inp, xf, cons["derived.alias"], "not x")
    eq((head, tail, val), ("", " from (select t.id, f.value from (select * from jf where id in (select id from kk where not x)) t, lateral flatten(input => t.v) f) s", "s.value"), "derived table")
    head, pre, tail, val, wj = c11._fvalx_stmt(inp, xf, cons["view.name"], "not x")
    eq((tail, val, wj), (" from fvw_column_f where id in (select id from kk where not x)", "fvw_column_f.value", " and "), "view: rows are selected outside")
    eq(c11.fval_view_sql(inp, xf), "create or replace view fvw_column_f as select t.id, f.value from jf t, lateral flatten(input => t.v) f", "view body")
    eq(len(c11.fvalx_items("quick")), 4 * 2 * 8, "inputs x exports x consumers")
    # every consumer kind with the unqualified and every qualified spelling
    eq(sorted((c[1], c[3].format(n="N")) for c in c11.FVAL_CONSUMERS),
       [("cte", "N.value"), ("cte", "i.value"), ("cte", "value"), ("derived", "s.value"), ("derived", "value"),
        ("view", "N.value"), ("view", "i.value"), ("view", "value")], "consumer alphabet")  # fmt: skip
    fams = {f[0]: f for f in c11.sess_families()}
    f = fams["key1.colon.varchar"]
    eq([(st[0], st[1], st[3]) for st in f[2]],
       [("ab", "v:ab::varchar", "s1"), ("Ab", "v:Ab::varchar", "S2"), ("AB", "v:AB::varchar", "3"), ("aB", "v:aB::varchar", None)], "keys are case-sensitive")
    f = fams["key2.getpath.raw"]
    eq([(st[1], st[3]) for st in f[2]],
       [("get_path(v, 'o.ab')", 4), ("get_path(v, 'o.Ab')", "s5"), ("get_path(v, 'o.AB')", [6]), ("get_path(v, 'o.aB')", M)], "depth 2")
    f = fams["key1.bracket.where"]
    eq([(st[4], st[3]) for st in f[2]],
       [(" where v['ab']::varchar = 'S2'", 0), (" where v['Ab']::varchar = 'S2'", 1), (" where v['AB']::varchar = 'S2'", 0), (" where v['aB']::varchar = 'S2'", 0)], "WHERE: one variant hits")
    f = fams["doc.dollar.varchar.k"]
    eq([(st[1], st[3]) for st in f[2]],
       [('parse_json($${"k":"abc","n":[1,2]}$$):k::varchar', "abc"), ('parse_json($${"k":"Abc","n":[1,2]}$$):k::varchar', "Abc"),
        ('parse_json($${"k":"ABC","n":[1,2]}$$):k::varchar', "ABC"), ('parse_json($${"K":"abc","n":[1,2]}$$):k::varchar', None)], "document text is case-sensitive")  # fmt: skip
    f = fams["cmp.c_eq"]
    eq([(st[1], st[3]) for st in f[2]], [("v:ab::varchar = 's1'", True), ("v:ab::varchar = 'S1'", False)], "compared literal")
    for fid, feats, stmts, _frm in c11.sess_families():
        low = {(st[1] + (st[4] if len(st) > 4 else "")).lower() for st in stmts}
        expect(len(low) == 1 and len({st[1] + (st[4] if len(st) > 4 else "") for st in stmts}) == len(stmts), f"{fid}: the statements differ in letter case only")
    expect(c11.classify("C11.session", {"vary": "path-key.depth1", "fc": "p", "op": "raw", "pos": "later"}) == "vary=path-key.depth1,fc=p,pos=later", "session class key")


if __name__ == "__main__":
    for t in (test_navigation, test_conversions, test_array_size_flatten_constructors_split, test_3vl, test_matches, test_ops_table,
              test_generators, test_nested, test_text_functions_and_flatten_value, test_routes, test_oracle_on_synthetic_observations,
              test_consumers_and_sessions):  # fmt: skip
        print(t.__name__)
        t()
    print("FAILED" if FAILS else "ok", f"({len(FAILS)} failures)")
    sys.exit(1 if FAILS else 0)
