#!/venv/bin/python
"""Self-test of the C17 reference model (mc/ref/c17_model.py) against hand-written expectations.

1. the equality the property talks about (cmp_cell / cmp_rows / cmp_description / cmp_error): expectations from the
   Python connector's documented type mapping and plain Python semantics (NaN, -0.0, Decimal exponents, aware vs naive
   datetimes, pytz vs zoneinfo UTC, bytes vs bytearray);
2. frac_class: IEEE-754 facts worked out by hand / with exact rational arithmetic (fractions.Fraction), not with the
   implementation;
3. SessionModel: Snowflake session semantics (own current schema and variables per session; sessions of one account
   see the same tables; ':isolated:' and path-backed logins of fakesnow's README do not), the two 401 codes.

Nothing here runs fakesnow or a server: a wrong model fails here, not as a false alarm.

Run: /venv/bin/python selftest/test_c17.py   (exit 0 = all passed, 1 = a failure)
"""
from __future__ import annotations

import datetime as dt
import decimal
import fractions
import os
import sys
import zoneinfo

sys.path.insert(0, os.path.dirname(os.path.dirname(os.path.abspath(__file__))))
from mc.ref import c17_model as M  # noqa: E402

D = decimal.Decimal
FAILS = []
N = [0]


def check(name, got, exp):
    N[0] += 1
    if got != exp:
        FAILS.append(f"{name}: expected {exp!r}, got {got!r}")


# ---- 1. cells ---------------------------------------------------------------------------------------------------------
def test_cells():
    import pytz

    nan = float("nan")
    utc_zi = zoneinfo.ZoneInfo("UTC")
    t = dt.datetime(2020, 1, 2, 3, 4, 5, 678)
    cases = [
        ("None None", None, None, set()),
        ("None vs epoch (the NULL timestamp defect)", None, dt.datetime(1970, 1, 1), {"null"}),
        ("value vs None", 1, None, {"null"}),
        ("int equal", 1, 1, set()),
        ("int differ", 1, 2, {"value"}),
        ("int vs Decimal same number: type only", 1, D("1"), {"pytype"}),
        ("int vs Decimal other number", 1, D("2"), {"pytype", "value"}),
        ("int vs float same number: type only", 1, 1.0, {"pytype"}),
        ("bool vs int same truth: type only", True, 1, {"pytype"}),
        ("bool vs int other truth", True, 0, {"pytype", "value"}),
        ("bool equal", False, False, set()),
        ("bool differ", False, True, {"value"}),
        ("bool vs str", True, "true", {"pytype", "value"}),
        ("float equal", 0.1, 0.1, set()),
        ("float one ulp", 0.1, 0.10000000000000002, {"value"}),
        ("NaN equals NaN", nan, float("nan"), set()),
        ("NaN vs number", nan, 1.0, {"value"}),
        ("inf equal", float("inf"), float("inf"), set()),
        ("inf vs -inf", float("inf"), float("-inf"), {"value"}),
        ("-0.0 vs 0.0 are different doubles", -0.0, 0.0, {"value"}),
        ("denormal", 5e-324, 5e-324, set()),
        ("Decimal equal", D("12.35"), D("12.35"), set()),
        ("Decimal same number other exponent (prints differently)", D("1.5"), D("1.50"), {"value"}),
        ("Decimal differ", D("1.5"), D("1.6"), {"value"}),
        ("Decimal 38 digits", D("9" * 38), D("9" * 38), set()),
        ("Decimal 38 digits off by one", D("9" * 38), D("9" * 37 + "8"), {"value"}),
        ("str equal", "héllo ❄", "héllo ❄", set()),
        ("str differ", "a", "a ", {"value"}),
        ("empty str vs None", "", None, {"null"}),
        ("str vs int (COMMENT ON defect)", 1, "", {"pytype"}),
        ("bytes vs bytearray same content: type only", b"AB", bytearray(b"AB"), {"pytype"}),
        ("bytes vs bytearray other content", b"AB", bytearray(b"AC"), {"pytype", "value"}),
        ("bytes equal", b"\x00\xff", b"\x00\xff", set()),
        ("date equal", dt.date(1969, 12, 31), dt.date(1969, 12, 31), set()),
        ("date differ", dt.date(1969, 12, 31), dt.date(1970, 1, 1), {"value"}),
        ("date vs datetime: another kind of thing, the type difference is the whole finding", dt.date(2020, 1, 2), dt.datetime(2020, 1, 2), {"pytype"}),
        ("time equal", dt.time(23, 59, 59, 999999), dt.time(23, 59, 59, 999999), set()),
        ("time one microsecond", dt.time(0, 0, 0, 1), dt.time(0, 0, 0, 0), {"value"}),
        ("naive datetime equal", t, t, set()),
        ("naive datetime one microsecond", t, t.replace(microsecond=679), {"value"}),
        ("pre-epoch naive", dt.datetime(1969, 12, 31, 23, 59, 59, 999999), dt.datetime(1969, 12, 31, 23, 59, 59, 999999), set()),
        ("aware: zoneinfo UTC vs pytz UTC, same instant", t.replace(tzinfo=utc_zi), pytz.utc.localize(t), set()),
        ("aware: datetime.timezone.utc vs pytz UTC", t.replace(tzinfo=dt.timezone.utc), pytz.utc.localize(t), set()),
        ("aware: other instant", t.replace(tzinfo=utc_zi), pytz.utc.localize(t.replace(second=6)), {"value"}),
        ("aware: same instant but +05:30 on one side (offset must be zero on both)",
         t.replace(tzinfo=utc_zi), t.replace(tzinfo=utc_zi).astimezone(dt.timezone(dt.timedelta(hours=5, minutes=30))), {"value"}),
        ("aware vs naive same wall clock: type only", t.replace(tzinfo=utc_zi), t, {"pytype"}),
        ("aware vs naive other wall clock", t.replace(tzinfo=utc_zi), t.replace(hour=4), {"pytype", "value"}),
        ("JSON text equal", '{\n  "k": "v1"\n}', '{\n  "k": "v1"\n}', set()),
        ("JSON text other whitespace is another str", '{"k":"v1"}', '{ "k": "v1" }', {"value"}),
        ("list equal", [1, 2], [1, 2], set()),
        ("list differ", [1, 2], [1, 3], {"value"}),
    ]
    for name, a, b, exp in cases:
        check("cmp_cell " + name, M.cmp_cell(a, b), exp)
        # symmetry of the verdict (the sub-clauses do not depend on which side is which)
        check("cmp_cell symmetric " + name, M.cmp_cell(b, a), exp)
    check("pytype_name int", M.pytype_name(1), "int")
    check("pytype_name Decimal", M.pytype_name(D(1)), "decimal.Decimal")
    check("pytype_name aware", M.pytype_name(t.replace(tzinfo=utc_zi)), "datetime(aware)")
    check("pytype_name naive", M.pytype_name(t), "datetime(naive)")
    check("pytype_name date", M.pytype_name(dt.date(2020, 1, 1)), "datetime.date")
    check("pytype_name bytearray", M.pytype_name(bytearray(b"")), "bytearray")


# ---- rows / description / error ------------------------------------------------------------------------------------------
def test_rows():
    a = [(1, "x"), (2, None)]
    check("rows equal ordered", M.cmp_rows(a, [(1, "x"), (2, None)], True), [])
    check("rows other order, ordered comparison", bool(M.cmp_rows(a, [(2, None), (1, "x")], True)), True)
    check("rows other order, multiset comparison", M.cmp_rows(a, [(2, None), (1, "x")], False), [])
    check("rows count", M.cmp_rows(a, a[:1], True), [("count", 2, 1)])
    check("rows count both directions", M.cmp_rows(a[:1], a, True), [("count", 1, 2)])
    check("rows empty", M.cmp_rows([], [], True), [])
    check("rows width (a column lost)", M.cmp_rows([(1, 2)], [(1,)], True), [("width", 0, 2, 1)])
    check("rows cell null", M.cmp_rows([(1, None)], [(1, dt.datetime(1970, 1, 1))], True), [("cell", 0, 1, {"null"})])
    check("rows cell type", M.cmp_rows([(b"A",)], [(bytearray(b"A"),)], True), [("cell", 0, 0, {"pytype"})])
    check("multiset with NULLs and NaN sorts without error", M.cmp_rows([(None,), (float("nan"),), (1.0,)], [(1.0,), (None,), (float("nan"),)], False), [])
    check("multiset duplicate rows counted", M.cmp_rows([(1,), (1,), (2,)], [(1,), (2,), (2,)], False) != [], True)


def test_description():
    d1 = [("A", 0, None, None, 38, 0, True), ("B", 2, None, 16777216, None, None, True)]
    check("description equal", M.cmp_description(d1, list(d1)), [])
    check("description count", M.cmp_description(d1, d1[:1]), [("count", 2, 1)])
    d2 = [("A", 0, None, None, 10, 2, True), ("b", 2, None, 16777216, None, None, False)]
    check("description fields", M.cmp_description(d1, d2), [("field", 0, "precision"), ("field", 0, "scale"), ("field", 1, "name"), ("field", 1, "is_nullable")])
    check("description type code", M.cmp_description([("A", 0, None, None, 38, 0, True)], [("A", 1, None, None, 38, 0, True)]), [("field", 0, "type_code")])
    check("description None vs 0 differ", M.cmp_description([("A", 0, None, None, None, None, True)], [("A", 0, None, None, 0, 0, True)]), [("field", 0, "precision"), ("field", 0, "scale")])

    class RM:  # shape of snowflake.connector.cursor.ResultMetadata
        name, type_code, display_size, internal_size, precision, scale, is_nullable = "X", 8, None, None, 0, 9, True

    check("desc_tuple", M.desc_tuple(RM), ("X", 8, None, None, 0, 9, True))


def test_error():
    e = ("snowflake.connector.errors.ProgrammingError", 2003, "42S02", "002003 (42S02): Catalog Error: Table with name NOPE does not exist!")
    check("error equal", M.cmp_error(e, tuple(e)), [])
    check("error 500", M.cmp_error(e, ("snowflake.connector.errors.InternalServerError", 290500, "n/a", "290500: HTTP 500")), ["class", "errno", "sqlstate", "message"])
    check("error message only", M.cmp_error(e, e[:3] + ("other",)), ["message"])
    check("error errno only", M.cmp_error(e, (e[0], 2043, e[2], e[3])), ["errno"])
    check("engine exception vs snowflake error", M.cmp_error(("duckdb.duckdb.ConversionException", None, None, "x"), (e[0], 100038, "22018", "x")), ["class", "errno", "sqlstate"])


# ---- 2. fractions ----------------------------------------------------------------------------------------------------
def exact_class(us):
    """Independent derivation with exact rational arithmetic: d1 = the double nearest to us/10^6, d2 = the double
    nearest to d1 * 10^9; the class is 'binary_inexact' iff d2 is not the integer us * 1000."""
    if us == 0:
        return "zero"
    d1 = fractions.Fraction(float(fractions.Fraction(us, 10**6)))  # correctly rounded quotient, as IEEE division gives
    d2 = float(d1 * 10**9)  # Fraction -> float is correctly rounded, as IEEE multiplication gives
    return "binary_exact" if fractions.Fraction(d2) == us * 1000 else "binary_inexact"


def test_fractions():
    check("0", M.frac_class(0), "zero")
    # hand-checked with a calculator: 0.000065 * 1e9 = 65000.00000000001, 0.000064 * 1e9 = 64000.0, 0.5 * 1e9 exact
    check("65us", M.frac_class(65), "binary_inexact")
    check("64us", M.frac_class(64), "binary_exact")
    check("1us", M.frac_class(1), "binary_exact")
    check("123us", M.frac_class(123), "binary_inexact")
    check("half second", M.frac_class(500000), "binary_exact")
    check("quarter second (dyadic: always exact)", M.frac_class(250000), "binary_exact")
    check("999999us", M.frac_class(999999), exact_class(999999))
    bad = [us for us in range(0, 20000) if M.frac_class(us) != exact_class(us)]
    check("frac_class = exact rational derivation on the first 20000 fractions", bad, [])
    bad = [us for us in range(0, 1_000_000, 997) if M.frac_class(us) != exact_class(us)]
    check("frac_class = exact rational derivation on every 997th fraction", bad, [])
    n = sum(1 for us in range(1_000_000) if M.frac_class(us) == "binary_inexact")
    check("inexact fractions are a small minority (between 1% and 10%)", 10_000 < n < 100_000, True)
    for us in (-1, 1_000_000):
        try:
            M.frac_class(us)
            check(f"frac_class({us}) rejects", "no error", "AssertionError")
        except AssertionError:
            check(f"frac_class({us}) rejects", True, True)


# ---- 3. session machine ------------------------------------------------------------------------------------------------
def test_sessions():
    m = M.SessionModel()
    check("initial key", m.key(), ((), ()))
    check("login answer", m.step(("login", "shared")), ("login",))
    check("second shared login", m.step(("login", "shared")), ("login",))
    check("isolated login", m.step(("login", "isolated")), ("login",))
    check("context after login: DB1.S1, no variables", m.expected_context(), [("DB1", "S1", {})] * 3)
    check("shared logins share one instance", m.tokens[0]["inst"] == m.tokens[1]["inst"], True)
    check("isolated login has its own instance", m.tokens[2]["inst"] != m.tokens[0]["inst"], True)
    check("no table yet: 002003 / 42S02", m.step(("query", 0, "sel")), ("err", 2003, "42S02"))
    check("put", m.step(("query", 0, "put")), ("status",))
    check("writer reads its row", m.step(("query", 0, "sel")), ("rows", [(0,)]))
    check("other token of the shared instance sees the row", m.step(("query", 1, "sel")), ("rows", [(0,)]))
    check("isolated token does not", m.step(("query", 2, "sel")), ("err", 2003, "42S02"))
    check("isolated put", m.step(("query", 2, "put")), ("status",))
    check("isolated reads its own row: a DATE, where token 0 wrote a number", m.step(("query", 2, "sel")), ("rows", [(dt.date(2002, 2, 2),)]))
    check("shared instance untouched by the isolated put", m.step(("query", 1, "sel")), ("rows", [(0,)]))
    check("second writer replaces the table (CREATE OR REPLACE)", (m.step(("query", 1, "put")), m.step(("query", 0, "sel"))), (("status",), ("rows", [("w1",)])))
    # context is per token
    check("use schema", m.step(("query", 0, "use2")), ("status",))
    check("only the sender's schema changed", [c[1] for c in m.expected_context()], ["S2", "S1", "S1"])
    check("unqualified MARK now resolves in S2: not there", m.step(("query", 0, "sel")), ("err", 2003, "42S02"))
    check("other token still reads S1.MARK (a text, written by token 1)", m.step(("query", 1, "sel")), ("rows", [("w1",)]))
    check("put in S2", m.step(("query", 0, "put")), ("status",))
    check("marks of the shared instance", m.expected_marks(1), {"S1": 1, "S2": 0})
    check("marks of the isolated instance", m.expected_marks(2), {"S1": 2, "S2": None})
    check("use schema back", (m.step(("query", 0, "use1")), m.step(("query", 0, "sel"))), (("status",), ("rows", [("w1",)])))
    # variables are per token
    check("undefined variable: an error, errno not demanded", m.step(("query", 0, "getv")), ("err", None, None))
    check("set", m.step(("query", 0, "set")), ("status",))
    check("own variable: a number", m.step(("query", 0, "getv")), ("rows", [(10,)]))
    check("other token of the same instance has no such variable", m.step(("query", 1, "getv")), ("err", None, None))
    check("other token sets its own", (m.step(("query", 1, "set")), m.step(("query", 1, "getv")), m.step(("query", 0, "getv"))),
          (("status",), ("rows", [("v1",)]), ("rows", [(10,)])))
    check("variables in context", [c[2] for c in m.expected_context()], [{"V": 10}, {"V": "v1"}, {}])
    # unauthorized requests
    k = m.key()
    check("missing Authorization", m.step(("noauth", "missing", "put")), ("401", "390103"))
    for v in ("bogus", "truncated", "extended", "empty", "other_scheme"):
        check(f"unknown token ({v})", m.step(("noauth", v, "set")), ("401", "390104"))
    check("unauthorized requests change nothing", m.key(), k)
    # alphabet
    check("no login beyond 3 tokens", [op for op in m.enabled(("put",), ("put",), ("missing",)) if op[0] == "login"], [])
    m2 = M.SessionModel()
    ops = m2.enabled(("put", "sel"), ("put",), ("missing", "bogus", "truncated"))
    check("initial alphabet: 3 logins + the unauthorized requests that need no valid token",
          ops, [("login", "shared"), ("login", "isolated"), ("login", "path"), ("noauth", "missing", "put"), ("noauth", "bogus", "put")])
    m2.step(("login", "path"))
    m2.step(("login", "path"))
    check("two path logins: two instances", m2.tokens[0]["inst"] != m2.tokens[1]["inst"], True)
    m2.step(("query", 0, "put"))
    check("path-backed instances do not share", m2.step(("query", 1, "sel")), ("err", 2003, "42S02"))
    check("enabled with 2 tokens", len(m2.enabled(("put", "sel"), ("put",), ("missing", "truncated"))), 3 + 2 * 2 + 2)
    # changes_state is pure and right
    k = m2.key()
    check("sel changes nothing", m2.changes_state(("query", 0, "sel")), False)
    check("repeated put by the same token changes nothing", m2.changes_state(("query", 0, "put")), False)
    check("put by the other token changes its instance", m2.changes_state(("query", 1, "put")), True)
    check("use2 changes", m2.changes_state(("query", 0, "use2")), True)
    check("use1 while in S1 changes nothing", m2.changes_state(("query", 0, "use1")), False)
    check("login changes", m2.changes_state(("login", "shared")), True)
    check("noauth changes nothing", m2.changes_state(("noauth", "missing", "put")), False)
    check("changes_state is pure", m2.key(), k)
    c = m2.copy()
    c.step(("query", 1, "set"))
    check("copy is deep", m2.key(), k)
    # keys distinguish what must be distinguished
    a, b = M.SessionModel(), M.SessionModel()
    a.step(("login", "shared")), b.step(("login", "isolated"))
    check("kind is part of the state", a.key() != b.key(), True)


def test_headers():
    check("missing", M.auth_header("missing", "TOK"), None)
    check("bogus", M.auth_header("bogus", "TOK"), 'Snowflake Token="bogus"')
    check("empty", M.auth_header("empty", None), 'Snowflake Token=""')
    check("truncated", M.auth_header("truncated", "TOKEN"), 'Snowflake Token="TOKE"')
    check("extended", M.auth_header("extended", "TOKEN"), 'Snowflake Token="TOKENx"')
    check("other scheme", M.auth_header("other_scheme", "TOKEN"), "Bearer TOKEN")
    check("documented codes", (M.CODE_MISSING, M.CODE_UNKNOWN), ("390103", "390104"))
    for k, sql in M.INTRUDER_STMTS.items():
        check(f"intruder statement {k} is one that would change something", sql.split()[0].lower() in ("create", "use", "set"), True)
    check("put by token 0 writes a number", M.stmt_sql("put", 0), "create or replace table MARK as select 0 as WHO")
    check("put by token 1 writes a text", M.stmt_sql("put", 1), "create or replace table MARK as select 'w1' as WHO")
    check("put by token 2 writes a date", M.stmt_sql("put", 2), "create or replace table MARK as select '2002-02-02'::date as WHO")
    check("set by token 2 assigns a fraction", M.stmt_sql("set", 2), "set V = 2.5")
    check("the read texts do not depend on the token", [M.stmt_sql(s, 0) == M.stmt_sql(s, 1) == M.stmt_sql(s, 2) for s in M.READ_STMTS], [True, True])
    check("the read texts", [M.stmt_sql(s, 1) for s in M.READ_STMTS], ["select WHO from MARK", "select $V"])
    check("written values have three different Python types", sorted(type(v).__name__ for v in M.MARK_VALUES), ["date", "int", "str"])
    check("variable values: NUMBER scale 0 -> int, VARCHAR -> str, NUMBER scale 1 -> Decimal", [type(v).__name__ for v in M.VAR_VALUES], ["int", "str", "Decimal"])


def main():
    for f in (test_cells, test_rows, test_description, test_error, test_fractions, test_sessions, test_headers):
        f()
    if FAILS:
        print(f"test_c17: {len(FAILS)} of {N[0]} checks FAILED")
        for x in FAILS:
            print("  " + x)
        return 1
    print(f"test_c17: {N[0]} checks passed")
    return 0


if __name__ == "__main__":
    sys.exit(main())
