#!/venv/bin/python
"""Self-test of the C02 reference model (no fakesnow involved): identifier folding, the foldable/fixed token
classification, the enumeration of re-spellings, the names-only catalogue model, the name judge, the template
catalogue's internal consistency and the classifier — against hand-written expectations taken from the Snowflake
documentation ("Identifier requirements", "Querying semi-structured data", "Session variables").

    /venv/bin/python selftest/test_c02.py      exit 0 = all good, 1 = a reference component is wrong
"""
import os
import sys

sys.path.insert(0, os.path.dirname(os.path.dirname(os.path.abspath(__file__))))

from checks import c02  # noqa: E402
from mc import core  # noqa: E402
from mc.ref import sf_ident as R  # noqa: E402

FAILS = []
N = [0]


def check(name, got, want):
    N[0] += 1
    if got != want:
        FAILS.append(f"{name}: got {got!r}, want {want!r}")


def raises(name, fn, exc):
    N[0] += 1
    try:
        fn()
    except exc:
        return
    except Exception as e:  # noqa: BLE001
        FAILS.append(f"{name}: raised {type(e).__name__}, want {exc.__name__}")
        return
    FAILS.append(f"{name}: did not raise")


# ---- 1. folding: "Identifier requirements" ---------------------------------------------------------------------------
# "When an identifier is unquoted, it is stored and resolved in uppercase."
for spelled, want in [
    ("myidentifier", "MYIDENTIFIER"),
    ("MyIdentifier1", "MYIDENTIFIER1"),
    ("My$identifier", "MY$IDENTIFIER"),
    ("_my_identifier", "_MY_IDENTIFIER"),
    ("TABLENAME", "TABLENAME"),
    ("tablename", "TABLENAME"),
    ("tableName", "TABLENAME"),
    ("TableName", "TABLENAME"),
    # "Delimited identifiers ... the case of the identifier is preserved"; the documentation's examples
    ('"MyIdentifier"', "MyIdentifier"),
    ('"my.identifier"', "my.identifier"),
    ('"my identifier"', "my identifier"),
    ("\"My 'Identifier'\"", "My 'Identifier'"),
    ('"3rd_identifier"', "3rd_identifier"),
    ('"$Identifier"', "$Identifier"),
    ('"идентификатор"', "идентификатор"),
    # "To use the double quote character inside a quoted identifier, use two quotes"
    ('"quote""andunquote"""', 'quote"andunquote"'),
    ('"TABLENAME"', "TABLENAME"),
    ('"tablename"', "tablename"),
]:
    check(f"fold {spelled}", R.fold(spelled), want)
# the documentation's equivalence list: these are the same identifier ...
check("equivalent", len({R.fold(s) for s in ["TABLENAME", "tablename", "tableName", "TableName", '"TABLENAME"']}), 1)
# ... and these are all different ones
check("distinct", len({R.fold(s) for s in ['"TABLENAME"', '"tablename"', '"tableName"', '"TableName"']}), 4)
raises("fold rejects a non identifier", lambda: R.fold("my identifier"), ValueError)
raises("fold rejects a leading digit", lambda: R.fold("3rd"), ValueError)
check("quote_upper", R.quote_upper("abC"), '"ABC"')
check("quote_upper denotes the same object", R.fold(R.quote_upper("abC")), R.fold("abC"))
raises("quote_upper of quoted", lambda: R.quote_upper('"x"'), ValueError)
check("split 3", R.split_qualified("db1.s1.t"), ["db1", "s1", "t"])
check("split quoted dot", R.split_qualified('db1."s.x".t'), ["db1", '"s.x"', "t"])
check("split quoted quote", R.split_qualified('"a""b".c'), ['"a""b"', "c"])
check("fold_qualified", R.fold_qualified('db1."s.X".t'), ("DB1", "s.X", "T"))
raises("split malformed", lambda: R.split_qualified("a..b"), ValueError)
raises("split open quote", lambda: R.split_qualified('a."b'), ValueError)
check("ident_sql", R.ident_sql('a"B'), '"a""B"')
check("ident_sql round trip", R.fold(R.ident_sql("qT")), "qT")


# ---- 2. which tokens may change case ------------------------------------------------------------------------------------
def kinds(sql):
    return [(t.text, t.kind) for t in R.lex(sql) if t.kind != "gap"]


def fixed_words(sql):
    return [t.text for t in R.lex(sql) if t.kind == "fixed" and any(c.isalpha() for c in t.text)]


def fold_words(sql):
    return [t.text for t in R.lex(sql) if t.kind == "fold"]


# keywords, identifiers, function names, type names fold; constants and quoted identifiers do not
check("simple", fold_words("select k, v as alias1 from t where k > 0"), ["select", "k", "v", "as", "alias1", "from", "t", "where", "k"])
check("string constant", fixed_words("select 'MiXed' as lit"), ["'MiXed'"])
check("quoted identifier", fixed_words('select "cA", b from "qT"'), ['"cA"', '"qT"'])
check("quoted identifier fold part", fold_words('select "cA", b from "qT"'), ["select", "b", "from"])
check("number with exponent", fixed_words("select 1e5 as n"), ["1e5"])
check("dollar string", fixed_words("select $$aB$$ as s"), ["$$aB$$"])
check("hex constant", fixed_words("select x'4a' as h"), ["x'4a'"])
check("type names fold", fold_words("select 1::number(10,2), cast('1' as integer)"), ["select", "number", "cast", "as", "integer"])
check("date part folds", fold_words("select dateadd(day, 1, d)"), ["select", "dateadd", "day", "d"])
check("named argument folds", fold_words("select value from lateral flatten(input => [1])"), ["select", "value", "from", "lateral", "flatten", "input"])
# "SQL variables are globally identified using case-insensitive names"
check("session variable folds", fold_words("select $pv"), ["select", "pv"])
check("set", fold_words("set nv = 'MiX'"), ["set", "nv"])
check("positional column", fold_words("select $1 from t"), ["select", "from", "t"])
check("identifier() argument is a constant", fixed_words("select k from identifier('t')"), ["'t'"])
# "Querying semi-structured data": "the column name is case-insensitive but element names are case-sensitive":
# src:salesperson.name, SRC:salesperson.name are the same, SRC:Salesperson.Name is not
check("path elements fixed", fixed_words("select src:salesperson.name from car_sales"), ["salesperson", "name"])
check("path column folds", fold_words("select src:salesperson.name from car_sales"), ["select", "src", "from", "car_sales"])
check("path then cast", kinds("select v:aB.cD::int")[-1], ("int", "fold"))
check("path then cast elements", fixed_words("select v:aB.cD::int"), ["aB", "cD"])
check("bracket notation", fixed_words("select src['salesperson']['name'] from t"), ["'salesperson'", "'name'"])
check("path bracket path", fixed_words("select v:a[0].bB, k from t"), ["a", "bB"])
check("path bracket expression folds", fold_words("select v:a[k].bB from t"), ["select", "v", "k", "from", "t"])
check("path ends at comma", fold_words("select v:a, bB from t"), ["select", "v", "bB", "from", "t"])
check("path on function result", fixed_words("select parse_json('{\"aB\":1}'):aB as x"), ["'{\"aB\":1}'", "aB"])
check("keyword pairs are two words", fold_words("select k from t group  by k order by k"), ["select", "k", "from", "t", "group", "by", "k", "order", "by", "k"])
check("keyword pairs keep their gap", R.render(R.lex("select k from t group  by k"), "u"), "SELECT K FROM T GROUP  BY K")
check("quoted path element", fixed_words('select v:"aB".c from t'), ['"aB"', "c"])
check("object constant colon is no path", fold_words("select {'a': k} from t"), ["select", "k", "from", "t"])
check("array constant", fold_words("select [k, 1] from t"), ["select", "k", "from", "t"])
check("keyword as path element", fixed_words("select v:value.select from t"), ["value", "select"])
# every occurrence of an identifier is its own token: definition and reference are re-spelled independently
toksc = R.lex("with ~totals as (select 1 as ~a) select ~a from ~totals")
singles = [R.render(toksc, f) for lab, f in R.spellings(toksc, "quick") if lab.startswith("one:u")]
check("definition flipped alone", "with TOTALS as (select 1 as a) select a from totals" in singles, True)
check("reference flipped alone", "with totals as (select 1 as a) select a from TOTALS" in singles, True)
check("quoting one occurrence", 'with totals as (select 1 as a) select a from "TOTALS"' in
      [R.render(toksc, f, qs) for _l, f, qs in R.quotings(toksc, "quick")], True)
# statements whose rest sqlglot's tokenizer swallows as one pseudo string (CALL, EXECUTE, EXPLAIN, PUT, REMOVE, ...)
check("call", kinds("call my_proc(1, 'aB')"), [("call", "fold"), ("my_proc", "fold"), ("(", "fixed"), ("1", "fixed"), (",", "fixed"), ("'aB'", "fixed"), (")", "fixed")])
check("execute immediate", fold_words("execute immediate 'select 1'"), ["execute", "immediate"])
check("execute immediate constant", fixed_words("execute immediate 'select A'"), ["'select A'"])
check("explain", fold_words("explain select k from t"), ["explain", "select", "k", "from", "t"])
check("put", (fold_words("put 'file:///tmp/xY' @stage1"), fixed_words("put 'file:///tmp/xY' @stage1")), (["put", "stage1"], ["'file:///tmp/xY'"]))
check("remove", fold_words("remove @stage1"), ["remove", "stage1"])
check("call reassembles", R.render(R.lex("call  my_proc(1)"), "u"), "CALL  MY_PROC(1)")
# reassembly and marks
tpl = "select ~k, \"cA\" from ~db1.~s1.~t  where ~k = 'x' -- end"
toks = R.lex(tpl)
check("render lower reproduces", R.render(toks, "l"), tpl.replace("~", ""))
check("names", [toks[i].text for i in R.names(toks)], ["k", "db1", "s1", "t", "k"])
raises("mark on a constant", lambda: R.lex("select ~'x'"), ValueError)
raises("mark on a quoted identifier", lambda: R.lex('select ~"x"'), ValueError)
raises("mark on a path element", lambda: R.lex("select v:~a from t"), ValueError)
raises("dangling mark", lambda: R.lex("select 1 ~"), ValueError)

# forms
check("lower", R.spell("To_Decimal", "l"), "to_decimal")
check("upper", R.spell("To_Decimal", "u"), "TO_DECIMAL")
check("capitalised", R.spell("to_decimal", "c"), "To_decimal")
check("alternating", R.spell("to_decimal", "a"), "tO_dEcImAl")
check("alternating one letter", R.spell("k", "a"), "k")
check("capitalised one letter", R.spell("k", "c"), "K")
toks = R.lex("select abc from 'Lit' def \"Qu\" v:pA")
check("render upper", R.render(toks, "u"), "SELECT ABC FROM 'Lit' DEF \"Qu\" V:pA")
check("render cap", R.render(toks, "c"), "Select Abc From 'Lit' Def \"Qu\" V:pA")
check("render alt", R.render(toks, "a"), "sElEcT aBc fRoM 'Lit' dEf \"Qu\" v:pA")
idx = R.foldable(toks)
check("render one", R.render(toks, {idx[1]: "u"}), "select ABC from 'Lit' def \"Qu\" v:pA")

# enumeration
toks = R.lex("select abc from def")  # t = 4, all tokens longer than one letter: no two spellings coincide
q = R.spellings(toks, "quick")
check("quick labels", [lab for lab, _ in q], ["all:l", "all:u", "all:c", "all:a", "one:u:0", "one:u:1", "one:u:2", "one:u:3"])
th = R.spellings(toks, "thorough")
check("thorough count t=4", len(th), 2**4 + 2 + 2 * 4)  # all masks (incl. lower/UPPER/singles) + cap + alt + single cap/alt
check("thorough first is the reference", th[0], ("all:l", {}))
texts = [R.render(toks, f) for _l, f in th]
check("thorough distinct", len(set(texts)), len(texts))
check("thorough all equal up to case", {t.lower() for t in texts}, {"select abc from def"})
check("thorough has every mask", {t for t in texts if all(w.islower() or w.isupper() for w in t.split())} >= {
    " ".join(w.upper() if (m >> i) & 1 else w for i, w in enumerate("select abc from def".split())) for m in range(16)
}, True)
toks11 = R.lex("select aa, bb, cc, dd, ee, ff, gg, hh from tt")  # t = 11 > FULL_LIMIT
check("t=11", len(R.foldable(toks11)), 11)
check("thorough count t=11", len(R.spellings(toks11, "thorough")), 1 + 3 + 11 + 2 * 11 + 55)
check("quick count t=11", len(R.spellings(toks11, "quick")), 4 + 11)
toks1 = R.lex("select k from t")  # one-letter tokens: Capitalised = UPPER, alternating = lower -> deduplicated
check("dedupe", [lab for lab, _ in R.spellings(toks1, "quick")], ["all:l", "all:u", "all:c", "all:a", "one:u:0", "one:u:1", "one:u:2", "one:u:3"])
check("dedupe one letter statement", len(R.spellings(R.lex("a b"), "thorough")), 4)
# quotings
toks = R.lex("select ~k from ~t where ~k = 1")
qq = R.quotings(toks, "quick")
check("quotings quick", [R.render(toks, f, qs) for _l, f, qs in qq], [
    'select "K" from t where k = 1', 'select k from "T" where k = 1', 'select k from t where "K" = 1',
    'select "K" from "T" where "K" = 1'])
qt = R.quotings(toks, "thorough")
check("quotings thorough", len(qt), 2 * (2**3 - 1))  # every non-empty subset, rest lower and rest UPPER
check("quotings thorough upper rest", 'SELECT "K" FROM T WHERE K = 1' in [R.render(toks, f, qs) for _l, f, qs in qt], True)
check("no names no quotings", R.quotings(R.lex("show tables"), "thorough"), [])
toks8 = R.lex("select ~a, ~b, ~c, ~d, ~e, ~f, ~g from ~t")
check("quotings pairs above 6", len(R.quotings(toks8, "thorough")), 2 * (8 + 1 + 28))

# ---- 3. names model --------------------------------------------------------------------------------------------------------
c = R.Catalog("db1", "s1")
check("connect args upper", (c.cur_db, c.cur_schema), ("DB1", "S1"))
c.apply(("table", "t", ["k", '"mC"']))
c.apply(("table", '"qT"', ['"cA"', "b"]))
c.apply(("view", "vw", ["k"]))
c.apply(("schema", "s2"))
c.apply(("table", "s2.u", ["id"]))
c.apply(("database", "db2"))
check("objects", c.objects(), [
    ("DB1", "S1", "T", "table", ["K", "mC"]),
    ("DB1", "S1", "VW", "view", ["K"]),
    ("DB1", "S1", "qT", "table", ["cA", "B"]),
    ("DB1", "S2", "U", "table", ["ID"]),
])
check("verbatim", c.verbatim, {"mC", "qT", "cA"})
check("schemas", c.schemas(), [("DB1", "S1"), ("DB1", "S2")])
check("databases", c.databases(), ["DB1", "DB2"])
c.apply(("addcol", "t", "c")).apply(("renamecol", "T", "k", "k9")).apply(("dropcol", "t", '"mC"'))
check("columns", c.dbs["DB1"]["S1"]["T"][1], ["K9", "C"])
c.apply(("rename", "t", "t9"))
check("rename", sorted(c.dbs["DB1"]["S1"]), ["T9", "VW", "qT"])
c.apply(("table", "t9", ["z"]))  # create or replace
check("replace", c.dbs["DB1"]["S1"]["T9"], ("table", ["Z"]))
c.apply(("drop", '"T9"'))  # the quoted upper-case spelling denotes the same object
check("drop via quoted", sorted(c.dbs["DB1"]["S1"]), ["VW", "qT"])
c.apply(("use_schema", "s2"))
check("use schema", (c.cur_db, c.cur_schema), ("DB1", "S2"))
c.apply(("table", "n", ["a"]))
check("resolves against current schema", "N" in c.dbs["DB1"]["S2"], True)
c.apply(("dropschema", "s2"))
check("drop current schema", (c.cur_db, c.cur_schema), ("DB1", None))
c.apply(("use_schema", "db2.x"))
check("use schema qualified", (c.cur_db, c.cur_schema), ("DB2", "X"))
c.apply(("use_database", "db1"))
check("use database", (c.cur_db, c.cur_schema), ("DB1", R.UNKNOWN))
raises("needs a schema", lambda: c.apply(("table", "q", ["a"])), ValueError)
c.apply(("dropdatabase", "DB1"))
check("drop current database", (c.cur_db, c.cur_schema, c.databases()), (None, None, ["DB2"]))
c = R.Catalog("db1", "s1").apply(("session", None, None))
check("second connection without arguments", (c.cur_db, c.cur_schema, c.databases()), (None, None, ["DB1"]))
raises("unqualified name without context", lambda: c.apply(("table", "q", ["a"])), ValueError)
c.apply(("table", "db1.s1.q", ["a"])).apply(("use_schema", 'db1."lower_s"'))
check("quoted lower-case schema is current verbatim", (c.cur_db, c.cur_schema, "lower_s" in c.verbatim), ("DB1", "lower_s", True))
c.apply(("use_database", '"MixedDb"'))
check("quoted mixed-case database is current verbatim", (c.cur_db, c.cur_schema), ("MixedDb", R.UNKNOWN))
# judge
exp, verb = {"T", "qT", "VW"}, {"qT"}
check("judge exact", R.judge_name("T", exp, verb), "exact")
check("judge exact quoted", R.judge_name("qT", exp, verb), "exact")
check("judge case", R.judge_name("t", exp, verb), "case")
check("judge case quoted", R.judge_name("QT", exp, verb), "case")
check("judge lower", R.judge_name("information_schema", exp, verb), "lower")
check("judge other upper", R.judge_name("OTHER", exp, verb), "other")
check("judge other verbatim", R.judge_name("qT", {"T"}, verb), "other")

# ---- 4. the check's own tables ------------------------------------------------------------------------------------------
path_elements, unclassified = set(), []
for t in c02.TEMPLATES:
    toks = R.lex(t.sql)
    for tk in toks:
        if tk.why == "path-element":
            path_elements.add(tk.text)
        if tk.why == "unclassified":
            unclassified.append((t.id, tk.text))
    check(f"{t.id}: lower rendering is the template", R.render(toks, "l"), t.sql.replace("~", "").lower() if not any(
        tk.kind == "fixed" and any(ch.isupper() for ch in tk.text) for tk in toks) else R.render(toks, "l"))
    # every spelling differs from the reference only in letter case of foldable tokens
    ref = R.render(toks, "l")
    for lab, forms in R.spellings(toks, "quick"):
        s = R.render(toks, forms)
        if s.lower() != ref.lower():
            FAILS.append(f"{t.id}/{lab}: not a case re-spelling")
        for tk in toks:
            if tk.kind == "fixed" and tk.text not in s:
                FAILS.append(f"{t.id}/{lab}: fixed token {tk.text!r} changed")
    for lab, form, qs in R.quotings(toks, "quick"):
        s = R.render(toks, form, qs)
        if s.replace('"', "").lower() != ref.replace('"', "").lower():
            FAILS.append(f"{t.id}/{lab}: not a quoting re-spelling")
    # expectations are well-formed
    if t.cols is not None:
        [R.fold(x) for x in t.cols]
    c02.model_after(t)  # effects apply to the prelude's model
    N[0] += 1
check("path elements in the catalogue", path_elements, {"aB", "cD", "a", "bB", "K"})
check("no unclassified tokens", unclassified, [])
check("template ids unique", len({t.id for t in c02.TEMPLATES}), len(c02.TEMPLATES))
kinds_needed = {"SELECT", "INSERT", "UPDATE", "DELETE", "TRUNCATE", "MERGE", "CREATE TABLE", "CREATE VIEW",
                "CREATE SCHEMA", "CREATE DATABASE", "DROP", "ALTER", "COMMENT", "USE", "SHOW", "DESCRIBE", "SET",
                "UNSET", "TRANSACTION", "IS_QUERY", "FUNCTION", "CONNECT", "ERROR", "TAG", "USER", "COMMAND",
                "COMMAND_DDL", "NOP"}
check("kinds covered", {t.kind for t in c02.TEMPLATES}, kinds_needed)
m = c02.model_after(None)
check("prelude model", [(o[1], o[2], o[4]) for o in m.objects()], [
    ("S1", "J", ["ID", "DOC"]), ("S1", "PK", ["ID", "X"]), ("S1", "S", ["K", "V"]), ("S1", "T", ["K", "V"]),
    ("S1", "VW", ["K", "V"]), ("S1", "qT", ["cA", "B", "C"]), ("S2", "U", ["ID", "NOTE"])])
check("prelude context", (m.cur_db, m.cur_schema, m.databases()), ("DB1", "S1", ["DB1", "DB2"]))
m = c02.model_after(c02.TPL["create_table"])
check("create_table model", m.dbs["DB1"]["S1"]["T2"], ("table", ["A", "B", "mC", "D", "E", "F", "G", "H"]))
check("failed statement has no effect", "T2" in c02.model_after(c02.TPL["create_table"], succeeded=False).dbs["DB1"]["S1"], False)

# own-result expectations
o = {"status": ("ok", None), "names": (("K", "ALIAS1"), ("K", "ALIAS1")), "rows": (("1", "'a'"),), "rowcount": 1}
check("own ok", [x[2] for x in c02.own_result_findings(c02.TPL["sel_alias"], o)], [False, False])
o2 = dict(o, names=(("k", "alias1"), ("K", "ALIAS1")))
check("own keys lower", [(x[0], x[2]) for x in c02.own_result_findings(c02.TPL["sel_alias"], o2)], [("description", False), ("dictkeys", True)])
o3 = dict(o, names=(("K", "X"), ("K", "X")))
check("own other columns: not a case matter", c02.own_result_findings(c02.TPL["sel_alias"], o3), [])
st = {"status": ("ok", None), "names": (("status",), ("status",)), "rows": (("'Table T2 successfully created.'",),), "rowcount": 1}
check("status ok", [(x[0], x[1], x[2]) for x in c02.own_result_findings(c02.TPL["create_table"], st)],
      [("status", "kind=case,name=unquoted,stmt=CREATE TABLE", False)])
st2 = dict(st, rows=(("'Table t2 successfully created.'",),))
check("status lower", [x[2] for x in c02.own_result_findings(c02.TPL["create_table"], st2)], [True])
st3 = dict(st, rows=(("'Table MIXED successfully created.'",),))
check("status of quoted name folded", [(x[1], x[2]) for x in c02.own_result_findings(c02.TPL["create_table_q"], st3)],
      [("kind=case,name=quoted,stmt=CREATE TABLE", True)])

# session flavours
check("flavours", sorted(c02.SESSIONS), ["full", "nodb", "nop", "noschema", "q", "qd", "qs"])
check("flavours used", {t.session for t in c02.TEMPLATES}, set(c02.SESSIONS))
m = c02.model_after(None, session="nodb")
check("nodb context", (m.cur_db, m.cur_schema), (None, None))
m = c02.model_after(None, session="noschema")
check("noschema context", (m.cur_db, m.cur_schema), ("DB1", R.UNKNOWN))
m = c02.model_after(None, session="qs")
check("qs context", (m.cur_db, m.cur_schema), ("DB1", "lower_s"))
check("qs objects", [(o[2], o[4]) for o in m.objects() if o[1] == "lower_s"],
      [("T5", ["ID", "mIx"]), ("mt", ["cc", "Dd"]), ("vV", ["cc"])])
m = c02.model_after(None, session="qd")
check("qd context", (m.cur_db, m.cur_schema, m.databases()), ("MixedDb", "sX", ["DB1", "DB2", "MixedDb"]))
m = c02.model_after(c02.TPL["qs_create_table"])
check("unqualified create resolves in the quoted schema", m.dbs["DB1"]["lower_s"]["T6"], ("table", ["A"]))
m = c02.model_after(c02.TPL["q_alter_rename"])
check("quoted rename", sorted(m.dbs["DB1"]["lower_s"]), ["Mt2", "T5", "vV"])
# names a DESCRIBE / SHOW template must list, and conn.database / conn.schema after every execution
d = {"status": ("ok", None), "names": (("name", "type"), ("name", "type")), "rowcount": 2,
     "rows": (("'ID'", "'NUMBER(38,0)'"), ("'mIx'", "'VARCHAR(7)'")), "context": ("DB1", "lower_s", ("DB1", "lower_s"))}
check("has ok", [(x[0], x[2]) for x in c02.own_result_findings(c02.TPL["qs_describe"], d)],
      [("result", False), ("result", False), ("conn", False), ("conn", False)])
d2 = dict(d, rows=(("'ID'", "'NUMBER(38,0)'"), ("'MIX'", "'VARCHAR(7)'")))
check("has: quoted name folded", [(x[1], x[2]) for x in c02.own_result_findings(c02.TPL["qs_describe"], d2)][:2],
      [("kind=case,name=unquoted,stmt=DESCRIBE,session=qs", False), ("kind=case,name=quoted,stmt=DESCRIBE,session=qs", True)])
d3 = dict(d, names=(None, ("name", "type")), rows=(), rowcount=0)
check("has: nothing listed", [(x[1], x[2]) for x in c02.own_result_findings(c02.TPL["qs_describe"], d3)][:2],
      [("kind=missing,name=unquoted,stmt=DESCRIBE,session=qs", True), ("kind=missing,name=quoted,stmt=DESCRIBE,session=qs", True)])
d4 = dict(d, context=("DB1", "LOWER_S", ("DB1", "lower_s")))
check("conn: quoted current schema folded", [(x[1], x[2]) for x in c02.own_result_findings(c02.TPL["qs_describe"], d4)][2:],
      [("kind=case,name=unquoted,attr=database,session=qs", False), ("kind=case,name=quoted,attr=schema,session=qs", True)])
d5 = dict(d, context=("DB1", None, ("DB1", "main")))
check("conn: no current schema is not a case matter", [x[1] for x in c02.own_result_findings(c02.TPL["qs_describe"], d5)][2:],
      ["kind=case,name=unquoted,attr=database,session=qs"])
# sweeps planned
check("quick sweeps: state-changing", c02.sweep_labels(c02.TPL["q_use_schema"], "quick"), ("all:u",))
check("quick sweeps: read-only", (c02.sweep_labels(c02.TPL["sel_join"], "quick"), c02.sweep_labels(c02.TPL["qd_select"], "quick")), ((), ("all:u",)))
check("quick sweeps: one read-only template per flavour",
      sorted(c02.TPL[t].session for t in c02.QUICK_SHARED_SWEEPS), sorted(c02.SESSIONS))
check("thorough sweeps", (c02.sweep_labels(c02.TPL["sel_join"], "thorough"), c02.sweep_labels(c02.TPL["upd"], "thorough")), (("all:u",), c02.CANONICAL))

# ---- statement families answered from the statement text: each must be present, with every keyword a flip token
def fold_seq(t):
    return [tk.text.lower() for tk in R.lex(t.sql) if tk.kind == "fold"]


def is_subseq(need, have):
    it = iter(have)
    return all(any(x == w for x in it) for w in need)


for fam, words in c02.TEXT_FAMILIES.items():
    hits = [t for t in c02.TEMPLATES if t.layout == "1" and is_subseq(words, fold_seq(t))]
    check(f"family {fam} has a template", bool(hits), True)
    if not hits:
        continue
    t = min(hits, key=lambda x: len(fold_seq(x)))
    toks = R.lex(t.sql)
    for tier in ("quick", "thorough"):
        singles = {R.render(toks, f) for lab, f in R.spellings(toks, tier)}
        for w in words:
            # some spelling has exactly this keyword (one occurrence of it) in upper case and every other token lower
            idx = [i for i in R.foldable(toks) if toks[i].text.lower() == w]
            ok = any(R.render(toks, {i: "u"}) in singles for i in idx)
            check(f"family {fam}: keyword {w} flipped on its own ({tier}, {t.id})", ok, True)
    check(f"family {fam}: whole-statement forms", {lab for lab, _ in R.spellings(toks, "quick")} >= {"all:l", "all:u"}, True)
# the families fakesnow answers itself are also laid out with two blanks and with newlines, each layout with its own
# all-lower reference (only letter case varies inside a layout)
for t in c02.TEMPLATES:
    if t.layout == "1" and t.kind in c02.LAYOUT_KINDS:
        for lay, sep in (("2sp", "  "), ("nl", "\n")):
            r = c02.TPL[f"{t.id}~{lay}"]
            check(f"{r.id}: same tokens", [tk.text for tk in R.lex(r.sql) if tk.kind != "gap"],
                  [tk.text for tk in R.lex(t.sql) if tk.kind != "gap"])
            check(f"{r.id}: gaps", {tk.text for tk in R.lex(r.sql) if tk.kind == "gap"} <= {sep}, True)
            check(f"{r.id}: marks kept", [tk.text for tk in R.lex(r.sql) if tk.name], [tk.text for tk in R.lex(t.sql) if tk.name])
            check(f"{r.id}: session, kind", (r.session, r.kind, r.layout), (t.session, t.kind, lay))
check("layout example", c02.TPL["tag_column_modify_set~nl"].sql.replace("~", ""),
      "alter\ntable\nt\nmodify\ncolumn\nk\nset\ntag\ncost_center\n=\n'sales'")
check("layout kinds in quick", (c02.in_tier(c02.TPL["tag_schema_set~2sp"], "quick"), c02.in_tier(c02.TPL["grant_table~2sp"], "quick"),
                                c02.in_tier(c02.TPL["grant_table~2sp"], "thorough")), (True, False, True))
check("nop flavour patterns are not all upper case", [p for p in c02.NOP_REGEXES if p.upper() == p], [])
check("nop templates", sorted(t.id for t in c02.TEMPLATES if t.session == "nop" and t.layout == "1"),
      ["nop_alter_session", "nop_call", "nop_copy_into", "nop_grant", "nop_unmatched"])
# names given as a string are filed separately by the sweep
check("via", c02.TPL["fn_identifier_create"].via, ("identifier()", ["t8"]))

# facets and classifier
ref = {f: 0 for f in c02.FACETS}
check("no diff", c02.diff_facets(ref, dict(ref)), ())
check("diff order", c02.diff_facets(ref, dict(ref, state=1, status=1, rows=1)), ("status", "rows", "state"))
check("form of", (c02._form_of("k", "c"), c02._form_of("k", "a"), c02._form_of("ab", "c"), c02._form_of("ab", "a"), c02._form_of("ab", "u")),
      ("upper", None, "capitalised", "alternating", "upper"))


class _Ctx:
    def __init__(self):
        self.acc = core.Acc()


def run_classify(sql, differing, tier="thorough", kind="MERGE"):
    """differing: predicate on the rendered text -> differs from the reference?"""
    tp = c02.T("x", kind, sql)
    toks = R.lex(sql)
    cata = {
        "toks": toks,
        "ref": R.render(toks, "l"),
        "case": [(lab, f, R.render(toks, f)) for lab, f in R.spellings(toks, tier)],
        "quote": [(lab, f, qs, R.render(toks, f, qs)) for lab, f, qs in R.quotings(toks, tier)],
    }
    res = {}
    for text in [x[2] for x in cata["case"]] + [x[3] for x in cata["quote"]]:
        d = differing(text)
        res[text] = (("status",) if d else (), {"facets": ["status"]} if d else None, ("ok", None),
                     tuple(("x" if d and f == "status" else "-") for f in c02.FACETS))
    ctx = _Ctx()
    c02.classify(ctx, tp, cata, res)
    return ctx.acc


a = run_classify("when matched then delete", lambda s: "DELETE" in s)
check("classify: one token, upper only", sorted(a.viol), [("C02.respell.status", "stmt=MERGE,tok=delete,form=upper")])
check("classify: homogeneous", a.classes[("C02.respell.status", "stmt=MERGE,tok=delete,form=upper")], [8, 8])
a = run_classify("when matched then delete", lambda s: "delete" not in s)
check("classify: one token, every form", sorted(k[1] for k in a.viol), [
    "stmt=MERGE,tok=delete,form=alternating", "stmt=MERGE,tok=delete,form=capitalised", "stmt=MERGE,tok=delete,form=upper"])
a = run_classify("then delete or delete", lambda s: s.count("DELETE") == 2)
check("classify: only a combination", sorted(a.viol), [("C02.respell.status", "stmt=MERGE,tok=<combination>")])
a = run_classify("select ~k from ~t", lambda s: '"T"' in s, kind="SELECT")
check("classify: quoted name", sorted(a.viol), [("C02.quoted.status", "stmt=SELECT,name=t")])
a = run_classify("when matched then delete ~t", lambda s: "DELETE" in s)  # quotings with the rest in UPPER agree with ALL-UPPER
check("classify: quoting is compared with its own case partner", sorted(k[0] for k in a.viol), ["C02.respell.status"])
a = run_classify("select ~k from ~t", lambda s: False, kind="SELECT")
check("classify: silent", (a.viol, a.counters["spellings_agreeing"] > 0), ({}, True))

# ---- verbatim templates: "double-quoted identifiers are stored and resolved exactly as entered" ------------------------
VT_SQL = 'select count(*) as "<total>", sum(k) as "<total_k>", v unq from t'
check("vslots", R.vslots(VT_SQL), ["total", "total_k"])
check("vslots: a repeated word is one slot",
      R.vslots('with c as (select k as "<ck>" from t) select "<ck>" from c'), ["ck"])
check("vrender lower", R.vrender(VT_SQL, "l"), 'select count(*) as "total", sum(k) as "total_k", v unq from t')
check("vrender per slot", R.vrender(VT_SQL, ("c", "u")),
      'select count(*) as "Total", sum(k) as "TOTAL_K", v unq from t')
check("vrender alternating", R.vrender('select 1 as "<c_one>"', "a"), 'select 1 as "c_OnE"')
check("vrender: definition and reference together",
      R.vrender('with c as (select k as "<ck>" from t) select "<ck>" from c', ("c",)),
      'with c as (select k as "Ck" from t) select "Ck" from c')
check("vrender leaves other quoted identifiers alone",
      R.vrender('select "cA" as "<ca>" from "qT"', "u"), 'select "cA" as "CA" from "qT"')
# Snowflake: select count(*) as "Total", v unq  -> columns Total, UNQ
check("vreported: quoted verbatim, unquoted upper",
      R.vreported(['"<total>"', '"<total_k>"', "unq"], VT_SQL, ("c", "l")), ("Total", "total_k", "UNQ"))
check("vreported upper", R.vreported(['"<total>"', '"<total_k>"', "unq"], VT_SQL, "u"), ("TOTAL", "TOTAL_K", "UNQ"))
check("vreported: fixed quoted column", R.vreported(['"cA"', '"<ca>"'], 'select "cA", 1 as "<ca>"', "l"), ("cA", "ca"))
raises("vslots: upper-case slot word", lambda: R.vslots('select 1 as "<Total>"'), ValueError)
raises("vslots: one-letter slot word", lambda: R.vslots('select 1 as "<a>"'), ValueError)
raises("vrender: wrong number of forms", lambda: R.vrender(VT_SQL, ("l",)), ValueError)
check("vspellings quick, one slot", R.vspellings(1, "quick"), [("l",), ("u",), ("c",), ("a",)])
check("vspellings quick, two slots", R.vspellings(2, "quick"),
      [("l", "l"), ("u", "u"), ("c", "c"), ("a", "a"), ("u", "l"), ("l", "u")])
check("vspellings thorough, two slots", len(set(R.vspellings(2, "thorough"))), 16)
h = R.vhistories(R.vspellings(1, "quick"), "quick")
check("vhistories: ordered pairs of different spellings", (len(h), len(set(h)), all(a != b for a, b in h)), (12, 12, True))
check("vhistories: both orders", all((b, a) in h for a, b in h), True)
h3 = [x for x in R.vhistories(R.vspellings(2, "thorough"), "thorough") if len(x) == 3]
check("vhistories thorough: triples", (len(h3), sum(1 for x in h3 if x[0] == x[2])), (36, 12))
check("vhistories thorough: pairs", len([x for x in R.vhistories(R.vspellings(2, "thorough"), "thorough") if len(x) == 2]), 240)
# the catalogue of verbatim templates is consistent with the model
for vt in c02.VERBATIM_TEMPLATES:
    check(f"{vt.id}: every slot is a reported column", [w for w in vt.slots if f'"<{w}>"' not in vt.cols], [])
    rep = [R.vreported(vt.cols, vt.sql, f) for f in R.FORMS]
    check(f"{vt.id}: four spellings, four different reports", len(set(rep)), 4)
    check(f"{vt.id}: reports differ in letter case only", len({tuple(x.upper() for x in r) for r in rep}), 1)
    check(f"{vt.id}: no repeated column name", [len(set(r)) == len(r) for r in rep], [True] * 4)
    check(f"{vt.id}: upper rest keeps quoted text and placeholder",
          (c02._vsql(vt, "c", "u").count("%s"), [q for q in R.vrender(vt.sql, "c").split('"')[1::2]]),
          (vt.sql.count("%s"), [q for q in c02._vsql(vt, "c", "u").split('"')[1::2]]))
check("vsql upper rest", c02._vsql(c02.VTPL["v_bound"], "c", "u"), 'SELECT %s AS "Bound", K FROM T ORDER BY K')
check("quick arrangements exist", [a for a in c02.QUICK_ARRANGEMENTS if a not in c02.ARRANGEMENTS], [])
check("arrangements cover same / other / conn in quick",
      sorted({c02.ARRANGEMENTS[a][0] for a in c02.QUICK_ARRANGEMENTS}), ["conn", "other", "same"])
vt0 = c02.VTPL["v_alias"]
check("vclass first", c02.vclass(vt0, "same-dict", "none", 0, (("l", "l"), ("u", "u"))), "stmt=v_alias,cursor=same,step=first")
check("vclass later", c02.vclass(vt0, "other-tuple-dict", "none", 1, (("l", "l"), ("u", "u"))),
      "stmt=v_alias,cursor=other,step=later")
check("vclass seen before + between", c02.vclass(vt0, "conn-dict", "set", 2, (("l", "l"), ("u", "u"), ("l", "l"))),
      "stmt=v_alias,cursor=conn,step=later,spelling=seen-before,between=set")
pl = c02.vplan("quick")
check("vplan quick", (len(pl), sum(len(i[4]) for i in pl)), (55, 1110))

if FAILS:
    print(f"selftest C02: {len(FAILS)} of {N[0]} checks FAILED")
    for f in FAILS:
        print("  -", f)
    sys.exit(1)
print(f"selftest C02: {N[0]} checks passed")
sys.exit(0)
