#!/venv/bin/python
"""Self-test of the C14 reference model (the connect option table in checks/c14.py) and of the C14 oracles.

1. hand-written expectations, one row per cell of the property statement ("creates exactly the objects the options
   allow and nothing else, leaves the session with a current database/schema exactly when those objects exist,
   reporting the requested names upper-cased either way") and of the Snowflake behaviour it mirrors (a session whose
   database does not exist has no current database: 90105; with a database but no schema: 90106; every database has
   INFORMATION_SCHEMA; unquoted names are upper-cased; a schema cannot exist without its database);
2. the complete product of the model is compared with a second, literal formulation of the same table (a dict keyed
   by (database exists, schema status, flags), written out below by hand);
3. the oracles on synthetic observations: a correct outcome passes, each kind of wrong outcome is reported under the
   right clause;
4. the model is *not* run against fakesnow here (that is the check);
5. statement steps between connects (wave 2): the model adopts the catalog found after the statement, the option table
   is applied to that catalog (a dropped schema is missing again: created again iff create_schema_on_connect), the
   plan never puts two statements in a row, and the exemption of the differential "undisturbed" oracle.

exit 0 = all passed, 1 = some expectation failed.
"""
import copy
import itertools
import os
import sys

sys.path.insert(0, os.path.dirname(os.path.dirname(os.path.abspath(__file__))))

from checks import c14  # noqa: E402

FAILS = []


def expect(cond, msg):
    if not cond:
        FAILS.append(msg)
        print("FAIL:", msg)


T, F = True, False
S1T0 = {"S1": {"T0": ["(7, 'seven')"]}}
# prior "database": S1 is missing, but DB1 holds another schema with a table (something stored that could be disturbed);
# the rows below list only what the connect is about (S1), SXKX is added to the expectation for that prior
SXKX = {"SX": {"KX": ["(5, 'five')"]}}

# ---------------------------------------------------------------------------------------------------------------------
# 1. hand-written rows:
#    (cd, cs, storage, prior, earlier connects, (database, schema))
#       -> (conn.database, conn.schema, database created, schema created, current database?, current schema?,
#           DB1 afterwards (None = no DB1 attached), first unqualified CREATE TABLE, first unqualified CREATE SCHEMA)
ROWS = [
    # nothing given: nothing created, no context, names None
    ((T, T, "memory", "nothing", [], (None, None)), (None, None, F, F, F, F, None, "e90105", "e90105")),
    ((T, T, "memory", "database+schema", [], (None, None)), (None, None, F, F, F, F, S1T0, "e90105", "e90105")),
    # schema without database: nothing can be created, no context, name still reported upper-cased
    ((T, T, "memory", "database+schema", [], (None, "s1")), (None, "S1", F, F, F, F, S1T0, "e90105", "e90105")),
    ((T, T, "memory", "nothing", [], (None, "information_schema")), (None, "INFORMATION_SCHEMA", F, F, F, F, None, "e90105", "e90105")),
    # both flags on, nothing there: both created
    ((T, T, "memory", "nothing", [], ("db1", "s1")), ("DB1", "S1", T, T, T, T, {"S1": {}}, "ok", "ok")),
    ((T, T, "memory", "nothing", [], ("Db1", "S1")), ("DB1", "S1", T, T, T, T, {"S1": {}}, "ok", "ok")),
    ((T, T, "memory", "nothing", [], ("DB1", None)), ("DB1", None, T, F, T, F, {}, "e90106", "ok")),
    # database exists, schema missing
    ((T, T, "memory", "database", [], ("db1", "s1")), ("DB1", "S1", F, T, T, T, {"S1": {}}, "ok", "ok")),
    ((T, F, "memory", "database", [], ("db1", "s1")), ("DB1", "S1", F, F, T, F, {}, "e90106", "ok")),
    ((F, T, "memory", "database", [], ("db1", "S1")), ("DB1", "S1", F, T, T, T, {"S1": {}}, "ok", "ok")),
    ((F, F, "memory", "database", [], ("DB1", "s1")), ("DB1", "S1", F, F, T, F, {}, "e90106", "ok")),
    # everything exists: nothing created whatever the flags, rows kept
    ((T, T, "memory", "database+schema", [], ("db1", "s1")), ("DB1", "S1", F, F, T, T, S1T0, "ok", "ok")),
    ((F, F, "memory", "database+schema", [], ("Db1", "s1")), ("DB1", "S1", F, F, T, T, S1T0, "ok", "ok")),
    ((F, F, "memory", "database+schema", [], ("db1", None)), ("DB1", None, F, F, T, F, S1T0, "e90106", "ok")),
    # create_database off, database missing: nothing created - not even the schema, whose flag is on - and no context
    ((F, T, "memory", "nothing", [], ("db1", "s1")), ("DB1", "S1", F, F, F, F, None, "e90105", "e90105")),
    ((F, T, "fresh", "nothing", [], ("db1", "information_schema")), ("DB1", "INFORMATION_SCHEMA", F, F, F, F, None, "e90105", "e90105")),
    ((F, F, "memory", "nothing", [], ("db1", "s1")), ("DB1", "S1", F, F, F, F, None, "e90105", "e90105")),
    ((F, T, "memory", "nothing", [], ("db1", None)), ("DB1", None, F, F, F, F, None, "e90105", "e90105")),
    # create_schema off: database created, schema not -> database only
    ((T, F, "memory", "nothing", [], ("db1", "s1")), ("DB1", "S1", T, F, T, F, {}, "e90106", "ok")),
    # INFORMATION_SCHEMA exists in every database: never created, current schema as soon as the database exists
    ((T, F, "memory", "nothing", [], ("db1", "information_schema")), ("DB1", "INFORMATION_SCHEMA", T, F, T, T, {}, "ok", "ok")),
    ((T, T, "memory", "nothing", [], ("db1", "information_schema")), ("DB1", "INFORMATION_SCHEMA", T, F, T, T, {}, "ok", "ok")),
    ((F, F, "memory", "database", [], ("DB1", "information_schema")), ("DB1", "INFORMATION_SCHEMA", F, F, T, T, {}, "ok", "ok")),
    # db_path, fresh directory: same table
    ((T, T, "fresh", "nothing", [], ("db1", "s1")), ("DB1", "S1", T, T, T, T, {"S1": {}}, "ok", "ok")),
    ((T, F, "fresh", "database+schema", [], ("db1", "s1")), ("DB1", "S1", F, F, T, T, S1T0, "ok", "ok")),
    # db_path with a previous instance's files: the database is found with its contents
    ((T, T, "previous", "database+schema", [], ("db1", "s1")), ("DB1", "S1", T, F, T, T, S1T0, "ok", "ok")),
    ((T, F, "previous", "database+schema", [], ("db1", "s1")), ("DB1", "S1", T, F, T, T, S1T0, "ok", "ok")),
    ((T, F, "previous", "database", [], ("db1", "s1")), ("DB1", "S1", T, F, T, F, {}, "e90106", "ok")),
    ((T, T, "previous", "database", [], ("db1", "s1")), ("DB1", "S1", T, T, T, T, {"S1": {}}, "ok", "ok")),
    ((T, T, "previous", "nothing", [], ("db1", None)), ("DB1", None, T, F, T, F, {}, "e90106", "ok")),
    # connection order: a later connect sees what an earlier one created, and only that
    ((T, T, "memory", "nothing", [("db1", None)], ("DB1", "s1")), ("DB1", "S1", F, T, T, T, {"S1": {}}, "ok", "ok")),
    ((T, T, "memory", "nothing", [("db1", "s1")], ("Db1", "S1")), ("DB1", "S1", F, F, T, T, {"S1": {}}, "ok", "ok")),
    ((T, F, "memory", "nothing", [("db1", "s1")], ("db1", "s1")), ("DB1", "S1", F, F, T, F, {}, "e90106", "ok")),
    ((F, T, "memory", "nothing", [("db1", "s1")], ("db1", "s1")), ("DB1", "S1", F, F, F, F, None, "e90105", "e90105")),
    ((T, T, "memory", "nothing", [(None, "s1")], ("db1", None)), ("DB1", None, T, F, T, F, {}, "e90106", "ok")),
]

for (cd, cs, storage, prior, earlier, (db, sch)), want in ROWS:
    m = c14.Model((cd, cs, storage, prior))
    other_before = copy.deepcopy(m.cat["OTHER"])
    for a in earlier:
        m.connect(*a)
    e = m.connect(db, sch)
    if prior == "database" and want[6] is not None:
        want = want[:6] + (dict(want[6], **SXKX),) + want[7:]
    got = (e["database"], e["schema"], e["created_db"], e["created_schema"], e["has_db"], e["has_schema"], m.cat.get("DB1"))
    p = m.expected_probe(len(m.sessions) - 1)
    got = got + (p[0], p[2])
    expect(got == want, f"row {(cd, cs, storage, prior, earlier, (db, sch))}: model says {got}, hand-written {want}")
    # nothing else: the bystander database and the first session are untouched, no third database appears
    expect(m.cat["OTHER"] == other_before, f"row {(cd, cs, storage, prior, db, sch)}: bystander database changed")
    expect(set(m.cat) <= {"OTHER", "DB1"}, f"row {(cd, cs, storage, prior, db, sch)}: unexpected database {set(m.cat)}")
    expect(m.sessions[0] == {"database": "OTHER", "schema": "SO", "has_db": True, "has_schema": True, "alive": True}, "first session changed")
    # landing place of the first unqualified statements
    if p[0] == "ok" and e["schema"] != "INFORMATION_SCHEMA":
        expect(p[1] == (("DB1", e["schema"]),), f"table lands in {p[1]}")
    else:
        expect(p[1] == (), f"no table expected, model says {p[1]}")
    expect(p[3] == (("DB1",) if p[2] == "ok" else ()), f"schema lands in {p[3]}")
    # files: exactly the databases of the instance + the previous instance's
    if storage == "memory":
        expect(m.disk is None, "memory has no disk")
    else:
        files = {"OTHER"} | ({"OLD"} if storage == "previous" else set()) | ({"DB1"} if (m.cat.get("DB1") is not None or (storage == "previous" and prior != "nothing")) else set())
        expect(set(m.disk) == files, f"row {(cd, cs, storage, prior, db, sch)}: files {set(m.disk)} want {files}")

# ---------------------------------------------------------------------------------------------------------------------
# 2. literal second formulation over the complete product (in-memory, one connect):
#    key (database given, database exists before, schema: absent|missing|exists|builtin, cd, cs)
#    value (database created, schema created, current database, current schema)
LITERAL = {}
for given, exists, sk, cd, cs in itertools.product((F, T), (F, T), ("absent", "missing", "exists", "builtin"), (F, T), (F, T)):
    if not given:
        LITERAL[(given, exists, sk, cd, cs)] = (F, F, F, F)  # no database named: nothing to create, nothing current
        continue
    db_created = (not exists) and cd
    db_after = exists or db_created
    if not db_after:
        LITERAL[(given, exists, sk, cd, cs)] = (F, F, F, F)
        continue
    if sk == "absent":
        val = (db_created, F, T, F)
    elif sk == "builtin":
        val = (db_created, F, T, T)
    elif sk == "exists" and exists:
        val = (db_created, F, T, T)
    else:  # schema missing (a schema cannot exist in a database that did not exist)
        val = (db_created, cs, T, cs)
    LITERAL[(given, exists, sk, cd, cs)] = val

n = 0
for cd, cs in c14.FLAGS:
    for prior in c14.PRIORS:
        for db, sch in c14.CONNECT_ARGS:
            m = c14.Model((cd, cs, "memory", prior))
            exists = "DB1" in m.cat
            if sch is None:
                sk = "absent"
            elif sch.upper() == "INFORMATION_SCHEMA":
                sk = "builtin"
            else:
                sk = "exists" if exists and "S1" in m.cat["DB1"] else "missing"
            e = m.connect(db, sch)
            got = (e["created_db"], e["created_schema"], e["has_db"], e["has_schema"])
            want = LITERAL[(db is not None, exists, sk, cd, cs)]
            expect(got == want, f"literal table: {(cd, cs, prior, db, sch)} model {got} literal {want}")
            expect(e["database"] == (db.upper() if db else None) and e["schema"] == (sch.upper() if sch else None), "names upper-cased")
            n += 1
expect(n == 4 * 3 * 16, "complete product compared")

# free cell: an unattached database file with create_database_on_connect=False follows the observation
for observed in (False, True):
    m = c14.Model((F, F, "previous", "database+schema"))
    expect(m.free_cell("db1") and not m.free_cell(None), "free cell recognised")
    e = m.connect("db1", "s1", observed_attached=observed)
    expect((e["has_db"], e["has_schema"]) == (observed, observed), f"free cell observed={observed}: {e}")
    expect((m.cat.get("DB1") == S1T0) == observed, "free cell: contents come from disk")
expect(not c14.Model((T, F, "previous", "database+schema")).free_cell("db1"), "cd=True is not a free cell")
expect(not c14.Model((F, F, "fresh", "nothing")).free_cell("db1"), "no file -> not a free cell")
expect(not c14.Model((F, F, "memory", "nothing")).free_cell("db1"), "memory -> not a free cell")

# shapes (classifier keys)
m = c14.Model((F, T, "memory", "nothing"))
expect(c14.shape(m, "db1", "s1") == "cd=F,cs=T,db=missing,schema=given", c14.shape(m, "db1", "s1"))
expect(c14.shape(m, "Db1", "information_schema") == "cd=F,cs=T,db=missing,schema=given", "case/value free")
expect(c14.shape(m, None, "s1") == "cd=F,cs=T,db=absent,schema=given", c14.shape(m, None, "s1"))
m = c14.Model((T, T, "memory", "database+schema"))
expect(c14.shape(m, "db1", "S1") == "cd=T,cs=T,db=exists,schema=exists", c14.shape(m, "db1", "S1"))
expect(c14.shape(m, "db1", "information_schema") == "cd=T,cs=T,db=exists,schema=builtin", "builtin")
expect(c14.shape(m, "db1", None) == "cd=T,cs=T,db=exists,schema=absent", "absent")
m = c14.Model((T, T, "previous", "database+schema"))
expect(c14.shape(m, "db1", "s1") == "cd=T,cs=T,db=missing,schema=given", "unattached file = missing in the instance")

# names with a character that is active in LIKE / regex / glob patterns, next to look-alike objects: an identifier is a
# plain name (Snowflake: unquoted identifiers consist of letters, digits, _ and $; D_1, D$1 and DX1 are three databases)
expect(c14.look_alike("D_1", "DX1") and c14.look_alike("DX1", "D_1") and c14.look_alike("D$1", "DX1"), "look-alike at the active position")
expect(not c14.look_alike("D_1", "D_1") and not c14.look_alike("D_1", "DX2") and not c14.look_alike("D_1", "DX11") and not c14.look_alike("DB1", "DC1"), "not look-alikes")
for fam, (d, dd, sc, sd) in c14.FAMILIES.items():
    D, DD, SC, SD = d.upper(), dd.upper(), sc.upper(), sd.upper()
    expect(c14.look_alike(D, DD) and c14.look_alike(SC, SD) and any(ch in c14.ACTIVE_CHARS for ch in d) and any(ch in c14.ACTIVE_CHARS for ch in sc), f"{fam}: decoys differ only at the active character")
    expect(c14.family_args(f"{fam}:nothing") == ((d, None), (d, sc), (d, sd), (dd, None), (dd, sc), (dd, sd)), "family connect alphabet")
    # fixture mirrored by hand
    m = c14.Model((T, T, "memory", f"{fam}:decoy_database+database+decoy_schema"))
    expect(m.cat[DD] == {SC: {}, SD: {"KD": ["(8, 'eight')"]}} and m.cat[D] == {SD: {"KS": ["(9, 'nine')"]}}, f"{fam}: fixture content")
    expect(c14.Model((T, T, "previous", f"{fam}:decoy_database")).cat.keys() == {"OTHER"}, "previous: look-alike only as a file")
    expect(set(c14.Model((T, T, "previous", f"{fam}:decoy_database")).disk) == {"OLD", DD, "OTHER"}, "previous: files (previous instance + the bystander database of this one)")
    for cd, cs in c14.FLAGS:
        # only the look-alike database exists (holding a schema named exactly like the requested one): the requested
        # database does not exist -> created iff cd, schema created iff cd and cs; the look-alike is untouched
        m = c14.Model((cd, cs, "memory", f"{fam}:decoy_database"))
        expect(c14.shape(m, d, sc).endswith("db=missing,schema=given,decoy_db,decoy_schema"), c14.shape(m, d, sc))
        expect(c14.shape(m, d, None).endswith("db=missing,schema=absent,decoy_db"), c14.shape(m, d, None))
        e = m.connect(d, sc)
        expect((e["created_db"], e["created_schema"], e["has_db"], e["has_schema"]) == (cd, cd and cs, cd, cd and cs), f"{fam} decoy database {(cd, cs)}: {e}")
        expect((D in m.cat) == cd and m.cat[DD] == {SC: {}, SD: {"KD": ["(8, 'eight')"]}}, "look-alike database untouched")
        expect((e["database"], e["schema"]) == (D, SC), "names reported as requested")
        # the database exists with only the look-alike schema: requested schema created iff cs
        m = c14.Model((cd, cs, "memory", f"{fam}:database+decoy_schema"))
        expect(c14.shape(m, d, sc).endswith("db=exists,schema=missing,decoy_schema"), c14.shape(m, d, sc))
        e = m.connect(d, sc)
        expect((e["created_db"], e["created_schema"], e["has_db"], e["has_schema"]) == (F, cs, T, cs), f"{fam} decoy schema {(cd, cs)}: {e}")
        expect(m.cat[D][SD] == {"KS": ["(9, 'nine')"]} and (SC in m.cat[D]) == cs, "look-alike schema untouched")
        # the other direction: the look-alike name is requested while only the name with the active character exists
        m = c14.Model((cd, cs, "memory", f"{fam}:database+decoy_schema"))
        expect(c14.shape(m, dd, sd).endswith("db=missing,schema=given,decoy_db,decoy_schema"), c14.shape(m, dd, sd))
        e = m.connect(dd, sd)
        expect((e["created_db"], e["created_schema"], e["has_db"], e["has_schema"]) == (cd, cd and cs, cd, cd and cs), f"{fam} reverse {(cd, cs)}: {e}")
        # the requested schema exists in the database; nothing is created
        m = c14.Model((cd, cs, "memory", f"{fam}:database+decoy_schema"))
        e = m.connect(d, sd)
        expect((e["created_db"], e["created_schema"], e["has_db"], e["has_schema"]) == (F, F, T, T), f"{fam} exact {(cd, cs)}: {e}")
    for sqls in (c14.prior_sql(f"{fam}:decoy_database+database+decoy_schema"),):
        creates = [q for q in sqls if q.startswith("create table")]
        expect(len(creates) == 2 and all("varchar(" in q and "comment =" in q for q in creates), "decoy fixture tables have a sized VARCHAR and a comment")
expect(len(c14.DECOY_CONFIGS) == 2 * 4 * 4 * 3, "decoy configurations: families x levels x flags x storage")
expect(c14.decoy_successors("quick", (T, T, "memory", "underscore:nothing"), (("dx1", "sx1"),)) == (("d_1", "s_1"), ("d_1", "sx1"), ("dx1", "s_1"), ("dx1", "sx1")), "quick second step")
expect(c14.decoy_successors("quick", (T, T, "memory", "underscore:decoy_database"), (("dx1", "sx1"),)) == (), "quick: no second step from fixture priors")
expect(len(c14.decoy_successors("thorough", (T, T, "memory", "underscore:decoy_database"), (("dx1", "sx1"),))) == 6, "thorough second step")
# plain-name configurations keep their shapes (no look-alikes around)
expect(c14.shape(c14.Model((T, T, "previous", "database")), "db1", "s1") == "cd=T,cs=T,db=missing,schema=given", "plain shapes unchanged")

# ---------------------------------------------------------------------------------------------------------------------
# 3. oracles on synthetic observations
pre = {"OTHER": {"SO": {"KEEP": ["(1,)"]}, "S1": {}}, "DB1": {"S1": {"T0": ["(7,)"]}}}
exp = copy.deepcopy(pre)
expect(c14.cat_diff(pre, exp, copy.deepcopy(pre)) is None, "equal catalogs")
g = copy.deepcopy(pre)
g["DB1"]["S1"]["T0"] = []
expect(c14.cat_diff(pre, exp, g) == ("undisturbed", "rows_or_tables_changed"), "lost row")
g = copy.deepcopy(pre)
del g["OTHER"]["S1"]
expect(c14.cat_diff(pre, exp, g) == ("undisturbed", "schema_lost"), "lost schema")
g = copy.deepcopy(pre)
del g["OTHER"]
expect(c14.cat_diff(pre, exp, g) == ("undisturbed", "database_lost"), "lost database")
g = copy.deepcopy(pre)
g["DB2"] = {}
expect(c14.cat_diff(pre, exp, g) == ("creates_exactly", "database_not_allowed"), "extra database")
g = copy.deepcopy(pre)
g["DB1"]["S2"] = {}
expect(c14.cat_diff(pre, exp, g) == ("creates_exactly", "schema_not_allowed"), "extra schema")
g = copy.deepcopy(pre)
g["DB1"]["s1"] = {}
expect(c14.cat_diff(pre, exp, g) == ("creates_exactly", "schema_not_allowed"), "schema in the wrong letter case is a different object")
e2 = copy.deepcopy(pre)
e2["DB1"]["S2"] = {}
expect(c14.cat_diff(pre, e2, copy.deepcopy(pre)) == ("creates_exactly", "schema_not_created"), "schema not created")
e2 = copy.deepcopy(pre)
e2["DB3"] = {}
expect(c14.cat_diff(pre, e2, copy.deepcopy(pre)) == ("creates_exactly", "database_not_created"), "database not created")


class FakeConn:
    def __init__(self, database, schema):
        self.database, self.schema = database, schema

    def cursor(self):
        raise RuntimeError("no engine in the self-test")


class FakeLive:
    def __init__(self, cfg, hist):
        self.cfg = cfg
        self.m = c14.Model(cfg)
        self.sessions = [object()]
        self.prev_side = {"DB1": (("information_schema._fs_tables_ext", ("row",)),), "OLD": ()}
        for a in hist:
            self.m.connect(*a)
            self.sessions.append(FakeConn(a[0] and a[0].upper(), a[1] and a[1].upper()))


def obs_of(m, files=None, cwd=()):
    return {
        "cat": copy.deepcopy(m.cat),
        "sessions": [("OTHER", "SO", ("OTHER", "SO"))] + [(x["database"], x["schema"], ("memory", "main")) for x in m.sessions[1:]],
        "side": {d: (("information_schema._fs_tables_ext", ("row",)),) for d in m.cat},
        "files": tuple(sorted(f"{d}.db" for d in (m.disk or {}))) if files is None else files,
        "cwd": cwd,
        "hashes": (),
    }


def judged(cfg, hist, mutate=None, got=("ok",), conn=None):
    """Run judge_connect on a synthetic, correct observation of the last connect of hist, optionally damaged."""
    live = FakeLive(cfg, hist[:-1])
    pre_model = copy.deepcopy(live.m)
    pre = obs_of(pre_model)
    shp = c14.shape(pre_model, *hist[-1])
    e = live.m.connect(*hist[-1])
    live.sessions.append(conn or FakeConn(e["database"], e["schema"]))
    post = obs_of(live.m)
    if mutate:
        mutate(post)
    findings, members = [], []
    # reporters() needs an engine; a FakeConn raises inside -> ('<exc>', ...) which is only judged when objects exist
    e_nodemand = dict(e, has_db=False, has_schema=False)
    c14.judge_connect(cfg, hist, live, pre_model, pre, post, got, e_nodemand, shp, findings, members)
    return sorted({(c, k.split(",")[-1]) for c, k, _ in findings}), members


CFG = (T, T, "fresh", "database+schema")
expect(judged(CFG, [("db1", "s1")])[0] == [], f"correct observation passes: {judged(CFG, [('db1', 's1')])}")
expect(judged((T, T, "memory", "nothing"), [("db1", "s1")])[0] == [], "correct observation passes (memory)")
expect(judged(CFG, [("db1", "s1")], conn=FakeConn("db1", "S1"))[0] == [("C14.reports_names", "arg_case=lower")], "name not upper-cased")
expect(judged(CFG, [(None, "s1")], conn=FakeConn(None, None))[0] == [("C14.reports_names", "arg_case=lower")], "schema name dropped")
expect(
    judged(CFG, [("db1", "s1")], mutate=lambda p: p["sessions"].__setitem__(0, ("OTHER", "SO", ("DB1", "S1"))))[0] == [("C14.undisturbed", "engine_context")],
    "first session's engine context moved",
)
expect(
    judged(CFG, [("db1", "s1")], mutate=lambda p: p["sessions"].__setitem__(0, ("DB1", "SO", ("OTHER", "SO"))))[0] == [("C14.undisturbed", "reported_names")],
    "first session's reported names changed",
)
expect(judged(CFG, [("db1", "s1")], mutate=lambda p: p["cat"]["DB1"]["S1"].__setitem__("T0", []))[0] == [("C14.undisturbed", "rows_or_tables_changed")], "row lost")
expect(judged(CFG, [("db1", "s1")], mutate=lambda p: p.__setitem__("files", ("OTHER.db",)))[0] == [("C14.files", "file_missing")], "file missing")
expect(judged(CFG, [("db1", "s1")], mutate=lambda p: p.__setitem__("files", ("DB1.db", "OTHER.db", "X.db")))[0] == [("C14.files", "file_not_allowed")], "extra file")
expect(judged(CFG, [("db1", "s1")], mutate=lambda p: p.__setitem__("files", ("OTHER.db", "db1.db")))[0] == [("C14.files", "file_name_case")], "file name case")
expect(judged((T, T, "memory", "nothing"), [("db1", "s1")], mutate=lambda p: p.__setitem__("cwd", ("DB1.db",)))[0] == [("C14.files", "file_written")], "memory wrote a file")
expect(
    judged((T, F, "previous", "database+schema"), [("db1", "s1")], mutate=lambda p: p["cat"].__setitem__("DB1", {}))[0] == [("C14.files", "previous_contents_not_found")],
    "previous instance's data not found",
)
expect(judged((T, T, "memory", "nothing"), [("db1", "s1")], mutate=lambda p: p["cat"]["DB1"].pop("S1"))[0] == [("C14.creates_exactly", "schema_not_created")], "schema not created")
expect(judged((T, F, "memory", "nothing"), [("db1", "s1")], mutate=lambda p: p["cat"]["DB1"].__setitem__("S1", {}))[0] == [("C14.creates_exactly", "schema_not_allowed")], "schema created against the flag")
expect(judged((F, F, "memory", "nothing"), [("db1", None)], mutate=lambda p: p["cat"].__setitem__("DB1", {}))[0] == [("C14.creates_exactly", "database_not_allowed")], "database created against the flag")
expect(
    judged(CFG, [("db1", "s1")], mutate=lambda p: p["side"].__setitem__("OTHER", (("information_schema._fs_tables_ext", ()),)))[0] == [("C14.undisturbed", "stored_metadata")],
    "stored comments / lengths of a bystander database wiped",
)
expect(
    judged(CFG, [("db1", "s1")], mutate=lambda p: p["side"].__setitem__("DB1", (("information_schema._fs_columns_ext", ()),)))[0] == [("C14.undisturbed", "stored_metadata")],
    "stored comments / lengths of the database connected to wiped",
)
expect(
    judged((T, F, "previous", "database+schema"), [("db1", "s1")], mutate=lambda p: p["side"].__setitem__("DB1", (("information_schema._fs_tables_ext", ()),)))[0]
    == [("C14.undisturbed", "previous_instance_stored_metadata")],
    "a database attached from a previous instance's file lost its stored metadata",
)
expect(judged((T, F, "previous", "database+schema"), [("db1", "s1")])[0] == [], "previous instance's metadata intact passes")
f, mem = judged((F, T, "memory", "nothing"), [("db1", "s1")], got=("err", "duckdb.duckdb.BinderException", None, None, "x"))
expect(f == [("C14.no_raise", "exc=BinderException")] and mem == [("C14.no_raise", "cd=F,cs=T,db=missing,schema=given,exc=BinderException", True)], f"raise is reported and counted as member: {f} {mem}")
f, mem = judged((F, T, "memory", "nothing"), [("db1", "s1")])
expect(f == [] and mem == [("C14.no_raise", "cd=F,cs=T,db=missing,schema=given,exc=BinderException", False)], "a repaired tree passes in the quirk shape")

# probes oracle
live = FakeLive((T, T, "memory", "nothing"), [("db1", "s1")])
good = (("ok", (("OTHER", "SO"),), "ok", ("OTHER",)), ("ok", (("DB1", "S1"),), "ok", ("DB1",)))
fs_ = []
c14.judge_probes([("db1", "s1")], live, good, (good[0],), "shape", fs_)
expect(fs_ == [], f"correct probes pass: {fs_}")
for bad, cls in [
    (("e90106", (), "ok", ("DB1",)), "shape,first_create_table,want=ok,got=e90106"),
    (("e90105", (), "e90105", ()), "shape,first_create_table,want=ok,got=e90105"),
    (("ok", (("DB1", "main"),), "ok", ("DB1",)), "shape,first_create_table_landed,want=context,got=elsewhere"),
    (("ok", (("DB1", "S1"),), "ok", ("OTHER",)), "shape,first_create_schema_landed,want=context,got=elsewhere"),
    (("err:ProgrammingError:2003", (), "ok", ("DB1",)), "shape,first_create_table,want=ok,got=other_error"),
]:
    fs_ = []
    c14.judge_probes([("db1", "s1")], live, (good[0], bad), (good[0],), "shape", fs_)
    expect([(c, k) for c, k, _ in fs_] == [("C14.context", cls)], f"bad probe {bad}: {[(c, k) for c, k, _ in fs_]}")
fs_ = []
c14.judge_probes([("db1", "s1")], live, (("ok", (("DB1", "S1"),), "ok", ("OTHER",)), good[1]), (good[0],), "shape", fs_)
expect([(c, k) for c, k, _ in fs_] == [("C14.undisturbed", "shape,session=first,first_unqualified_statements")], f"first session disturbed: {fs_}")
live = FakeLive((F, F, "memory", "nothing"), [("db1", "s1")])
fs_ = []
c14.judge_probes([("db1", "s1")], live, (good[0], ("ok", (("DB1", "S1"),), "ok", ("DB1",))), (good[0],), "shape", fs_)
expect([(c, k) for c, k, _ in fs_] == [("C14.context", "shape,first_create_table,want=e90105,got=ok")], f"context although the database does not exist: {fs_}")

# ---------------------------------------------------------------------------------------------------------------------
# 5. statement steps between connects: the prior state of the next connect is the catalog as it is then
m = c14.Model((T, T, "fresh", "nothing"))
e = m.connect("db1", "s1")
expect(e["created_schema"] and m.enabled_statements() == ("drop_schema_q", "drop_schema_u"), f"after connect(db1,s1): {m.enabled_statements()}")
m.adopt({"OTHER": m.cat["OTHER"], "DB1": {}})  # DROP SCHEMA db1.s1 happened
expect(m.cat["DB1"] == {} and m.disk["DB1"] is m.cat["DB1"], "adopt works in place (disk and catalog stay one object)")
expect(m.enabled_statements() == ("create_schema_q", "create_schema_u"), f"after the drop: {m.enabled_statements()}")
expect(c14.shape(m, "DB1", "S1") == "cd=T,cs=T,db=exists,schema=missing", "the dropped schema is missing for the next connect")
e = m.connect("DB1", "S1")
expect((e["created_db"], e["created_schema"], e["has_db"], e["has_schema"]) == (F, T, T, T), f"a dropped schema is created again by the next connect: {e}")
m = c14.Model((T, F, "memory", "database+schema"))
m.connect("db1", "s1")
m.adopt({"OTHER": m.cat["OTHER"], "DB1": {}})
e = m.connect("db1", "s1")
expect((e["created_schema"], e["has_db"], e["has_schema"]) == (F, T, F), f"create_schema_on_connect=False: the dropped schema stays away: {e}")
expect(m.expected_probe(len(m.sessions) - 1)[0] == "e90106", "and the session has no current schema")
m = c14.Model((T, T, "memory", "database+schema"))
expect(m.enabled_statements() == ("drop_schema_q", "drop_table_q"), f"no later session yet: only qualified statements: {m.enabled_statements()}")
m.connect("db1", None)
expect(m.enabled_statements() == ("drop_schema_q", "drop_table_q", "drop_schema_u"), f"database-only session cannot drop an unqualified table: {m.enabled_statements()}")
m.connect("db1", "s1")
expect(set(m.enabled_statements()) == {"drop_schema_q", "drop_table_q", "drop_schema_u", "drop_table_u"}, "session on DB1.S1 can do all drops")
m = c14.Model((F, F, "memory", "nothing"))
m.connect("db1", "s1")
expect(m.enabled_statements() == (), "no DB1: nothing to do")
try:
    m.adopt({"OTHER": {}})
    m.adopt({"OTHER": {}, "DBX": {}})
    expect(False, "a statement step that changes the set of databases is a harness error")
except c14.core.HarnessError:
    pass
# plan: a statement is always followed by a connect, never by a statement
q = c14.PLAN["quick"]
expect(c14.successors(q[1], (("db1", "s1"),), ("drop_schema_q",)) == c14.CANON_ARGS + (("$", "drop_schema_q"),), "step 2 of quick")
expect(c14.successors(q[2], (("db1", "s1"), ("$", "drop_schema_q")), ("create_schema_q",)) == c14.AFTER_STATEMENT_QUICK, "step 3 after a statement")
expect(c14.successors(q[2], (("db1", "s1"), ("db1", None)), ("drop_schema_q",)) == (), "quick: no third step after two connects")
t3 = c14.PLAN["thorough"][2]
expect(c14.successors(t3, (("db1", "s1"), ("$", "drop_schema_q")), ()) == c14.CANON_ARGS and c14.successors(t3, (("db1", "s1"), ("db1", None)), ("drop_schema_q",)) == c14.CANON_ARGS, "thorough step 3")
# differential 'undisturbed' oracle: a session whose schema was dropped and is created again by this connect is exempt
live = FakeLive((T, T, "memory", "nothing"), [("db1", "s1"), ("DB1", "S1")])
exp_ = {"database": "DB1", "schema": "S1", "created_db": F, "created_schema": T}
rep_ = [("OTHER", "SO", ("OTHER", "SO")), ("DB1", "S1", ("DB1", "S1")), ("DB1", "S1", ("DB1", "S1"))]
s0ok = ("ok", (("OTHER", "SO"),), "ok", ("OTHER",))
lost = ("err:ProgrammingError:2003", (), "ok", ("DB1",))
back = ("ok", (("DB1", "S1"),), "ok", ("DB1",))
fs_ = []
c14.judge_probes([("db1", "s1"), ("$", "drop_schema_q"), ("DB1", "S1")], live, (s0ok, back, back), (s0ok, lost), "shape", fs_, exp_, rep_)
expect(fs_ == [], f"re-created schema found again by the earlier session is no disturbance: {fs_}")
fs_ = []
c14.judge_probes([("db1", "s1"), ("$", "drop_schema_q"), ("DB1", "S1")], live, (lost, back, back), (s0ok, lost), "shape", fs_, exp_, rep_)
expect([(c, k) for c, k, _ in fs_] == [("C14.undisturbed", "shape,session=first,first_unqualified_statements")], f"first session is not exempt: {fs_}")
fs_ = []
c14.judge_probes([("db1", "s1"), ("db1", "s1")], live, (s0ok, lost, back), (s0ok, back), "shape", fs_, dict(exp_, created_schema=F), rep_)
expect([(c, k) for c, k, _ in fs_] == [("C14.undisturbed", "shape,session=earlier,first_unqualified_statements")], f"nothing created -> earlier session must behave as before: {fs_}")

# 6. the stored-metadata window: bookkeeping tables (prefix _fs_) per database, the global database left out
raw_ = {
    "tables": (("DB1", "S1", "T0", "sql"), ("DB1", "information_schema", "_fs_tables_ext", "sql"), ("_fs_global", "main", "_fs_users_ext", "sql")),
    "data": (("DB1.S1.T0", ("(7, 'seven')",)), ("DB1.information_schema._fs_tables_ext", ("('DB1', 'S1', 'T0', 'prior table')",)), ("_fs_global.main._fs_users_ext", ())),
}
expect(c14.stored_metadata(raw_) == {"DB1": (("information_schema._fs_tables_ext", ("('DB1', 'S1', 'T0', 'prior table')",)),)}, f"stored_metadata: {c14.stored_metadata(raw_)}")
# Snowflake: VARCHAR(20) -> CHARACTER_MAXIMUM_LENGTH 20 and DESCRIBE type VARCHAR(20); INT -> NUMBER(38,0), no length
expect(dict(c14.T0_REPORTED["character_maximum_length"]) == {"V": 20, "X": None}, "hand-written lengths")
expect(dict(c14.T0_REPORTED["describe"]) == {"X": "NUMBER(38,0)", "V": "VARCHAR(20)"}, "hand-written DESCRIBE types")
expect("varchar(20)" in " ".join(c14.PRIOR_SQL["database+schema"]) and "comment = 'prior table'" in " ".join(c14.PRIOR_SQL["database+schema"]), "fixture matches the hand-written values")
for sqls in (c14.BYSTANDER_SQL, c14.OLD_SQL, c14.PRIOR_SQL["database"], c14.PRIOR_SQL["database+schema"]):
    creates = [q for q in sqls if q.startswith("create table")]
    expect(creates and all("varchar(" in q and "comment =" in q for q in creates), f"every fixture table has a sized VARCHAR and a comment: {creates}")

print(f"{len(ROWS)} hand-written rows, {n} literal-table cells, oracle cases; failures: {len(FAILS)}")
sys.exit(1 if FAILS else 0)
