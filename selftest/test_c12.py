#!/venv/bin/python
"""Self-test of the C12 reference model (mc/ref/merge_ref.py) and of the check's alphabets (checks/c12.py).

Expectations are written by hand from the Snowflake documentation of MERGE
(https://docs.snowflake.com/en/sql-reference/sql/merge) and from SQL three-valued logic; nothing here runs fakesnow.
Run: /venv/bin/python selftest/test_c12.py   (exit 0 = all passed)
"""
from __future__ import annotations

import os
import sys

sys.path.insert(0, os.path.dirname(os.path.dirname(os.path.abspath(__file__))))

from checks import c12  # noqa: E402
from mc.ref import merge_ref as M  # noqa: E402

FAILS = []


def check(name, got, want):
    if got != want:
        FAILS.append(name)
        print(f"FAIL {name}\n   got : {got!r}\n   want: {want!r}")
    else:
        print(f"ok   {name}")


def ms(rows):
    return sorted(rows, key=repr)


T, S = ("k", "v"), ("k", "v", "f")
ON = ("cmp", ("t", "k"), "=", ("s", "k"))
SF1 = ("cmp", ("s", "f"), "=", ("lit", 1))
UPD = ("update", None, (("v", ("s", "v")),))
INS = ("insert", None, ("k", "v"), (("s", "k"), ("s", "v")))
DEL = ("delete", None)


def run(trows, srows, clauses, tcols=T, scols=S, on=ON, **kw):
    r = M.merge(trows, srows, tcols, scols, on, clauses, **kw)
    return ms(r["rows"]), r["counts"]


# ---- 1. the documentation's "mix of operations" example (t1/t2), also the repo's own test data -----------------------
T1 = ("t1key", "val", "status")
T2 = ("t2key", "newval", "newstatus", "isnewstatus", "marked")
t1 = [(1, "Old Value 1", "Old Status 1"), (2, "Old Value 2", "Old Status 2"), (3, "Old Value 3", "Old Status 3"), (4, "Old Value 4", "Old Status 4")]
t2 = [(1, "New Value 1", "New Status 1", 1, 0), (2, "New Value 2", "New Status 2", 0, 1), (3, "New Value 3", "New Status 3", 0, 0), (5, "New Value 5", "New Status 5", 0, 0)]
doc_clauses = (
    ("delete", ("cmp", ("s", "marked"), "=", ("lit", 1))),
    ("update", ("cmp", ("s", "isnewstatus"), "=", ("lit", 1)), (("val", ("s", "newval")), ("status", ("s", "newstatus")))),
    ("update", None, (("val", ("s", "newval")),)),
    ("insert", None, ("t1key", "val", "status"), (("s", "t2key"), ("s", "newval"), ("s", "newstatus"))),
)
rows, counts = run(t1, t2, doc_clauses, T1, T2, ("cmp", ("t", "t1key"), "=", ("s", "t2key")))
check(
    "doc example: rows",
    rows,
    ms([(1, "New Value 1", "New Status 1"), (3, "New Value 3", "Old Status 3"), (4, "Old Value 4", "Old Status 4"), (5, "New Value 5", "New Status 5")]),
)
check("doc example: counts", counts, {"delete": 1, "update": 2, "insert": 1})

# ---- 2. basic shapes ----------------------------------------------------------------------------------------------------
check("update only matched rows", run([(1, "a"), (2, "b")], [(1, "A", 0), (3, "C", 0)], (UPD,)), (ms([(1, "A"), (2, "b")]), {"update": 1}))
check("delete only matched rows", run([(1, "a"), (2, "b")], [(1, "A", 0), (3, "C", 0)], (DEL,)), (ms([(2, "b")]), {"delete": 1}))
check("insert only unmatched source rows", run([(1, "a"), (2, "b")], [(1, "A", 0), (3, "C", 0)], (INS,)), (ms([(1, "a"), (2, "b"), (3, "C")]), {"insert": 1}))
check("empty target: everything inserted", run([], [(1, "A", 0), (2, "B", 0)], (UPD, INS)), (ms([(1, "A"), (2, "B")]), {"update": 0, "insert": 2}))
check("empty source: nothing happens, counts are 0", run([(1, "a")], [], (DEL, INS)), ([(1, "a")], {"delete": 0, "insert": 0}))
check("both empty", run([], [], (("update", SF1, (("v", ("s", "v")),)), DEL, INS)), ([], {"update": 0, "delete": 0, "insert": 0}))
check("counts only for the kinds present", run([(1, "a")], [(1, "A", 0)], (UPD,))[1], {"update": 1})

# ---- 3. NULL keys: `=` with NULL is not TRUE -> never matched ---------------------------------------------------------------
check(
    "NULL keys never join; NULL-key source row is inserted; NULL-key target row stays",
    run([(None, "n"), (1, "a")], [(None, "N", 0), (1, "A", 0)], (UPD, INS)),
    (ms([(None, "n"), (1, "A"), (None, "N")]), {"update": 1, "insert": 1}),
)
check(
    "only NULL keys + DELETE: nothing deleted",
    run([(None, "n"), (None, "m")], [(None, "N", 0)], (DEL,)),
    (ms([(None, "n"), (None, "m")]), {"delete": 0}),
)

# ---- 4. several target rows per key (deterministic: each joins ONE source row) -------------------------------------------
check(
    "duplicate target keys: every joined row is updated and counted",
    run([(1, "a"), (1, "b"), (2, "c")], [(1, "A", 0)], (UPD, INS)),
    (ms([(1, "A"), (1, "A"), (2, "c")]), {"update": 2, "insert": 0}),
)
TV_A = ("cmp", ("t", "v"), "=", ("lit", "a"))
check(
    "duplicate target keys, condition on the target column: clause chosen per ROW",
    run([(1, "a"), (1, "b")], [(1, "A", 0)], (("delete", TV_A), UPD)),
    (ms([(1, "A")]), {"delete": 1, "update": 1}),
)
check(
    "duplicate target keys, row for which no clause applies is untouched",
    run([(1, "a"), (1, "b")], [(1, "A", 0)], (("update", TV_A, (("v", ("lit", "u")),)),)),
    (ms([(1, "u"), (1, "b")]), {"update": 1}),
)
try:
    M.merge([(0, 10)], [(0, 11, 0), (0, 12, 0), (0, 13, 0)], T, S, ON, (UPD,))
    check("documentation's nondeterministic example is refused", "returned", "NonDeterministic")
except M.NonDeterministic:
    check("documentation's nondeterministic example is refused", "NonDeterministic", "NonDeterministic")

# ---- 5. first applicable clause, three-valued conditions ---------------------------------------------------------------------
c_first = (("delete", SF1), UPD)
check("first applicable clause wins (f=1 -> DELETE, else UPDATE)", run([(1, "a"), (2, "b")], [(1, "A", 1), (2, "B", 0)], c_first), (ms([(2, "B")]), {"delete": 1, "update": 1}))
check("condition NULL is not TRUE: falls through to the next clause", run([(1, "a")], [(1, "A", None)], c_first), ([(1, "A")], {"delete": 0, "update": 1}))
check("condition NULL and no further clause: untouched", run([(1, "a")], [(1, "A", None)], (("delete", SF1),)), ([(1, "a")], {"delete": 0}))
check(
    "NOT of NULL stays NULL",
    run([(1, "a")], [(1, "A", None)], (("delete", ("not", SF1)),)),
    ([(1, "a")], {"delete": 0}),
)
check(
    "NULL OR TRUE is TRUE; NULL OR FALSE is NULL",
    [
        M.ev(("or", SF1, TV_A), (1, "a"), (1, "A", None), T, S),
        M.ev(("or", SF1, TV_A), (1, "b"), (1, "A", None), T, S),
        M.ev(("and", SF1, TV_A), (1, "b"), (1, "A", None), T, S),
        M.ev(("and", SF1, TV_A), (1, "a"), (1, "A", None), T, S),
    ],
    [True, None, False, None],
)
check(
    "NOT MATCHED AND cond: only source rows whose condition is TRUE are inserted (NULL is not)",
    run([(1, "a")], [(1, "A", 1), (2, "B", 1), (3, "C", 0), (4, "D", None)], (("insert", SF1, ("k", "v"), (("s", "k"), ("s", "v"))),)),
    (ms([(1, "a"), (2, "B")]), {"insert": 1}),
)
check(
    "two NOT MATCHED clauses: first applicable one",
    run([], [(2, "B", 1), (3, "C", 0)], (("insert", SF1, ("k", "v"), (("s", "k"), ("lit", "first"))), INS)),
    (ms([(2, "first"), (3, "C")]), {"insert": 2}),
)
check(
    "clauses of different kinds are independent of their relative order",
    run([(1, "a")], [(1, "A", 0), (2, "B", 0)], (INS, UPD)),
    run([(1, "a")], [(1, "A", 0), (2, "B", 0)], (UPD, INS)),
)

# ---- 6. SET / VALUES ------------------------------------------------------------------------------------------------------------
check(
    "SET expressions see the old target row (v = s.v || t.v, k = 2)",
    run([(1, "a")], [(1, "A", 0)], (("update", None, (("v", ("concat", ("s", "v"), ("t", "v"))), ("k", ("lit", 2)))),)),
    ([(2, "Aa")], {"update": 1}),
)
check(
    "|| with NULL is NULL; SET v = NULL",
    [
        run([(1, None)], [(1, "A", 0)], (("update", None, (("v", ("concat", ("s", "v"), ("t", "v"))),)),))[0],
        run([(1, "a")], [(1, "A", 0)], (("update", None, (("v", ("lit", None)),)),))[0],
    ],
    [[(1, None)], [(1, None)]],
)
check("INSERT without column list", run([], [(3, "C", 0)], (("insert", None, None, (("s", "k"), ("s", "v"))),))[0], [(3, "C")])
check("INSERT with a column subset: the rest is NULL", run([], [(3, "C", 0)], (("insert", None, ("k",), (("s", "k"),)),))[0], [(3, None)])
check("INSERT with reordered columns", run([], [(3, "C", 0)], (("insert", None, ("v", "k"), (("s", "v"), ("s", "k"))),))[0], [(3, "C")])
check("INSERT expression / literal", run([], [(3, "C", 0)], (("insert", None, ("k", "v"), (("add", ("s", "k"), ("lit", 10)), ("lit", "lit"))),))[0], [(13, "lit")])

# ---- 7. clause-list validity (an unconditional clause must be the last of its kind) --------------------------------------------
check("MATCHED without AND followed by another MATCHED is invalid", M.valid_clause_list((UPD, ("delete", SF1))), False)
check("NOT MATCHED without AND followed by another NOT MATCHED is invalid", M.valid_clause_list((INS, ("insert", SF1, None, (("s", "k"), ("s", "v"))))), False)
check("conditional then unconditional is valid; kinds may interleave", M.valid_clause_list((("delete", SF1), INS, UPD)), True)
check("NOT MATCHED clause may not look at the target", M.valid_clause_list((("insert", TV_A, None, (("s", "k"), ("s", "v"))),)), False)

# ---- 8. NOT NULL column: the statement fails as a whole ----------------------------------------------------------------------------
T3 = ("k", "v", "w")
r = M.merge([(1, "a", "w0")], [(1, "A", 0), (2, "B", 0)], T3, S, ON, (UPD, INS), not_null=("w",))
check("NOT NULL violated by the INSERT: error, nothing changes", (r["error"], r["rows"]), (True, [(1, "a", "w0")]))
check("... and the failing clause is the INSERT (index 1), the UPDATE before it would have affected a row", (M.first_failing_clause([(1, "a", "w0")], [(1, "A", 0), (2, "B", 0)], T3, S, ON, (UPD, INS), ("w",)), r["per_clause"]), (1, [1, 1]))
r = M.merge([(1, "a", "w0")], [(1, "A", 0)], T3, S, ON, (UPD, INS), not_null=("w",))
check("no row to insert -> no violation", (r["error"], r["rows"], r["counts"]), (False, [(1, "A", "w0")], {"update": 1, "insert": 0}))

# ---- 9. the alternative semantics used for labelling (NOT the reference) ------------------------------------------------------------
for name, tr, sr, cl in [
    ("unique keys", [(1, "a"), (2, "b"), (None, "c")], [(1, "A", 1), (2, "B", 0), (3, "C", 0)], (("delete", SF1), UPD, INS)),
    ("duplicates but source-only conditions", [(1, "a"), (1, "b")], [(1, "A", 1)], (("delete", SF1), UPD)),
]:
    check(f"clausewise rejoin == reference: {name}", ms(M.merge_clausewise_rejoin(tr, sr, T, S, ON, cl)), run(tr, sr, cl)[0])
check(
    "clausewise rejoin on duplicates with a target condition: DELETE statement takes both rows of key 1",
    ms(M.merge_clausewise_rejoin([(1, "a"), (1, "b")], [(1, "A", 0)], T, S, ON, (("delete", TV_A), UPD))),
    [],
)
check(
    "clausewise rejoin when UPDATE moves a row onto a key that a later DELETE clause owns",
    ms(M.merge_clausewise_rejoin([(1, "a"), (2, "b")], [(1, "A", 1), (2, "B", 0)], T, S, ON, (("update", SF1, (("k", ("lit", 2)),)), DEL))),
    [],
)
check(
    "... where the reference keeps the moved row",
    run([(1, "a"), (2, "b")], [(1, "A", 1), (2, "B", 0)], (("update", SF1, (("k", ("lit", 2)),)), DEL)),
    ([(2, "a")], {"update": 1, "delete": 1}),
)

# ---- 10. rendering ---------------------------------------------------------------------------------------------------------------------
spec = (("D", "src"), ("U", None, "src"), ("I", None, "cols"))
check(
    "render plain",
    c12.render(spec, "plain"),
    "MERGE INTO t USING s ON t.k = s.k WHEN MATCHED AND s.f = 1 THEN DELETE WHEN MATCHED THEN UPDATE SET v = s.v "
    "WHEN NOT MATCHED THEN INSERT (k, v) VALUES (s.k, s.v)",
)
check(
    "render lower",
    c12.render(spec, "lower"),
    "merge into t using s on t.k = s.k when matched and s.f = 1 then delete when matched then update set v = s.v "
    "when not matched then insert (k, v) values (s.k, s.v)",
)
check(
    "render aliases + qualified SET column",
    c12.render((("U", "both", "lit"),), "subq_alias_tgt"),
    "MERGE INTO t AS tgt USING (SELECT k, v, f FROM s) AS src ON tgt.k = src.k "
    "WHEN MATCHED AND (src.f = 1 OR tgt.v = 'b') THEN UPDATE SET tgt.v = 'u'",
)
check(
    "render fully qualified names on table t3",
    c12.render((("U", None, "w_null"),), "db_q_full", "t3"),
    "MERGE INTO db1.s1.t3 USING db1.s1.s ON db1.s1.t3.k = db1.s1.s.k WHEN MATCHED THEN UPDATE SET w = NULL",
)
check(
    "render filtered subquery (lower-case literals are kept)",
    c12.render((("I", "src", "lit"),), "subq_filter"),
    "MERGE INTO t USING (SELECT k, v, f FROM s WHERE f = 1) AS src ON t.k = src.k "
    "WHEN NOT MATCHED AND src.f = 1 THEN INSERT (k, v) VALUES (src.k, 'lit')",
)
check("render title case", c12.render((("D", None),), "title"), "Merge Into t Using s On t.k = s.k When Matched Then Delete")
check("render reversed ON", c12.render((("D", None),), "on_rev"), "MERGE INTO t USING s ON s.k = t.k WHEN MATCHED THEN DELETE")

# ---- 11. the check's alphabets ------------------------------------------------------------------------------------------------------------
check("20 target key multisets, 15 source key sets, 122 kind lists", (len(c12.ALL_TARGETS), len(c12.ALL_SOURCES), len(c12.KIND_LISTS)), (20, 15, 122))
check("every generated clause list is a valid Snowflake MERGE", all(M.valid_clause_list(c12.clauses_ast(s)) for s in c12.lists_injective() + c12.lists_rotating()), True)
check("injective lists carry pairwise different conditions", all(len({c[1] for c in s if c[0] in "UD" and c[1]}) == sum(1 for c in s if c[0] in "UD" and c[1]) for s in c12.lists_injective()), True)
check("source keys are distinct in every source set (=> deterministic)", all(len({r[0] for r in c12.source_rows(sk)}) == len(sk) for sk in c12.ALL_SOURCES), True)
ok = True
for tier in ("quick",):
    for sc, tk, sk, steps in c12.enumerate_cases(tier):
        for spec_, sp in steps:
            if not M.valid_clause_list(c12.clauses_ast(spec_)) or sp not in c12.SPELLINGS:
                ok = False
check("quick tier cases are well-formed", ok, True)
check("target rows by position", c12.target_rows((0, 0, 2), three=True), [(1, "a", "w0"), (1, "b", "w1"), (None, None, "w2")])
check("condition 'both' on (k=2, v NULL) with f=0 is NULL", M.ev(c12.CONDS["both"], (2, None), (2, "S2", 0), T, S), None)
check(
    "input shapes known to be outside what the implementation accepts",
    [
        c12.shape_cause((("D", None),), "lower"),
        c12.shape_cause((("U", None, "src"),), "lower"),
        c12.shape_cause((("U", None, "src"),), "alias_src"),
        c12.shape_cause((("U", None, "src"),), "db_q_src"),
        c12.shape_cause((("U", None, "src"),), "alias_tgt"),
        c12.shape_cause((("I", None, "cols"),), "alias_tgt"),
        c12.shape_cause((("U", None, "src"),), "subq"),
        c12.shape_cause((("D", None), ("U", "src", "expr_both")), "plain"),
        c12.shape_cause((("U", None, "expr_both"), ("I", None, "cols")), "plain"),
        c12.shape_cause((("U", None, "expr_tgt"),), "plain"),
        c12.shape_cause((("I", None, "expr_k"),), "plain"),
    ],
    [
        ("kw=delete_not_uppercase", "rejected"),
        None,
        ("name=source_table_alias", "rejected"),
        ("name=source_table_qualified", "rejected"),
        None,
        ("name=target_alias,clause=not_matched", "rejected"),
        None,
        ("expr=source_column_only_inside_expression", ("clause", 1)),
        None,
        None,
        None,
    ],
)


# ---- 12. conditions `a OR b` written without parentheses: WHEN MATCHED AND a OR b  ==  matched AND (a OR b) ---------------------
BOR = ("bare_or", SF1, ("cmp", ("t", "v"), "=", ("lit", "b")))
check(
    "bare OR is an ordinary OR for the reference; an unjoined target row with v='b' is NOT deleted nor counted",
    run([(1, "a"), (2, "b"), (5, "b")], [(1, "S1", 1), (2, "S2", 0), (3, "S3", 1)], (("delete", BOR),)),
    ([(5, "b")], {"delete": 2}),
)
check("bare OR renders without parentheses", M.sql_expr(BOR, "t", "s"), "s.f = 1 OR t.v = 'b'")
check("... the ordinary OR with", M.sql_expr(("or",) + BOR[1:], "t", "s"), "(s.f = 1 OR t.v = 'b')")
check(
    "render of a bare-OR clause",
    c12.render((("D", "bor_t"), ("I", None, "cols")), "plain"),
    "MERGE INTO t USING s ON t.k = s.k WHEN MATCHED AND s.f = 1 OR t.v = 'b' THEN DELETE "
    "WHEN NOT MATCHED THEN INSERT (k, v) VALUES (s.k, s.v)",
)
ast = c12.clauses_ast((("D", "bor_t"),))
check("leak predicate: unjoined target row satisfying the right operand -> counts differ, rows do not", c12.bare_or_leak([(1, "a"), (5, "b")], [(1, "S1", 1)], T, ast), (True, False))
check("leak predicate: no such row -> readings agree", c12.bare_or_leak([(1, "a"), (5, "a")], [(1, "S1", 1)], T, ast), (False, False))
ast = c12.clauses_ast((("D", "bor_s"), ("I", None, "cols")))
check("leak predicate: unjoined source row with f=1 claimed by the earlier MATCHED clause -> not inserted", c12.bare_or_leak([(1, "a")], [(3, "S3", 1)], T, ast), (True, True))
check("... f NULL: not claimed", c12.bare_or_leak([(1, "a")], [(3, "S3", None)], T, ast), (False, False))
ast = c12.clauses_ast((("I", None, "cols"), ("D", "bor_s")))
check("... NOT MATCHED clause first: it keeps the row", c12.bare_or_leak([(1, "a")], [(3, "S3", 1)], T, ast), (False, False))
ast = c12.clauses_ast((("I", "bor_n", "cols"),))
check("leak predicate: joined pair with s.k = 2 claimed by the NOT MATCHED clause", c12.bare_or_leak([(2, "b")], [(2, "S2", 1)], T, ast), (True, True))
check("every bare-OR list is valid and has exactly one such clause", all(M.valid_clause_list(c12.clauses_ast(x)) and sum(1 for c in x if c[1] and c[1].startswith("bor_")) == 1 for x in c12.BARE_OR_LISTS), True)

# ---- 13. placement: tables outside the session's current schema (db1.s1), decoys in it -------------------------------------------
check(
    "render: target in another schema, schema-qualified",
    c12.render((("U", None, "src"), ("I", None, "cols")), "x_schema_tgt"),
    "MERGE INTO s2.t USING s ON t.k = s.k WHEN MATCHED THEN UPDATE SET v = s.v WHEN NOT MATCHED THEN INSERT (k, v) VALUES (s.k, s.v)",
)
check(
    "render: target in another database (alias), source in another schema (alias)",
    c12.render((("D", None), ("I", None, "cols")), "x_db_both_alias"),
    "MERGE INTO db2.s2.t AS tgt USING s2.s AS src ON tgt.k = src.k WHEN MATCHED THEN DELETE "
    "WHEN NOT MATCHED THEN INSERT (k, v) VALUES (src.k, src.v)",
)
ok = True
for sp, (tloc, sloc) in c12.PLACEMENT.items():
    tgt, _tq, src = c12.SPELLINGS[sp][0], c12.SPELLINGS[sp][1], c12.SPELLINGS[sp][2]
    # the name written in the statement resolves, from db1.s1, to the placement: full name, or schema name within db1
    def resolves(text, loc):
        q = ".".join(text.split(" ")[0].split(".")[:-1])  # first word without its last component ({T} / s)
        if loc == c12.HOME:
            return q in ("", "s1", "db1.s1")
        return q == loc or (loc.startswith("db1.") and q == loc.split(".")[1])
    src_name = src[src.index("FROM}") + 6 :].split(")")[0] if src.startswith("(") else src
    if not resolves(tgt, tloc) or not resolves(src_name, sloc) or (tloc, sloc) == (c12.HOME, c12.HOME):
        ok = False
        print("   placement mismatch:", sp, tgt, tloc, src_name, sloc)
check("every placement spelling names its tables where the harness puts them, and none is entirely in the current schema", ok, True)
check("spellings without a placement entry live in the current schema", c12.placement("db_q_full"), ("db1.s1", "db1.s1"))
check("decoy contents differ from every generated target / source content", (set(c12.DECOY_T) & {r for tk in c12.ALL_TARGETS for r in c12.target_rows(tk)}, set(c12.DECOY_S) & set(c12.SRC.values())), (set(), set()))
check("quick tier contains placements of target-only, source-only and both, by schema and by database", {c12.placement(sp) for sp in c12.QUICK_SPELLINGS} >= {("db1.s2", "db1.s1"), ("db2.s2", "db1.s1"), ("db2.s1", "db1.s1"), ("db1.s1", "db1.s2"), ("db1.s1", "db2.s2"), ("db2.s2", "db1.s2")}, True)

# ---- 14. statically invalid INSERT clause; session histories -----------------------------------------------------------------------
BAD = ("insert", None, ("k", "v"), (("s", "k"),))
r = M.merge([(1, "a"), (2, "b")], [(1, "A", 0), (3, "C", 0)], T, S, ON, (UPD, BAD))
check("INSERT (k, v) VALUES (s.k): the statement is rejected as a whole, whatever the data", (r["error"], r["rows"], r["static_error"]), (True, [(1, "a"), (2, "b")], 1))
check("... the UPDATE before it would have had a row to update (so a partial effect is possible)", r["per_clause"], [1, 1])
check("... also when no source row is unmatched", M.merge([(1, "a")], [(1, "A", 0)], T, S, ON, (UPD, BAD))["error"], True)
check("... first_failing_clause is the INSERT", M.first_failing_clause([(1, "a")], [(1, "A", 0)], T, S, ON, (UPD, BAD), ()), 1)
check("matching column / value counts are fine", M.static_error((UPD, INS)), None)
check(
    "render of the statically invalid list",
    c12.render(c12.STATIC_FAIL_LISTS[0], "plain"),
    "MERGE INTO t USING s ON t.k = s.k WHEN MATCHED THEN UPDATE SET v = s.v WHEN NOT MATCHED THEN INSERT (k, v) VALUES (s.k)",
)
check("every static-fail list is a valid clause list whose LAST clause is the offending one", all(M.valid_clause_list(c12.clauses_ast(x)) and M.static_error(c12.clauses_ast(x)) == len(x) - 1 for x in c12.STATIC_FAIL_LISTS), True)
hq = [c for c in c12.enumerate_cases("quick") if c[0].startswith("hist:")]
check("quick tier: every history x both cursors x {NOT NULL failure, static failure, success}", len({c[0] for c in hq}), len(c12.HISTORIES) * 2 * 2)
check("... 10 histories", len(c12.HISTORIES), 10)
check("the NOT NULL failing MERGE of the history cases fails in its 2nd clause after a 1st clause with work", (lambda r: (r["error"], r["per_clause"][0] > 0))(M.merge(c12.target_rows((0, 1, 2), True), c12.source_rows((0, 1, 2)), ("k", "v", "w"), S, ON, c12.clauses_ast(c12.NOTNULL_LISTS[0]), not_null=("w",))), (True, True))

# ---- 15. spelling of the source name at its declaration x at the references -------------------------------------------------
# Snowflake identifier rules (https://docs.snowflake.com/en/sql-reference/identifiers-syntax): an unquoted identifier is
# stored and resolved in upper case; a quoted one keeps its case. Written here independently of c12.NAME_FORMS:
def denotes(text):
    return text[1:-1] if text.startswith('"') else text.upper()


check("src, SRC and \"SRC\" denote one identifier; \"src\" another", (denotes("src"), denotes("SRC"), denotes('"SRC"'), denotes('"src"')), ("SRC", "SRC", "SRC", "src"))
ok = True
for sp, (kind, d, r) in c12.SRCNAME.items():
    _tgt, _tq, src, sq, _kw, _setq, _rev, _flt = c12.SPELLINGS[sp]
    declared = src.split(" ")[-1].split(".")[-1]  # the last word after USING: the alias, or the (qualified) table name
    if denotes(declared) != denotes(sq):
        ok = False
        print("   not the same identifier:", sp, declared, sq)
    if kind.startswith("table") and denotes(declared) != "S":
        ok = False
        print("   not the stored table S:", sp, declared)
check("every source-name spelling declares and references the SAME identifier (a table source always the stored S)", ok, True)
check("3 x 3 forms for the 2 table declarations, 3 x 3 + quoted lower-case for the 3 alias declarations", len(c12.SRCNAME), 2 * 9 + 3 * 10)
check("no spelling mixes a quoted lower-case name with another form", [sp for sp, (_k, d, r) in c12.SRCNAME.items() if (d == "quoted_lower") != (r == "quoted_lower")], [])
check(
    "render: table declared in lower case, referenced quoted; only the ON condition uses the source",
    c12.render((("D", None),), "sn:table:lower:quoted_upper"),
    'MERGE INTO t USING s ON t.k = "S".k WHEN MATCHED THEN DELETE',
)
check(
    "render: alias declared quoted, referenced in lower case inside expressions",
    c12.render((("D", None), ("I", None, "expr_v")), "sn:alias:quoted_upper:lower"),
    "MERGE INTO t USING s AS \"SRC\" ON t.k = src.k WHEN MATCHED THEN DELETE WHEN NOT MATCHED THEN INSERT (k, v) VALUES (src.k, src.v || 'x')",
)
check(
    "render: subquery alias in upper case, referenced quoted in a WHEN condition",
    c12.render((("D", "src"),), "sn:subq_alias:upper:quoted_upper"),
    'MERGE INTO t USING (SELECT k, v, f FROM s) AS SRC ON t.k = "SRC".k WHEN MATCHED AND "SRC".f = 1 THEN DELETE',
)
check(
    "render: quoted lower-case alias on both sides, no AS; schema-qualified quoted table",
    (c12.render((("U", None, "src"),), "sn:alias_noas:quoted_lower:quoted_lower"), c12.render((("U", None, "src"),), "sn:table_schema_q:quoted_upper:upper")),
    ('MERGE INTO t USING s "src" ON t.k = "src".k WHEN MATCHED THEN UPDATE SET v = "src".v', 'MERGE INTO t USING s1."S" ON t.k = S.k WHEN MATCHED THEN UPDATE SET v = S.v'),
)
check("the use lists are filed under the category source_use() computes", [(u, x) for u, ls in c12.SRC_USE_LISTS.items() for x in ls if c12.source_use(x) != u], [])
check("... and are valid clause lists", all(M.valid_clause_list(c12.clauses_ast(x)) for ls in c12.SRC_USE_LISTS.values() for x in ls), True)
check("source_use: a column inside an expression wins over a condition", c12.source_use((("D", "src"), ("U", None, "expr_src"))), "inside_expression")
check("source_use: SET v = t.v || 'x' uses no source column", c12.source_use((("U", None, "expr_tgt"),)), "on_only")
jq = {(c[3][0][1], c[3][0][0]) for c in c12.enumerate_cases("quick") if c[3][0][1] in c12.SRCNAME}
check("quick tier: every source-name spelling x every use list", len(jq), len(c12.SRCNAME) * sum(len(x) for x in c12.SRC_USE_LISTS.values()))
check("the class of such a case names the cell, not the text", c12.shape_cause((("D", None),), "sn:alias:lower:quoted_upper"), ("source_name:declared=lower,referenced=quoted_upper,source_columns=on_only", "either"))
e = c12.StepRaised("begin", ValueError("boom\nmore"))
check("a raising harness step is carried as (step kind, exception type, first line)", (e.step, e.what), ("begin", ("builtins.ValueError", "boom")))

print(f"\n{len(FAILS)} failed" if FAILS else "\nall passed")
sys.exit(1 if FAILS else 0)
