#!/venv/bin/python
"""Self-test of the C01 reference model (mc/ref/c01_model.py) against hand-written expectations.

Expectations are taken from the Snowflake documentation (numeric types: INT.. = NUMBER(38,0), FLOAT.. = 64 bit;
string constants: '' and backslash escapes; VARCHAR(n) counts characters, CHAR = VARCHAR(1); VARIANT null is not SQL
NULL) and from the Python connector's documented type mapping (FIXED scale 0 -> int, scale > 0 -> Decimal, REAL ->
float, DATE -> date, TIME -> time, TIMESTAMP_NTZ -> naive datetime, TIMESTAMP_TZ -> aware datetime, BINARY ->
bytes/bytearray, VARIANT -> str).  Nothing here runs fakesnow: a wrong model fails here, not as a false alarm.

Run: /venv/bin/python selftest/test_c01.py   (exit 0 = all passed, 1 = a failure)
"""
from __future__ import annotations

import datetime as dt
import decimal
import json
import os
import struct
import sys
import zoneinfo

sys.path.insert(0, os.path.dirname(os.path.dirname(os.path.abspath(__file__))))
from mc.ref import c01_model as M  # noqa: E402

D = decimal.Decimal
FAILS = []
N = [0]


def check(name, got, exp):
    N[0] += 1
    if got != exp:
        FAILS.append(f"{name}: expected {exp!r}, got {got!r}")


def T(name):
    return M.TYPE_BY_NAME[name]


def sf_unquote(lit: str) -> str:
    """Independent reader of a Snowflake single-quoted string constant (documentation: 'String constants'):
    '' is a quote; \\\\ \\' \\" \\n \\t \\r \\b \\f \\0 are escape sequences."""
    assert lit[0] == "'" and lit[-1] == "'", lit
    body, out, i = lit[1:-1], [], 0
    esc = {"n": "\n", "t": "\t", "r": "\r", "b": "\b", "f": "\f", "0": "\0", "\\": "\\", "'": "'", '"': '"'}
    while i < len(body):
        ch = body[i]
        if ch == "'":
            assert body[i + 1] == "'", "unescaped quote inside constant"
            out.append("'")
            i += 2
        elif ch == "\\":
            out.append(esc[body[i + 1]])
            i += 2
        else:
            out.append(ch)
            i += 1
    return "".join(out)


# ---- 1. type table ----------------------------------------------------------------------------------------------
def test_types():
    names = {t["sql"] for t in M.TYPES}
    for must in ["BOOLEAN", "NUMBER", "NUMBER(38,0)", "NUMBER(10,2)", "NUMBER(38,37)", "NUMBER(20)", "DECIMAL", "NUMERIC",
                 "INT", "INTEGER", "BIGINT", "SMALLINT", "TINYINT", "BYTEINT", "FLOAT", "FLOAT4", "FLOAT8", "DOUBLE",
                 "DOUBLE PRECISION", "REAL", "VARCHAR", "STRING", "TEXT", "CHAR", "DATE", "TIME", "TIMESTAMP_NTZ",
                 "TIMESTAMP", "DATETIME", "TIMESTAMP_TZ", "BINARY", "VARBINARY", "VARIANT", "OBJECT", "ARRAY"]:
        check(f"type listed {must}", must in names, True)
    check("no TIMESTAMP_LTZ (not in the property statement)", "TIMESTAMP_LTZ" in names, False)
    for n in M.INT_SYNONYMS + ("NUMBER", "DECIMAL", "NUMERIC", "NUMBER(38,0)"):
        check(f"{n} is NUMBER(38,0)", (T(n)["family"], T(n)["p"], T(n)["s"]), ("fixed0", 38, 0))
    check("NUMBER(20) = NUMBER(20,0)", (T("NUMBER(20)")["p"], T("NUMBER(20)")["s"]), (20, 0))
    check("CHAR = VARCHAR(1)", T("CHAR")["maxlen"], 1)
    check("TIMESTAMP defaults to NTZ", T("TIMESTAMP")["family"], "ntz")
    check("DATETIME is NTZ", T("DATETIME")["family"], "ntz")
    for n in ("FLOAT", "FLOAT4", "FLOAT8", "DOUBLE", "DOUBLE PRECISION", "REAL"):
        check(f"{n} is 64 bit float", T(n)["family"], "float")
    check("expected type NUMBER", M.expected_pytype(T("NUMBER")), "int")
    check("expected type INT", M.expected_pytype(T("INT")), "int")
    check("expected type NUMBER(10,2)", M.expected_pytype(T("NUMBER(10,2)")), "decimal.Decimal")
    check("tgroup INT", M.tgroup(T("SMALLINT")), "int_synonyms")
    check("tgroup NUMBER(20)", M.tgroup(T("NUMBER(20)")), "number_p0")
    check("tgroup OBJECT", M.tgroup(T("OBJECT")), "object")
    check("tgroup DATETIME", M.tgroup(T("DATETIME")), "timestamp_ntz")


# ---- 2. alphabets: every value exactly representable in its type -------------------------------------------------
def test_values():
    for t in M.TYPES:
        vals = M.values_for(t)
        check(f"{t['sql']} shape labels unique", len({k for k, _ in vals}), len(vals))
        check(f"{t['sql']} quick shapes exist", set(M.QUICK_SHAPES[t["family"]]) - {k for k, _ in M.values_for(next(x for x in M.TYPES if x["family"] == t["family"] and x["maxlen"] is None))}, set())
        for k, v in vals:
            f = t["family"]
            if f == "fixed0":
                check(f"{t['sql']}/{k} int within precision", type(v) is int and abs(v) <= 10 ** t["p"] - 1, True)
            elif f == "fixedS":
                sign, digits, exp = v.as_tuple()
                frac = max(-exp, 0)
                intd = max(len(digits) + exp, 0)
                check(f"{t['sql']}/{k} scale", frac <= t["s"], True)
                check(f"{t['sql']}/{k} integer digits", intd <= t["p"] - t["s"], True)
            elif f == "float":
                check(f"{t['sql']}/{k} is a finite double", type(v) is float and v == v and abs(v) != float("inf"), True)
            elif f == "text":
                check(f"{t['sql']}/{k} length", t["maxlen"] is None or len(v) <= t["maxlen"], True)
            elif f in ("ntz", "tz", "time"):
                check(f"{t['sql']}/{k} microsecond type", isinstance(v, (dt.datetime, dt.time)), True)
                if f == "tz":
                    check(f"{t['sql']}/{k} is UTC aware", v.utcoffset(), dt.timedelta(0))
                if f == "ntz":
                    check(f"{t['sql']}/{k} is naive", v.tzinfo, None)
            elif f == "json":
                doc = json.loads(v)
                kind = "object" if isinstance(doc, dict) else "array" if isinstance(doc, list) else "scalar"
                check(f"{t['sql']}/{k} kind", M.JSON_KIND[k], kind)
                if t["json_kind"] != "any":
                    check(f"{t['sql']}/{k} fits column", kind, t["json_kind"])
    v = dict(M.values_for(T("NUMBER(10,2)")))
    check("NUMBER(10,2) max", v["max_magnitude"], D("99999999.99"))
    check("NUMBER(10,2) min magnitude", v["min_magnitude_neg"], D("-0.01"))
    v = dict(M.values_for(T("NUMBER(38,37)")))
    check("NUMBER(38,37) max (38 nines, not rounded by the decimal context)", str(v["max_magnitude"]), "9." + "9" * 37)
    check("NUMBER(38,37) -max", str(v["max_magnitude_neg"]), "-9." + "9" * 37)
    check("NUMBER(38,37) min", v["min_magnitude"], D("1E-37"))
    check("NUMBER(38,37) canary digits", str(v["full_scale_digits"]), "1.2345678901234567890123456789012345678")
    v = dict(M.values_for(T("NUMBER(20)")))
    check("NUMBER(20) max", v["max_precision"], 99999999999999999999)
    check("NUMBER(10,0) holds only what 10 digits can", [k for k, _ in M.values_for(T("NUMBER(10,0)"))],
          ["zero", "one", "neg_one", "over_int32", "under_int32", "max_precision", "min_precision"])
    check("NUMBER(10,0) max", dict(M.values_for(T("NUMBER(10,0)")))["max_precision"], 9999999999)
    v = dict(M.values_for(T("INT")))
    check("INT holds 38 digits", v["max_precision"], 10**38 - 1)
    check("int64 edges", (v["int64_max"], v["int64_min"], v["over_int64"], v["over_uint64"]), (2**63 - 1, -(2**63), 2**63, 2**64 + 1))
    check("over_uint64 not a double", float(v["over_uint64"]) != v["over_uint64"] or int(float(v["over_uint64"])) != v["over_uint64"], True)
    v = dict(M.FLOAT_VALUES)
    check("denormal min", v["denormal_min"], 2.0**-1074)
    check("normal min", v["normal_min"], 2.0**-1022)
    check("double max", v["max"], (2 - 2.0**-52) * 2.0**1023)
    check("float32 canary is lost in 32 bit", struct.unpack("f", struct.pack("f", v["float32_canary"]))[0] != v["float32_canary"], True)
    check("neg zero sign", struct.pack(">d", v["neg_zero"])[0], 0x80)
    check("sig17 needs 17 digits", float("%.16g" % v["sig17"]) != v["sig17"] and float("%.17g" % v["sig17"]) == v["sig17"], True)
    v = dict(M.values_for(T("VARCHAR(3)")))
    check("VARCHAR(3) excludes long strings", "len300" in v or "mixed" in v, False)
    check("VARCHAR(3) keeps astral (one character)", v.get("astral"), "𝒳")
    check("CHAR keeps only <= 1 char", sorted(len(x) for x in dict(M.values_for(T("CHAR"))).values())[-1], 1)
    check("VARCHAR(300) 300 chars", len(dict(M.values_for(T("VARCHAR(300)")))["len300"]), 300)
    v = dict(M.values_for(T("TIMESTAMP_NTZ")))
    check("ntz pre-epoch last microsecond", v["pre_epoch_f999999"], dt.datetime(1969, 12, 31, 23, 59, 59, 999999))
    check("ntz max", v["year9999_f999999"], dt.datetime.max)
    check("ntz count (5 dates x 4 fractions + epoch)", len(v), 21)
    check("variant alphabet", [k for k, _ in M.values_for(T("VARIANT"))], [k for k, _, _ in M.JSON_VALUES])
    check("object alphabet", [k for k, _ in M.values_for(T("OBJECT"))], ["empty_object", "nested_object"])
    check("array alphabet", [k for k, _ in M.values_for(T("ARRAY"))], ["empty_array", "nested_array"])


# ---- 3. SQL constants --------------------------------------------------------------------------------------------
def test_literals():
    L = M.sql_literal
    check("NULL", L(T("VARCHAR"), None), "NULL")
    check("bool", (L(T("BOOLEAN"), True), L(T("BOOLEAN"), False)), ("TRUE", "FALSE"))
    check("int", L(T("NUMBER"), -(10**38 - 1)), "-" + "9" * 38)
    check("decimal keeps scale", L(T("NUMBER(10,2)"), D("1.50")), "1.50")
    check("decimal positional, no exponent", L(T("NUMBER(38,37)"), D("1E-37")), "0." + "0" * 36 + "1")
    check("float repr round trips", [float(L(T("FLOAT"), v)) for _, v in M.FLOAT_VALUES if v != 0], [v for _, v in M.FLOAT_VALUES if v != 0])
    check("float denormal text", L(T("FLOAT"), 5e-324), "5e-324")
    check("string quote doubled", L(T("VARCHAR"), "it's"), "'it''s'")
    check("string backslash escaped", L(T("VARCHAR"), "a\\b"), "'a\\\\b'")
    check("string newline raw", L(T("VARCHAR"), "a\nb"), "'a\nb'")
    BS, Q = chr(92), chr(39)
    for k, v in M.values_for(T("VARCHAR")):
        check(f"string constant reads back ({k})", sf_unquote(L(T("VARCHAR"), v)), v)
        check(f"string constant, backslash spelling of the quote, reads back ({k})", sf_unquote(L(T("VARCHAR"), v, bs=True)), v)
        if Q in v:
            check(f"the two spellings differ ({k})", L(T("VARCHAR"), v) != L(T("VARCHAR"), v, bs=True), True)
    check("quote spelled with backslash", L(T("VARCHAR"), "it" + Q + "s $name", bs=True), Q + "it" + BS + Q + "s $name" + Q)
    check("backslash then quote, backslash spelling", L(T("VARCHAR"), BS + Q, bs=True), Q + BS + BS + BS + Q + Q)
    check("backslash then quote, doubled spelling", L(T("VARCHAR"), BS + Q), Q + BS + BS + Q + Q + Q)
    check("date", L(T("DATE"), dt.date(1, 1, 1)), "'0001-01-01'")
    check("time", L(T("TIME"), dt.time(23, 59, 59, 999999)), "'23:59:59.999999'")
    check("time zero fraction", L(T("TIME"), dt.time(0, 0, 0)), "'00:00:00.000000'")
    check("ntz", L(T("TIMESTAMP_NTZ"), dt.datetime(1969, 12, 31, 23, 59, 59, 1)), "'1969-12-31 23:59:59.000001'")
    check("tz", L(T("TIMESTAMP_TZ"), dt.datetime(2024, 2, 29, 23, 59, 59, 500000, tzinfo=dt.timezone.utc)), "'2024-02-29 23:59:59.500000+00:00'")
    check("binary", L(T("BINARY"), b"\xff\x00A"), "TO_BINARY('FF0041', 'HEX')")
    check("binary empty", L(T("BINARY"), b""), "TO_BINARY('', 'HEX')")
    check("variant", L(T("VARIANT"), '{"a":1}'), "PARSE_JSON('{\"a\":1}')")
    check("object cast", L(T("OBJECT"), "{}"), "PARSE_JSON('{}')::OBJECT")
    check("array cast", L(T("ARRAY"), "[]"), "PARSE_JSON('[]')::ARRAY")
    lit = L(T("VARIANT"), '"q\\"uote"')
    inner = lit[len("PARSE_JSON(") : -1]
    check("json with escaped quote survives the SQL constant", json.loads(sf_unquote(inner)), 'q"uote')


# ---- 4. statements -----------------------------------------------------------------------------------------------
def test_statements():
    B = M.build_insert
    rows = [(1, D("1.5")), (2, None), (3, D("1.5"))]
    check("lit values", B(T("NUMBER(10,2)"), "T1", rows, "lit"), ("INSERT INTO T1 (ID, V) VALUES (1, 1.5), (2, NULL), (3, 1.5)", None))
    check("pyformat values", B(T("NUMBER(10,2)"), "T1", rows, "pyformat"),
          ("INSERT INTO T1 (ID, V) VALUES (%s, %s), (%s, %s), (%s, %s)", (1, D("1.5"), 2, None, 3, D("1.5"))))
    check("qmark values", B(T("DATE"), "T1", [(7, dt.date(1970, 1, 1))], "qmark"), ("INSERT INTO T1 (ID, V) VALUES (?, ?)", (7, dt.date(1970, 1, 1))))
    check("json lit: no function call inside VALUES", B(T("VARIANT"), "T1", [(1, "[]"), (2, None)], "lit"),
          ("INSERT INTO T1 (ID, V) SELECT 1, PARSE_JSON('[]') UNION ALL SELECT 2, NULL", None))
    check("json qmark", B(T("ARRAY"), "T1", [(1, "[]"), (2, None)], "qmark"),
          ("INSERT INTO T1 (ID, V) SELECT ?, PARSE_JSON(?)::ARRAY UNION ALL SELECT ?, ?", (1, "[]", 2, None)))
    check("binary lit select form", B(T("BINARY"), "T1", [(1, b"A")], "lit"), ("INSERT INTO T1 (ID, V) SELECT 1, TO_BINARY('41', 'HEX')", None))
    check("binary bound as bytes", B(T("BINARY"), "T1", [(1, b"A")], "pyformat"), ("INSERT INTO T1 (ID, V) VALUES (%s, %s)", (1, b"A")))
    # the values bound are inside the connector's documented binding domain: its own client-side renderer accepts each
    # of them and, for text, produces a constant that reads back as the same string
    from snowflake.connector.converter import SnowflakeConverter

    c = SnowflakeConverter()
    for t in M.TYPES:
        for k, v in M.values_for(t):
            try:
                txt = c.quote(c.escape(c.to_snowflake(M.bind_value(t, v))))
            except Exception as e:  # noqa: BLE001
                FAILS.append(f"connector cannot bind {t['sql']}/{k}: {e!r}")
                continue
            N[0] += 1
            if t["family"] == "text":
                check(f"connector constant reads back {t['sql']}/{k}", sf_unquote(txt), v)
            if t["family"] == "tz":
                check(f"connector renders explicit UTC offset {k}", txt.endswith("+00:00'"), True)
            if t["family"] == "binary":
                check(f"connector renders X'..' {k}", txt.upper(), "X'" + v.hex().upper() + "'")
    check("connector does not zero-pad year 1 (reason for the pyformat exclusion)",
          c.quote(c.escape(c.to_snowflake(dt.date(1, 1, 1)))) == "'0001-01-01'", False)


# ---- 5. comparison -----------------------------------------------------------------------------------------------
def test_check_value():
    C = M.check_value
    utc = dt.timezone.utc
    cases = [
        # (type, written, read, failed sub-clauses)
        ("NUMBER", 5, 5, set()),
        ("NUMBER", 5, D("5"), {"pytype"}),
        ("NUMBER", 5, 5.0, {"pytype"}),
        ("NUMBER", 1, True, {"pytype"}),
        ("NUMBER", 5, 6, {"value"}),
        ("NUMBER", 5, "5", {"pytype"}),
        ("NUMBER", 2**64 + 1, D(2**64), {"pytype", "value"}),
        ("NUMBER", 2**63, float(2**63), {"pytype"}),
        ("NUMBER", 10**38 - 1, 10**38 - 1, set()),
        ("NUMBER", 10**38 - 1, float(10**38), {"pytype", "value"}),
        ("NUMBER(10,0)", 0, 0, set()),
        ("NUMBER(10,0)", 0, D("0"), {"pytype"}),
        ("NUMBER(10,0)", 0, False, {"pytype"}),
        ("NUMBER(10,0)", 0, 0.0, {"pytype"}),
        ("NUMBER(10,2)", D("0"), 0, {"pytype"}),
        ("NUMBER(10,2)", D("0"), D("0.00"), set()),
        ("FLOAT", 0.0, 0, {"pytype"}),
        ("FLOAT", 0.0, D("0"), {"pytype"}),
        ("BOOLEAN", False, 0, {"pytype"}),
        ("BOOLEAN", False, None, {"null"}),
        ("VARCHAR", "", "", set()),
        ("BINARY", b"", b"", set()),
        ("BINARY", b"", "", {"pytype"}),
        ("VARIANT", "false", "false", set()),
        ("VARIANT", "false", "0", {"value"}),
        ("VARIANT", "0", "false", {"value"}),
        ("VARIANT", '""', '""', set()),
        ("VARIANT", '""', None, {"null"}),
        ("VARIANT", "{}", "[]", {"value"}),
        ("VARIANT", "{}", "null", {"value"}),
        ("INT", 5, None, {"null"}),
        ("INT", None, 0, {"null"}),
        ("INT", None, None, set()),
        ("NUMBER(10,2)", D("1.5"), D("1.50"), set()),
        ("NUMBER(10,2)", D("1.5"), D("1.5"), set()),
        ("NUMBER(10,2)", D("1.5"), D("1.500"), {"value"}),
        ("NUMBER(10,2)", D("1.5"), 1.5, {"pytype"}),
        ("NUMBER(10,2)", D("0.01"), 0.01, {"pytype", "value"}),
        ("NUMBER(10,2)", D("1.5"), D("1.51"), {"value"}),
        ("NUMBER(10,2)", D("0"), 0, {"pytype"}),
        ("NUMBER(38,37)", D("9." + "9" * 37), D("9." + "9" * 36 + "8"), {"value"}),
        ("NUMBER(38,37)", D("9." + "9" * 37), D("9." + "9" * 37), set()),
        ("FLOAT", 0.1, 0.1, set()),
        ("FLOAT", 0.0, -0.0, {"value"}),
        ("FLOAT", -0.0, 0.0, {"value"}),
        ("FLOAT", 16777217.0, 16777216.0, {"value"}),
        ("FLOAT", 5e-324, 0.0, {"value"}),
        ("FLOAT", 1.0, 1, {"pytype"}),
        ("FLOAT", 1.0, D("1"), {"pytype"}),
        ("FLOAT", 1.0, None, {"null"}),
        ("BOOLEAN", True, True, set()),
        ("BOOLEAN", True, False, {"value"}),
        ("BOOLEAN", True, 1, {"pytype"}),
        ("BOOLEAN", True, "true", {"pytype"}),
        ("VARCHAR", "a", "a", set()),
        ("VARCHAR", "\u00e9", "e\u0301", {"value"}),  # code-point exact: NFC is not NFD
        ("VARCHAR", "", None, {"null"}),
        ("VARCHAR", None, "", {"null"}),
        ("VARCHAR", "a", b"a", {"pytype"}),
        ("VARCHAR", " a ", "a", {"value"}),
        ("DATE", dt.date(1970, 1, 1), dt.date(1970, 1, 1), set()),
        ("DATE", dt.date(1970, 1, 1), dt.datetime(1970, 1, 1), {"pytype"}),
        ("DATE", dt.date(1970, 1, 1), dt.datetime(1970, 1, 1, 1), {"pytype", "value"}),
        ("DATE", dt.date(1970, 1, 1), "1970-01-01", {"pytype"}),
        ("DATE", dt.date(1969, 12, 31), dt.date(1970, 1, 1), {"value"}),
        ("TIME", dt.time(23, 59, 59, 999999), dt.time(23, 59, 59, 999999), set()),
        ("TIME", dt.time(23, 59, 59, 999999), dt.time(23, 59, 59, 999000), {"value"}),
        ("TIME", dt.time(1, 2, 3), dt.time(1, 2, 3, tzinfo=utc), {"pytype"}),
        ("TIMESTAMP_NTZ", dt.datetime(1969, 12, 31, 23, 59, 59, 999999), dt.datetime(1969, 12, 31, 23, 59, 59, 999999), set()),
        ("TIMESTAMP_NTZ", dt.datetime(1969, 12, 31, 23, 59, 59, 999999), dt.datetime(1969, 12, 31, 23, 59, 59, 999998), {"value"}),
        ("TIMESTAMP_NTZ", dt.datetime(2024, 2, 29, 1), dt.datetime(2024, 2, 29, 1, tzinfo=utc), {"pytype"}),
        ("TIMESTAMP_NTZ", dt.datetime(2024, 2, 29, 1), dt.date(2024, 2, 29), {"pytype"}),
        ("DATETIME", dt.datetime(1970, 1, 1), dt.datetime(1970, 1, 1, 0, 0, 1), {"value"}),
        ("TIMESTAMP_TZ", dt.datetime(2020, 1, 1, tzinfo=utc), dt.datetime(2020, 1, 1, tzinfo=zoneinfo.ZoneInfo("UTC")), set()),
        ("TIMESTAMP_TZ", dt.datetime(2020, 1, 1, tzinfo=utc), dt.datetime(2020, 1, 1, 1, tzinfo=dt.timezone(dt.timedelta(hours=1))), {"pytype"}),
        ("TIMESTAMP_TZ", dt.datetime(2020, 1, 1, tzinfo=utc), dt.datetime(2020, 1, 1), {"pytype"}),
        ("TIMESTAMP_TZ", dt.datetime(2020, 1, 1, tzinfo=utc), dt.datetime(2020, 1, 1, 0, 0, 0, 1, tzinfo=utc), {"value"}),
        ("TIMESTAMP_TZ", dt.datetime(2020, 1, 1, tzinfo=utc), dt.datetime(2020, 1, 1, tzinfo=dt.timezone(dt.timedelta(hours=1))), {"pytype", "value"}),
        ("BINARY", b"\x00", b"\x00", set()),
        ("BINARY", b"\x00", bytearray(b"\x00"), set()),
        ("BINARY", b"\x00", "00", {"pytype"}),
        ("BINARY", b"\x00", b"\x01", {"value"}),
        ("BINARY", b"", None, {"null"}),
        ("VARIANT", '{"a":{"b":[1,"x"]}}', '{\n  "a": {\n    "b": [\n      1,\n      "x"\n    ]\n  }\n}', set()),
        ("VARIANT", '{"a":1,"b":2}', '{"b":2,"a":1}', set()),
        ("VARIANT", "[1,2]", "[2,1]", {"value"}),
        ("VARIANT", "true", "1", {"value"}),
        ("VARIANT", "0", "0.0", set()),
        ("VARIANT", "-1.5", "-1.5", set()),
        ("VARIANT", "null", None, {"null"}),
        ("VARIANT", "null", "null", set()),
        ("VARIANT", None, "null", {"null"}),
        ("VARIANT", '"s"', "s", {"value"}),
        ("VARIANT", '"s"', '"s"', set()),
        ("OBJECT", "{}", {}, {"pytype"}),
        ("ARRAY", '[1,[2,{"a":null}]]', '[1,[2,{"a":null}]]', set()),
        ("ARRAY", '[1,[2,{"a":null}]]', '[1,[2,{}]]', {"value"}),
    ]
    for tn, w, r, exp in cases:
        check(f"check_value {tn} written={w!r} read={r!r}", C(T(tn), w, r), exp)
    check("same_value ignores the python type", M.same_value(T("NUMBER"), 5, D(5)), True)
    check("same_value sees a changed value", M.same_value(T("NUMBER"), 5, D(6)), False)
    check("same_value sees a lost NULL", M.same_value(T("VARIANT"), "null", None), False)


# ---- 6. write_pandas result --------------------------------------------------------------------------------------
def test_wp_result():
    row = ("f", "LOADED", 3, 3, 1, 0, None, None, None, None)
    check("wp ok", M.check_wp_result((True, 1, 3, [row]), 3), True)
    check("wp wrong nrows", M.check_wp_result((True, 1, 2, [row]), 3), False)
    check("wp wrong loaded", M.check_wp_result((True, 1, 3, [("f", "LOADED", 3, 2, 1, 0, None, None, None, None)]), 3), False)
    check("wp not success", M.check_wp_result((False, 1, 3, [row]), 3), False)
    check("wp chunks", M.check_wp_result((True, 2, 3, [row]), 3), False)
    check("wp two chunks", M.check_wp_result((True, 2, 3, [("a", "LOADED", 1, 1, 1, 0), ("b", "LOADED", 2, 2, 1, 0)]), 3), True)
    check("wp garbage", M.check_wp_result(None, 3), False)


# ---- 7. product structure ----------------------------------------------------------------------------------------
def test_product():
    check("paths", M.PATHS, ["lit", "lit_bs", "pyformat", "qmark", "insert_select", "ctas", "clone", "insert_select_cast", "ctas_cast", "wp", "wp_dbschema", "wp_subset", "wp_auto", "wp_opts"])
    A = M.allowed
    check("-0.0 not as SQL text", [A(T("FLOAT"), p, "neg_zero", -0.0) for p in M.PATHS],
          [False, False, False, False, True, True, True, True, True, True, True, True, True, True])
    check("year 1 not via pyformat", A(T("DATE"), "pyformat", "year1", dt.date(1, 1, 1)), False)
    check("year 1 via literal", A(T("DATE"), "lit", "year1", dt.date(1, 1, 1)), True)
    check("tz not via qmark", M.type_applies(T("TIMESTAMP_TZ"), "qmark"), False)
    check("ns range", A(T("TIMESTAMP_NTZ"), "wp", "x", dt.datetime(9999, 12, 31)), False)
    check("ns range ok", A(T("TIMESTAMP_NTZ"), "wp", "x", dt.datetime(1969, 12, 31, 23, 59, 59, 1)), True)
    check("scalar json not via write_pandas", A(T("VARIANT"), "wp", "json_str", '"s"'), False)
    check("dict via write_pandas", A(T("VARIANT"), "wp", "nested_object", "{}"), True)
    check("auto_create types", [t["sql"] for t in M.TYPES if M.type_applies(t, "wp_auto")], list(M.AUTO_TYPES))
    check("auto_create int64 only", A(T("NUMBER"), "wp_auto", "over_int64", 2**63), False)
    for tier in ("quick", "thorough"):
        for t in M.TYPES:
            for p in M.PATHS:
                if not M.type_applies(t, p):
                    continue
                cs = M.cells(t, p, tier)
                ids = [i for c in cs for i, _ in c["rows"]]
                check(f"ids unique {t['sql']} {p} {tier}", len(ids), len(set(ids)))
                check(f"ids positive {t['sql']} {p} {tier}", min(ids) > 0, True)
                check(f"cell keys unique {t['sql']} {p} {tier}", len({(c['shape'], c['null']) for c in cs}), len(cs))
    cs = M.cells(T("BOOLEAN"), "lit", "thorough")
    check("cells of BOOLEAN/lit", [(c["shape"], c["null"], [v for _, v in c["rows"]]) for c in cs][:5] + [(cs[-1]["shape"], cs[-1]["null"], [v for _, v in cs[-1]["rows"]])],
          [("true", "none", [True]), ("true", "first", [None, True]), ("true", "middle", [True, None, True]), ("true", "last", [True, None]),
           ("true", "after_identity", [False, True]), ("null", "all", [None, None])])
    check("identity value is not paired with itself", [c["null"] for c in cs if c["shape"] == "false"], ["none", "first", "middle", "last"])
    # the reduced (quick) alphabets keep what truthiness shortcuts and first-row sniffing break
    check("quick keeps NULL in the first row and the identity value in the first row", {"first", "after_identity"} <= set(M.QUICK_PLACEMENTS), True)
    for t in M.TYPES:
        ish, iv = M.identity(t)
        check(f"identity of {t['sql']} is in the quick alphabet", ish in M.QUICK_SHAPES[t["family"]], True)
        if t["family"] in ("bool", "fixed0", "fixedS", "float", "text", "binary"):
            check(f"identity of {t['sql']} is falsy", bool(iv), False)
        if t["family"] == "json":
            check(f"identity of {t['sql']} is an empty container", json.loads(iv) in ({}, []) and not json.loads(iv), True)
    check("identities", [M.identity(T(n)) for n in ("NUMBER(10,0)", "NUMBER(10,2)", "FLOAT", "VARCHAR", "BOOLEAN", "BINARY", "DATE", "TIME", "TIMESTAMP_NTZ", "VARIANT", "ARRAY")],
          [("zero", 0), ("zero", D(0)), ("zero", 0.0), ("empty", ""), ("false", False), ("empty", b""), ("epoch", dt.date(1970, 1, 1)),
           ("midnight", dt.time(0, 0)), ("epoch_exact", dt.datetime(1970, 1, 1)), ("empty_object", "{}"), ("empty_array", "[]")])
    check("falsy JSON scalars are in the alphabet", {"json_false", "json_int", "json_empty_str", "json_null"} <= {k for k, _ in M.values_for(T("VARIANT"))}, True)
    check("no identity pairing of dict cells in one DataFrame column", [c for c in M.cells(T("VARIANT"), "wp", "thorough") if c["null"] == "after_identity"], [])
    check("identity pairing of JSON through SQL", [[v for _, v in c["rows"]] for c in M.cells(T("ARRAY"), "lit", "thorough") if c["null"] == "after_identity"], [["[]", '[1,[2,{"a":null}]]']])
    # syntactically active sequences: every ordered pair is a text value of the SQL-text paths
    BS, Q, NL = chr(92), chr(39), chr(10)
    toks = dict(M.ACTIVE_TOKENS)
    check("active tokens", sorted(toks.values()), sorted([Q, BS, "$name", "$1", "$$", "--", "/*", "*/", "%s", "%(x)s", "?", ":1", ";", NL]))
    vv = dict(M.values_for(T("VARCHAR")))
    for ka, a in M.ACTIVE_TOKENS:
        for kb, b in M.ACTIVE_TOKENS:
            check(f"pair {ka}+{kb} adjacent", vv.get(f"pair:{ka}+{kb}"), a + b)
            check(f"pair {ka}+{kb} apart", vv.get(f"gap:{ka}+{kb}"), a + " x " + b)
    check("pairs only where statement text is built from the value",
          [p for p in M.PATHS if A(T("VARCHAR"), p, "pair:squote+dollar_name", Q + "$name")], ["lit", "lit_bs", "pyformat", "qmark"])
    for p, n_quick in (("lit", 196), ("pyformat", 196), ("qmark", 196), ("lit_bs", 27)):
        qs = {c["shape"] for c in M.cells(T("VARCHAR"), p, "quick") if c["shape"].startswith("pair:")}
        check(f"quick {p}: every ordered pair (with a quote, for lit_bs)", len(qs), n_quick)
        ts_ = {c["shape"] for c in M.cells(T("STRING"), p, "thorough") if M.is_pair_shape(c["shape"])}
        check(f"thorough {p}: adjacent and apart, every unbounded text type", len(ts_), 2 * n_quick)
    check("a pair value is written alone and twice around a NULL",
          sorted({c["null"] for c in M.cells(T("VARCHAR"), "lit", "quick") if M.is_pair_shape(c["shape"])}), ["middle", "none"])
    check("bounded text types carry no pairs", [k for k, _ in M.values_for(T("VARCHAR(3)")) if M.is_pair_shape(k)], [])
    check("lit_bs only for values whose constant has a quote",
          all(any(v is not None and Q in v for _, v in c["rows"]) for c in M.cells(T("VARCHAR"), "lit_bs", "thorough")), True)
    check("lit_bs types", [t["sql"] for t in M.TYPES if M.type_applies(t, "lit_bs")], ["VARCHAR", "VARCHAR(300)", "VARCHAR(3)", "STRING", "TEXT", "CHAR", "VARIANT"])
    check("lit_bs statement", M.build_insert(T("VARCHAR"), "T1", [(1, Q + "$name")], "lit_bs"), ("INSERT INTO T1 (ID, V) VALUES (1, " + Q + BS + Q + "$name" + Q + ")", None))
    check("lit statement", M.build_insert(T("VARCHAR"), "T1", [(1, Q + "$name")], "lit"), ("INSERT INTO T1 (ID, V) VALUES (1, " + Q * 3 + "$name" + Q + ")", None))
    jv = dict(M.values_for(T("VARIANT")))["json_str_squote"]
    check("json string with a quote and a $name", json.loads(jv), "it" + Q + "s $name")
    check("json lit_bs statement", M.build_insert(T("VARIANT"), "T1", [(1, jv)], "lit_bs")[0],
          "INSERT INTO T1 (ID, V) SELECT 1, PARSE_JSON(" + Q + '"it' + BS + Q + 's $name"' + Q + ")")
    check("session states", M.SESSION_STATES, ["pristine", "used"])
    kinds = [k for k, _ in M.FAILING_STATEMENTS]
    check("failing statements of the used session: one per route through the cursor", kinds,
          ["single_step", "single_step_data_error", "create_with_text_length_exists", "create_with_comment_exists", "clone_missing_source",
           "merge_missing_target", "rename_missing_table", "rename_missing_column", "ctas_data_error", "executemany"])
    fs_ = dict(M.FAILING_STATEMENTS)
    check("several-step statements that fail on name resolution", ["VARCHAR(10)" in fs_["create_with_text_length_exists"], "COMMENT" in fs_["create_with_comment_exists"],
          " CLONE " in fs_["clone_missing_source"], fs_["merge_missing_target"].startswith("MERGE INTO"), " RENAME TO " in fs_["rename_missing_table"]], [True] * 5)
    check("failing statements format", [sql.format(ph="%s", s3="S3") for _, sql in M.FAILING_STATEMENTS if "{" in sql][-1], "INSERT INTO NO_SUCH_TABLE (ID) VALUES (%s)")
    check("session variable names occur in the values", [any(("$" + n) in v or ("(" + n + ")") in v for _, v in M.ACTIVE_TOKENS) for n, _ in M.SESSION_VARIABLES], [True, True])
    # write_pandas options
    oc = M.opts_cells(T("NUMBER"))
    check("option product", len(oc), 6 * 5 * 2 * 2)
    check("option product is complete", len({c["shape"] for c in oc}), 120)
    check("chunk sizes for n=5", [c for _, c in M.WP_CHUNKS], [None, 1, 2, 4, 5, 6])
    check("every option DataFrame: 5 rows, NULL in the middle, 4 values", {(len(c["rows"]), c["rows"][2][1]) for c in oc}, {(5, None)})
    check("option values NUMBER", [v for _, v in oc[0]["rows"]], [0, 1, None, -1, 2**31])
    check("option values INT stay within 64 bit", all(v is None or abs(v) < 2**63 for c in M.opts_cells(T("INT")) for _, v in c["rows"]), True)
    check("option values CHAR fit", all(v is None or len(v) <= 1 for _, v in M.opts_cells(T("CHAR"))[0]["rows"]), True)
    check("option values VARIANT: one document repeated", [v for _, v in M.opts_cells(T("VARIANT"))[0]["rows"]], ['{"a":{"b":[1,"x"]}}'] * 2 + [None] + ['{"a":{"b":[1,"x"]}}'] * 2)
    check("option values TIMESTAMP_NTZ fit datetime64[ns]", all(v is None or M.NS_MIN <= v <= M.NS_MAX for _, v in M.opts_cells(T("TIMESTAMP_NTZ"))[0]["rows"]), True)
    check("index labels", [M.df_index(k, 5) for k in M.WP_INDEXES],
          [None, [100, 101, 102, 103, 104], [4, 3, 2, 1, 0], ["r0", "r1", "r2", "r3", "r4"], [0, 0, 1, 1, 2]])
    check("one quick type per synonym group", sorted(M.tgroup(T(n)) for n in M.WP_OPTS_QUICK_TYPES), sorted({M.tgroup(t) for t in M.TYPES}))
    check("quick subset of thorough", all({(c["shape"], c["null"]) for c in M.cells(t, p, "quick")} <= {(c["shape"], c["null"]) for c in M.cells(t, p, "thorough")}
                                        for t in M.TYPES for p in M.PATHS if M.type_applies(t, p)), True)
    check("vclass", [M.vclass(T("INT"), "one", 1), M.vclass(T("INT"), "over_int64", 2**63), M.vclass(T("INT"), "int64_min", -(2**63)),
                     M.vclass(T("VARIANT"), "json_null", "null"), M.vclass(T("VARIANT"), "nested_array", "[]"), M.vclass(T("TEXT"), "null", None), M.vclass(T("TEXT"), "astral", "x"), M.vclass(T("BINARY"), "empty", b""), M.vclass(T("VARBINARY"), "nul", b"\x00"), M.vclass(T("BINARY"), "nul", b"\x00", [b""]),
                     M.vclass(T("INT"), "over_int64", 2**63, [0])],
          ["within_int64", "over_int64", "within_int64", "json_null", "json_array", "null_only", "any", "empty", "nonempty", "empty", "over_int64"])


# ---- 8. DataFrame columns ----------------------------------------------------------------------------------------
def test_df():
    import pandas as pd

    col = M.df_column(T("NUMBER"), [1, 2**63 - 1])
    check("int64 dtype", (str(col.dtype), col.tolist()), ("int64", [1, 2**63 - 1]))
    col = M.df_column(T("NUMBER"), [2**63 - 1, None])
    check("Int64 dtype keeps 64 bit exactly", (str(col.dtype), int(col[0]), col[1] is pd.NA), ("Int64", 2**63 - 1, True))
    col = M.df_column(T("NUMBER"), [10**38 - 1, None])
    check("beyond int64: Decimal objects", (str(col.dtype), col[0], col[1]), ("object", D(10**38 - 1), None))
    col = M.df_column(T("FLOAT"), [-0.0, None, 5e-324])
    check("float64 with NaN for NULL", (str(col.dtype), struct.pack(">d", col[0]), col[1] != col[1], col[2]), ("float64", struct.pack(">d", -0.0), True, 5e-324))
    col = M.df_column(T("TIMESTAMP_NTZ"), [dt.datetime(1969, 12, 31, 23, 59, 59, 999999), None])
    check("datetime64[ns]", (str(col.dtype), col[0].to_pydatetime(), col[1] is pd.NaT), ("datetime64[ns]", dt.datetime(1969, 12, 31, 23, 59, 59, 999999), True))
    col = M.df_column(T("TIMESTAMP_TZ"), [dt.datetime(2024, 2, 29, 23, 59, 59, 1, tzinfo=dt.timezone.utc)])
    check("datetime64[ns, UTC]", (str(col.dtype), col[0].to_pydatetime()), ("datetime64[ns, UTC]", dt.datetime(2024, 2, 29, 23, 59, 59, 1, tzinfo=dt.timezone.utc)))
    col = M.df_column(T("VARIANT"), ['{"a":{"b":[1,"x"]}}', None])
    check("dict cell", (str(col.dtype), col[0], col[1]), ("object", {"a": {"b": [1, "x"]}}, None))
    col = M.df_column(T("BOOLEAN"), [True, False])
    check("bool dtype", str(col.dtype), "bool")
    col = M.df_column(T("BOOLEAN"), [None, True])
    check("bool with None is object", (str(col.dtype), col.tolist()), ("object", [None, True]))
    check("labels", [M.df_dtype_label(T("NUMBER"), [1]), M.df_dtype_label(T("NUMBER"), [1, None]), M.df_dtype_label(T("BOOLEAN"), [None, True]),
                     M.df_dtype_label(T("DATE"), [dt.date(1, 1, 1)]), M.df_dtype_label(T("VARCHAR"), ["a"])],
          ["int64", "Int64", "object[bool]", "object[date]", "object[str]"])


def main():
    for f in (test_types, test_values, test_literals, test_statements, test_check_value, test_wp_result, test_product, test_df):
        try:
            f()
        except Exception as e:  # noqa: BLE001
            import traceback

            FAILS.append(f"{f.__name__} raised {e!r}\n{traceback.format_exc()}")
    for x in FAILS:
        print("FAIL", x)
    print(f"test_c01: {N[0]} assertions, {len(FAILS)} failed")
    return 1 if FAILS else 0


if __name__ == "__main__":
    sys.exit(main())
