"""Unit tests of the C09 reference model (checks/c09.py: Model + OPS) against hand-written expectations.

Expectations are Snowflake's documented semantics: unqualified names resolve against the session's current database /
schema; USE DATABASE leaves no current schema when the database has no PUBLIC schema; COMMENT ON / ALTER .. SET COMMENT
replace the comment by the value given (also by the empty string and by an equal value); DROP forgets the comment;
RENAME keeps it; a statement that is rejected changes nothing.
"""
import os
import sys

sys.path.insert(0, os.path.dirname(os.path.dirname(os.path.abspath(__file__))))

from checks import c09  # noqa: E402

FAILS = []


def run(hist):
    m = c09.Model()
    for o in hist:
        assert c09.OPS[o][1](m), f"{o} not enabled in {hist}"
        c09.OPS[o][2](m)
    return m


def expect(name, got, want):
    if got != want:
        FAILS.append(f"{name}: got {got!r}, want {want!r}")


def comment(m, d, s, n):
    return m.cat[d][s][n]["comment"]


def names(m, d, s):
    return sorted(m.cat[d][s])


# -- comments: most recently declared value, whatever the value
m = run(["create_T_comment"])
expect("declared at create", comment(m, "DB1", "S1", "T"), "c1")
for op_, want in [("comment_on_empty", ""), ("set_comment_empty", ""), ("comment_on_same", "c1"), ("set_comment_same", "c1"), ("comment_on", "c4"), ("set_comment", "c3"), ("comment_on_quote", "it's")]:
    expect(f"replace c1 by {op_}", comment(run(["create_T_comment", op_]), "DB1", "S1", "T"), want)
    expect(f"first comment by {op_}", comment(run(["create_T", op_]), "DB1", "S1", "T"), want)
expect("empty then non-empty", comment(run(["create_T", "comment_on_empty", "comment_on"]), "DB1", "S1", "T"), "c4")
expect("drop forgets", comment(run(["create_T_comment", "drop_T", "create_T"]), "DB1", "S1", "T"), None)
expect("rename keeps", comment(run(["create_T_comment", "rename_T_U"]), "DB1", "S1", "U"), "c1")
expect("replace declares anew", comment(run(["create_T_comment", "replace_T_plain"]), "DB1", "S1", "T"), None)
expect("replace with empty", comment(run(["create_T_comment", "replace_T_empty_comment"]), "DB1", "S1", "T"), "")
expect("rejected create changes nothing", comment(run(["create_T_comment", "dup_create_T"]), "DB1", "S1", "T"), "c1")
expect("key tells '' from none", run(["create_T", "comment_on_empty"]).key() != run(["create_T"]).key(), True)

# -- session context
m = run(["create_DB2", "use_DB2"])
expect("USE DATABASE: no PUBLIC schema -> no current schema", m.ctx, ["DB2", None])
expect("no current schema: unqualified create not enabled", c09.OPS["create_T"][1](m), False)
expect("qualified create still enabled", c09.OPS["create_DB2_S1"][1](m), True)
expect("ctx_changed", m.ctx_changed, True)
m = run(["create_T", "create_DB2", "create_DB2_S1", "use_DB2_S1", "create_T_comment", "create_PK"])
expect("unqualified create lands in current schema", names(m, "DB2", "S1"), ["P", "T"])
expect("home schema untouched", names(m, "DB1", "S1"), ["T"])
expect("comment in current schema", comment(m, "DB2", "S1", "T"), "c1")
expect("comment of the same-named table elsewhere", comment(m, "DB1", "S1", "T"), None)
m = run(["create_T", "create_DB2", "create_DB2_S1", "use_DB2_S1", "create_S2", "create_S2_T"])
expect("create schema s2 / s2.t in current database", names(m, "DB2", "S2"), ["T"])
expect("DB1 has no S2", sorted(m.cat["DB1"]), ["S1"])
m = run(["create_S2", "use_S2", "create_T", "use_back"])
expect("back home", m.ctx, ["DB1", "S1"])
expect("table made in S2", names(m, "DB1", "S2"), ["T"])
expect("T free at home", c09.OPS["create_T"][1](m), True)
expect("current schema cannot be dropped in the alphabet", c09.OPS["drop_S2"][1](run(["create_S2", "use_S2"])), False)
expect("no USE while a view exists", c09.OPS["use_S2"][1](run(["create_T", "view_V", "create_S2"])), False)
expect("key tells contexts apart", run(["create_S2", "use_S2"]).key() != run(["create_S2"]).key(), True)

# -- every collision history is enabled step by step
for h in c09.COLLISIONS:
    mm = c09.Model()
    for o in h:
        if not c09.OPS[o][1](mm):
            FAILS.append(f"collision history {h}: {o} not enabled")
            break
        c09.OPS[o][2](mm)

if FAILS:
    print("\n".join(FAILS))
    sys.exit(1)
print("ok")
