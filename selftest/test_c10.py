#!/venv/bin/python
"""Unit tests of the C10 reference model (mc/ref/sf_functions.py) against hand-written expectations.

Every expectation below is an example or a rule quoted from the Snowflake SQL reference (function pages named in
the comments) or follows from the definition of the standard (SHA-2 test vectors, calendar arithmetic).  Nothing
here runs fakesnow: a wrong model must show up here and not as a false alarm of the check.

    /venv/bin/python selftest/test_c10.py      -> exit 0 / 1
"""
from __future__ import annotations

import datetime as dt
import os
import sys
from decimal import Decimal

sys.path.insert(0, os.path.dirname(os.path.dirname(os.path.abspath(__file__))))
from mc.ref import sf_functions as sf  # noqa: E402

D, TS = dt.date, dt.datetime
FAIL = []
N = [0]


def eq(label, got, exp):
    N[0] += 1
    if type(got) is not type(exp) or got != exp:
        FAIL.append(f"{label}: got {got!r}, expected {exp!r}")


def raises(label, exc, fn, *a, **k):
    N[0] += 1
    try:
        r = fn(*a, **k)
    except exc:
        return
    except Exception as e:  # noqa: BLE001
        FAIL.append(f"{label}: raised {type(e).__name__}, expected {exc.__name__}")
        return
    FAIL.append(f"{label}: returned {r!r}, expected {exc.__name__}")


# ---- REGEXP_SUBSTR (docs: examples on the function page) -----------------------------------------------------------
s1 = "It was the best of times, it was the worst of times."
eq("substr doc 1", sf.regexp_substr(s1, "the\\W+\\w+"), "the best")  # first occurrence
eq("substr doc 2", sf.regexp_substr(s1, "the\\W+\\w+", 1, 2), "the worst")  # second occurrence
eq("substr doc 3", sf.regexp_substr(s1, "the\\W+(\\w+)", 1, 2, "e", 1), "worst")  # group 1 of 2nd occurrence
eq("substr doc 4 e defaults to group 1", sf.regexp_substr(s1, "the\\W+(\\w+)", 1, 2, "e"), "worst")
eq("substr group_num implies e", sf.regexp_substr(s1, "the\\W+(\\w+)", 1, 2, "c", 1), "worst")
eq("substr no match is NULL", sf.regexp_substr("abc", "x"), None)
eq("substr occurrence past the last match is NULL", sf.regexp_substr("abc abd abe", "ab.", 1, 4), None)
eq("substr position", sf.regexp_substr("abc abd abe", "ab.", 5), "abd")
eq("substr position = len+1", sf.regexp_substr("abc", "b", 4), None)
eq("substr case-sensitive by default", sf.regexp_substr("ABC", "abc"), None)
eq("substr 'i'", sf.regexp_substr("ABC", "abc", 1, 1, "i"), "ABC")
eq("substr 'ie'", sf.regexp_substr("ABC abd", "a(b)(.)", 1, 1, "ie"), "B")
eq("substr group 2", sf.regexp_substr("abc abd", "a(b)(.)", 1, 2, "e", 2), "d")
eq("substr NULL subject", sf.regexp_substr(None, "b"), None)
eq("substr NULL pattern", sf.regexp_substr("abc", None), None)
eq("substr not anchored", sf.regexp_substr("xxabc", "abc"), "abc")
eq("substr escaped dot", sf.regexp_substr("axb a.b", "a\\.b"), "a.b")
eq("substr escaped backslash", sf.regexp_substr("a\\b", "a\\\\b"), "a\\b")
eq("substr \\d", sf.regexp_substr("a1b22", "\\d+", 1, 2), "22")
raises("pattern with prefix alternation refused", sf.NotDemanded, sf.regexp_substr, "ab", "(a|ab)")
raises("pattern matching empty refused", sf.NotDemanded, sf.regexp_substr, "ab", "b*")
raises("'e' without group in pattern", sf.NotDemanded, sf.regexp_substr, "ab", "b", 1, 1, "e")
raises("^ with position", sf.NotDemanded, sf.regexp_substr, "aab", "^a", 2)

# ---- REGEXP_REPLACE (docs: "replaces all occurrences", default replacement '', back-references \\N) ----------------
eq("replace all", sf.regexp_replace("abcabc", "b", "X"), "aXcaXc")
eq("replace default replacement removes", sf.regexp_replace("abcabc", "b"), "acac")
eq("replace backrefs", sf.regexp_replace("firstname middlename lastname", "(\\w+) (\\w+) (\\w+)", "\\3, \\1 \\2"), "lastname, firstname middlename")
eq("replace occurrence 2", sf.regexp_replace("abcabc", "b", "X", 1, 2), "abcaXc")
eq("replace position 3 occurrence 0", sf.regexp_replace("abcabc", "b", "X", 3, 0), "abcaXc")
eq("replace position keeps head", sf.regexp_replace("bbb", "b", "X", 2), "bXX")
eq("replace 'i'", sf.regexp_replace("aBc", "b", "X", 1, 0, "i"), "aXc")
eq("replace NULL subject", sf.regexp_replace(None, "b", "X"), None)
eq("replace NULL replacement", sf.regexp_replace("abc", "b", None), None)
eq("replace no match", sf.regexp_replace("abc", "x", "Y"), "abc")
eq("replace escaped backslash", sf.regexp_replace("a\\b", "a\\\\b", "X"), "X")

# ---- SPLIT (docs: examples + "An empty separator string results in an array containing only the source string") -----
eq("split doc 127.0.0.1", sf.split("127.0.0.1", "."), ["127", "0", "0", "1"])
eq("split doc |a||", sf.split("|a||", "|"), ["", "a", "", ""])
eq("split empty separator", sf.split("abc", ""), ["abc"])
eq("split NULL string", sf.split(None, ","), None)
eq("split NULL separator", sf.split("a,b", None), None)
eq("split multi-char separator", sf.split("a||b||c", "||"), ["a", "b", "c"])
eq("split separator absent", sf.split("abc", ","), ["abc"])

# ---- TRIM / LTRIM / RTRIM (docs: default ' ' only blanks; characters is a set, order irrelevant) --------------------
eq("trim doc *-*ABC-*-", sf.trim("*-*ABC-*-", "*-"), "ABC")
eq("trim default", sf.trim("  a b  "), "a b")
eq("trim chars not blanks", sf.trim("  xax  ", "x"), "  xax  ")
eq("ltrim doc", sf.ltrim("#000000123", "0#"), "123")
eq("ltrim keeps the right side", sf.ltrim("  a  "), "a  ")
eq("rtrim doc", sf.rtrim("$125.00", "0."), "$125")
eq("rtrim keeps the left side", sf.rtrim("  a  "), "  a")
eq("trim NULL", sf.trim(None), None)
eq("trim number is cast to VARCHAR", sf.trim(123), "123")
eq("trim everything", sf.trim("xxxx", "x"), "")

# ---- TO_DATE / TO_TIMESTAMP ---------------------------------------------------------------------------------------
eq("to_date ISO", sf.to_date("2024-02-29"), D(2024, 2, 29))
eq("to_date from timestamp string", sf.to_date("2024-02-29 23:59:59"), D(2024, 2, 29))
eq("to_date from timestamp", sf.to_date(TS(1970, 1, 1, 23, 59, 59)), D(1970, 1, 1))
eq("to_date NULL", sf.to_date(None), None)
raises("to_date invalid day", sf.SfError, sf.to_date, "2024-02-30")
raises("to_date not leap", sf.SfError, sf.to_date, "2023-02-29")
raises("to_date garbage", sf.SfError, sf.to_date, "abc")
raises("to_date other AUTO formats are not modelled", sf.NotDemanded, sf.to_date, "31-Dec-2020")
eq("to_date integer string = seconds", sf.to_date("1700000000"), D(2023, 11, 14))
eq("to_timestamp seconds", sf.to_timestamp(0), TS(1970, 1, 1))
eq("to_timestamp negative seconds", sf.to_timestamp(-1), TS(1969, 12, 31, 23, 59, 59))
eq("to_timestamp doc 1671605376", sf.to_timestamp(1671605376), TS(2022, 12, 21, 6, 49, 36))
eq("to_timestamp largest seconds value", sf.to_timestamp(31535999999), TS(2969, 5, 2, 23, 59, 59))
eq("to_timestamp smallest milliseconds value (doc: 31536000000 -> 1971-01-01)", sf.to_timestamp(31536000000), TS(1971, 1, 1))
eq("to_timestamp milliseconds", sf.to_timestamp(1700000000123), TS(2023, 11, 14, 22, 13, 20, 123000))
eq("to_timestamp microseconds", sf.to_timestamp(1700000000123456), TS(2023, 11, 14, 22, 13, 20, 123456))
eq("to_timestamp nanoseconds", sf.to_timestamp(1700000000123456000), TS(2023, 11, 14, 22, 13, 20, 123456))
eq("to_timestamp scale 3", sf.to_timestamp(1700000000123, 3), TS(2023, 11, 14, 22, 13, 20, 123000))
eq("to_timestamp scale 0 on a large value", sf.to_timestamp(31536000000, 0), TS(2969, 5, 3))
eq("to_timestamp string", sf.to_timestamp("2024-02-29T12:13:14.5"), TS(2024, 2, 29, 12, 13, 14, 500000))
eq("to_timestamp date-only string", sf.to_timestamp("2024-02-29"), TS(2024, 2, 29))
eq("to_timestamp from date", sf.to_timestamp(D(2024, 2, 29)), TS(2024, 2, 29))
eq("to_timestamp integer string", sf.to_timestamp("86399"), TS(1970, 1, 1, 23, 59, 59))
raises("to_timestamp invalid", sf.SfError, sf.to_timestamp, "2024-13-01 00:00:00")

# ---- DATEADD (docs: result type rule, month-end rule, examples) -----------------------------------------------------
eq("dateadd doc: month end", sf.dateadd("month", 1, D(2000, 1, 31)), D(2000, 2, 29))
eq("dateadd doc: month end 2", sf.dateadd("MONTH", 1, D(2000, 2, 29)), D(2000, 3, 29))
eq("dateadd year on leap day", sf.dateadd("year", 1, D(2024, 2, 29)), D(2025, 2, 28))
eq("dateadd year -4 on leap day", sf.dateadd("year", -4, D(2024, 2, 29)), D(2020, 2, 29))
eq("dateadd quarter = 3 months", sf.dateadd("quarter", 1, D(2023, 11, 30)), D(2024, 2, 29))
eq("dateadd month backwards", sf.dateadd("month", -1, D(2024, 3, 31)), D(2024, 2, 29))
eq("dateadd -13 months", sf.dateadd("month", -13, D(2024, 3, 31)), D(2023, 2, 28))
eq("dateadd week", sf.dateadd("week", 1, D(2024, 2, 28)), D(2024, 3, 6))
eq("dateadd day over year end", sf.dateadd("day", 1, D(2023, 12, 31)), D(2024, 1, 1))
eq("dateadd day keeps DATE", type(sf.dateadd("day", 1, D(2023, 12, 31))), D)
eq("dateadd doc: hour on DATE gives TIMESTAMP", sf.dateadd("hour", 2, D(2022, 4, 5)), TS(2022, 4, 5, 2, 0))
eq("dateadd second -1 on DATE", sf.dateadd("second", -1, D(1970, 1, 1)), TS(1969, 12, 31, 23, 59, 59))
eq("dateadd timestamp month", sf.dateadd("month", 1, TS(2024, 1, 31, 1, 2, 3)), TS(2024, 2, 29, 1, 2, 3))
eq("dateadd timestamp hours", sf.dateadd("hour", 23, TS(2024, 2, 28, 1, 2, 3)), TS(2024, 2, 29, 0, 2, 3))
eq("dateadd ms", sf.dateadd("ms", 1, TS(2024, 2, 28, 1, 2, 3)), TS(2024, 2, 28, 1, 2, 3, 1000))
eq("dateadd us alias", sf.dateadd("usec", 5, TS(2024, 2, 28)), TS(2024, 2, 28, 0, 0, 0, 5))
eq("dateadd ns", sf.dateadd("ns", 2000, TS(2024, 2, 28)), TS(2024, 2, 28, 0, 0, 0, 2))
eq("dateadd NULL amount", sf.dateadd("day", None, D(2024, 1, 1)), None)
eq("dateadd NULL date", sf.dateadd("day", 1, None), None)
eq("dateadd alias yy", sf.dateadd("yy", 1, D(2023, 1, 1)), D(2024, 1, 1))
raises("dateadd unknown part", sf.NotDemanded, sf.dateadd, "fortnight", 1, D(2024, 1, 1))

# ---- DATEDIFF (docs: boundaries crossed; examples) -------------------------------------------------------------------
eq("datediff doc: year across new year's eve", sf.datediff("year", D(2023, 12, 31), D(2024, 1, 1)), 1)
eq("datediff doc: years", sf.datediff("year", TS(2010, 4, 9, 14, 39, 20), TS(2013, 5, 8, 23, 39, 49)), 3)
eq("datediff doc: hours", sf.datediff("hour", TS(2013, 5, 8, 23, 39, 49), TS(2013, 5, 8, 23, 39, 49) + dt.timedelta(hours=3)), 3)
eq("datediff month: Jan 31 -> Feb 1", sf.datediff("month", D(2024, 1, 31), D(2024, 2, 1)), 1)
eq("datediff month: Feb 1 -> Feb 29", sf.datediff("month", D(2024, 2, 1), D(2024, 2, 29)), 0)
eq("datediff quarter", sf.datediff("quarter", D(2024, 3, 31), D(2024, 4, 1)), 1)
eq("datediff week: Sat -> Mon crosses one Monday", sf.datediff("week", D(2024, 1, 6), D(2024, 1, 8)), 1)
eq("datediff week: Mon -> Sun same week", sf.datediff("week", D(2024, 1, 8), D(2024, 1, 14)), 0)
eq("datediff week before the epoch", sf.datediff("week", D(1969, 12, 28), D(1970, 1, 5)), 2)
eq("datediff day negative", sf.datediff("day", D(2024, 3, 1), D(2024, 2, 28)), -2)
eq("datediff day ignores the time of day", sf.datediff("day", TS(2024, 1, 1, 23, 59, 59), TS(2024, 1, 2, 0, 0, 0)), 1)
eq("datediff hour ignores minutes", sf.datediff("hour", TS(2024, 1, 1, 0, 59, 59), TS(2024, 1, 1, 1, 0, 0)), 1)
eq("datediff hour same hour", sf.datediff("hour", TS(2024, 1, 1, 1, 0, 0), TS(2024, 1, 1, 1, 59, 59)), 0)
eq("datediff hour negative across midnight before epoch", sf.datediff("hour", TS(1970, 1, 1, 0, 30), TS(1969, 12, 31, 23, 30)), -1)
eq("datediff minute", sf.datediff("minute", TS(2024, 1, 1, 0, 0, 59), TS(2024, 1, 1, 0, 1, 0)), 1)
eq("datediff second ignores fractions", sf.datediff("second", TS(2024, 1, 1, 0, 0, 0, 999000), TS(2024, 1, 1, 0, 0, 1)), 1)
eq("datediff millisecond", sf.datediff("ms", TS(2024, 1, 1, 0, 0, 0, 900), TS(2024, 1, 1, 0, 0, 0, 1000)), 1)
eq("datediff microsecond", sf.datediff("us", TS(2024, 1, 1), TS(2024, 1, 1, 0, 0, 1)), 1000000)
eq("datediff nanosecond", sf.datediff("ns", TS(2024, 1, 1), TS(2024, 1, 1, 0, 0, 0, 1)), 1000)
eq("datediff date vs timestamp", sf.datediff("hour", D(2024, 1, 1), TS(2024, 1, 2, 12, 0)), 36)
eq("datediff NULL", sf.datediff("day", None, D(2024, 1, 1)), None)

# ---- TO_DECIMAL / TO_NUMBER / TO_NUMERIC and casts (docs: default (38,0); rounding half away from zero) -------------
eq("to_decimal doc '12.3456' default scale 0", sf.to_decimal("12.3456"), Decimal("12"))
eq("to_decimal doc '12.3456', 10, 1", sf.to_decimal("12.3456", 10, 1), Decimal("12.3"))
eq("to_decimal doc '98.76546', 10, 1 (rounds)", sf.to_decimal("98.76546", 10, 1), Decimal("98.8"))
eq("to_decimal doc '12.3456', 10, 8", sf.to_decimal("12.3456", 10, 8), Decimal("12.34560000"))
eq("to_decimal 0.5 -> 1", sf.to_decimal("0.5"), Decimal("1"))
eq("to_decimal -0.5 -> -1", sf.to_decimal("-0.5"), Decimal("-1"))
eq("to_decimal 2.5 -> 3 (not banker's)", sf.to_decimal("2.5"), Decimal("3"))
eq("to_decimal -2.5 -> -3", sf.to_decimal(Decimal("-2.5")), Decimal("-3"))
eq("to_decimal 1.45 (2,1) -> 1.5", sf.to_decimal(Decimal("1.45"), 2, 1), Decimal("1.5"))
eq("to_decimal 12.345 (10,2) -> 12.35", sf.to_decimal(Decimal("12.345"), 10, 2), Decimal("12.35"))
eq("to_decimal 12.3449 (10,2) -> 12.34", sf.to_decimal("12.3449", 10, 2), Decimal("12.34"))
eq("to_decimal int", sf.to_decimal(12, 10, 2), Decimal("12.00"))
eq("to_decimal exponent", sf.to_decimal("1e3", 10, 0), Decimal("1000"))
eq("to_decimal NULL", sf.to_decimal(None), None)
eq("to_decimal fits exactly", sf.to_decimal("99999.4", 5, 0), Decimal("99999"))
raises("to_decimal rounds out of range", sf.SfError, sf.to_decimal, "99999.5", 5, 0)
raises("to_decimal too many digits", sf.SfError, sf.to_decimal, "123456", 5, 0)
raises("to_decimal (4,2) of 123.45", sf.SfError, sf.to_decimal, Decimal("123.45"), 4, 2)
raises("to_decimal not a number", sf.SfError, sf.to_decimal, "abc")
# precision limits: nothing may be rounded to the 28 digits of Python's default decimal context
eq("to_decimal 38 nines fit NUMBER(38,0)", sf.to_decimal("9" * 38, 38, 0), Decimal("9" * 38))
eq("to_decimal -38 nines", sf.to_decimal("-" + "9" * 38, 38, 0), Decimal("-" + "9" * 38))
raises("to_decimal 10**38 does not fit", sf.SfError, sf.to_decimal, "1" + "0" * 38, 38, 0)
eq("to_decimal 37 nines fit NUMBER(38,1)", sf.to_decimal("9" * 37, 38, 1), Decimal("9" * 37 + ".0"))
eq("to_decimal largest NUMBER(38,37)", sf.to_decimal("9." + "9" * 37, 38, 37), Decimal("9." + "9" * 37))
raises("to_decimal 10 does not fit NUMBER(38,37)", sf.SfError, sf.to_decimal, "10", 38, 37)
eq("to_decimal 2**63 fits NUMBER(19,0)", sf.to_decimal("9223372036854775808", 19, 0), Decimal(2**63))
eq("to_decimal largest NUMBER(19,0)", sf.to_decimal("9999999999999999999", 19, 0), Decimal(10**19 - 1))
raises("to_decimal 10**19 does not fit NUMBER(19,0)", sf.SfError, sf.to_decimal, "10000000000000000000", 19, 0)
eq("try_to_decimal 10**19 NUMBER(19,0)", sf.try_to_decimal("10000000000000000000", 19, 0), None)
eq("to_decimal 2**64+1 fits NUMBER(20,0)", sf.to_decimal(Decimal(2**64 + 1), 20, 0), Decimal(2**64 + 1))
raises("to_decimal 2**63 does not fit NUMBER(18,0)", sf.SfError, sf.to_decimal, "9223372036854775808", 18, 0)
eq("try_to_decimal not a number", sf.try_to_decimal("abc"), None)
eq("try_to_decimal out of range", sf.try_to_decimal("123456", 5, 0), None)
eq("try_to_decimal ok", sf.try_to_decimal("12.345", 10, 2), Decimal("12.35"))
raises("try_to_decimal numeric input", sf.NotDemanded, sf.try_to_decimal, Decimal("1.5"))
eq("float non-midpoint", sf.to_decimal(1.26, 3, 1), Decimal("1.3"))
raises("float midpoint not demanded", sf.NotDemanded, sf.to_decimal, 2.5)
eq("cast_float string", sf.cast_float("1e2"), 100.0)
eq("cast_float decimal", sf.cast_float(Decimal("1.5")), 1.5)

# ---- SHA2 (FIPS 180 test vectors for "abc") --------------------------------------------------------------------------
eq("sha2 default 256", sf.sha2_hex("abc"), "ba7816bf8f01cfea414140de5dae2223b00361a396177a9cb410ff61f20015ad")
eq("sha2 224", sf.sha2_hex("abc", 224), "23097d223405d8228642a477bda255b32aadbce4bda0b3f7e36c9da7")
eq("sha2 384", sf.sha2_hex("abc", 384)[:32], "cb00753f45a35e8bb5a03d699ac65007")
eq("sha2 512", sf.sha2_hex("abc", 512)[:32], "ddaf35a193617abacc417349ae204131")
eq("sha2 NULL", sf.sha2_hex(None), None)
eq("sha2_binary", sf.sha2_binary("abc")[:4], bytes.fromhex("ba7816bf"))
raises("sha2 invalid size", sf.SfError, sf.sha2_hex, "abc", 100)

# ---- EQUAL_NULL (docs truth table) -----------------------------------------------------------------------------------
eq("equal_null 1 1", sf.equal_null(1, 1), True)
eq("equal_null 1 2", sf.equal_null(1, 2), False)
eq("equal_null 1 NULL", sf.equal_null(1, None), False)
eq("equal_null NULL 1", sf.equal_null(None, 1), False)
eq("equal_null NULL NULL", sf.equal_null(None, None), True)

# ---- three-valued logic and operator contexts (SQL standard truth tables; Snowflake "Logical operators", "IN") ----------
eq("NULL AND FALSE", sf.sql_and(None, False), False)
eq("NULL AND TRUE", sf.sql_and(None, True), None)
eq("TRUE AND TRUE", sf.sql_and(True, True), True)
eq("NULL OR TRUE", sf.sql_or(None, True), True)
eq("NULL OR FALSE", sf.sql_or(None, False), None)
eq("FALSE OR FALSE", sf.sql_or(False, False), False)
eq("NOT NULL", sf.sql_not(None), None)
eq("NOT TRUE", sf.sql_not(True), False)
eq("1 = NULL", sf.sql_cmp("=", 1, None), None)
eq("1 < 2", sf.sql_cmp("<", 1, 2), True)
eq("1 IN (2, NULL)", sf.sql_in(1, [2, None]), None)
eq("1 IN (1, NULL)", sf.sql_in(1, [1, None]), True)
eq("1 IN (2)", sf.sql_in(1, [2]), False)
eq("NULL IN (1)", sf.sql_in(None, [1]), None)
eq("different bool", sf.different(False), True)
eq("different int", sf.different(3), 4)
eq("different str", sf.different("a"), "ax")
eq("different date", sf.different(D(2024, 2, 29)), D(2024, 3, 1))
_oc = {tpl: (val, k) for _f, tpl, val, k in sf.operator_contexts(False, "bool")}
# a call whose value is FALSE (EQUAL_NULL(1, 2)) as an operand
eq("F = FALSE", _oc["{F} = {V}"], (True, "bool"))
eq("F = TRUE", _oc["{F} = {W}"], (False, "bool"))
eq("F IS NULL", _oc["{F} IS NULL"], (False, "bool"))
eq("F IN (TRUE)", _oc["{F} IN ({W})"], (False, "bool"))
eq("F IN (TRUE, FALSE)", _oc["{F} IN ({W}, {V})"], (True, "bool"))
eq("NOT F", _oc["NOT {F}"], (True, "bool"))
eq("F OR TRUE", _oc["{F} OR TRUE"], (True, "bool"))
eq("F AND NULL", _oc["{F} AND NULL"], (False, "bool"))
eq("NULL OR F", _oc["NULL OR {F}"], (None, "bool"))
eq("F::VARCHAR", _oc["{F}::VARCHAR"], ("false", "str"))
eq("F = F", _oc["{F} = {F}"], (True, "bool"))
_oc = {tpl: (val, k) for _f, tpl, val, k in sf.operator_contexts(Decimal("12.35"), "num")}
eq("100 - F", _oc["100 - {F}"], (Decimal("87.65"), "num"))
eq("100 - F - 1", _oc["100 - {F} - 1"], (Decimal("86.65"), "num"))
eq("-F", _oc["-{F}"], (Decimal("-12.35"), "num"))
eq("F < V", _oc["{F} < {V}"], (False, "bool"))
eq("W >= F", _oc["{W} >= {F}"], (True, "bool"))
eq("F BETWEEN", _oc["{F} BETWEEN {V} AND {W}"], (True, "bool"))
eq("V BETWEEN W AND F", _oc["{V} BETWEEN {W} AND {F}"], (False, "bool"))
eq("NULLIF(F, V)", _oc["NULLIF({F}, {V})"], (None, "num"))
_oc = {tpl: (val, k) for _f, tpl, val, k in sf.operator_contexts("ab", "str")}
eq("'x' || F || 'y'", _oc["'x' || {F} || 'y'"], ("xaby", "str"))
_oc = {tpl: (val, k) for _f, tpl, val, k in sf.operator_contexts(D(2024, 2, 29), "date")}
eq("date + 1", _oc["{F} + 1"], (D(2024, 3, 1), "date"))
eq("date::TIMESTAMP_NTZ", _oc["{F}::TIMESTAMP_NTZ"], (TS(2024, 2, 29), "ts"))
_oc = {tpl: (val, k) for _f, tpl, val, k in sf.operator_contexts(None, "str")}
eq("NULL call IS NULL", _oc["{F} IS NULL"], (True, "bool"))
eq("NULL call = itself", _oc["{F} = {F}"], (None, "bool"))

print(f"test_c10: {N[0]} expectations, {len(FAIL)} failed")
for f in FAIL:
    print("  FAIL", f)
sys.exit(1 if FAIL else 0)
