#!/venv/bin/python
"""Self-test of the C20 reference splitter (mc/ref/argv_split.py) and of the C20 oracles.

1. hand-written expectations (argparse documentation: "-x VALUE", "--long VALUE", "--long=VALUE", "-xVALUE" are the
   four spellings of an option with one argument; an option-like token cannot be an option's value; "--" ends the
   options; launcher rule of `python [opts] (-m mod | script) args...`: everything after the target specification is
   the target's);
2. differential against argparse itself: a parser built here from the option table (not fakesnow's) must accept
   exactly fakesnow's part of every well-formed line with the same db_path/module/path, and must exit with a usage
   error on every malformed line, for all token sequences of length <= 4 over the check's alphabet plus extra tokens;
3. the oracles of checks/c20.py on synthetic observations: a correct outcome passes, each kind of wrong outcome fails.

exit 0 = all passed, 1 = some expectation failed.
"""
import argparse
import contextlib
import io
import itertools
import os
import sys

sys.path.insert(0, os.path.dirname(os.path.dirname(os.path.abspath(__file__))))

from mc.ref import argv_split as ref  # noqa: E402

FAILS = []


def expect(cond, msg):
    if not cond:
        FAILS.append(msg)
        print("FAIL:", msg)


# ---------------------------------------------------------------------------------------------------------------------
# 1. hand-written table: argv -> (status, db_paths, target, targs)
P, M = "path", "module"
TABLE = [
    ([], ("ok", (), None, ())),
    (["script.py"], ("ok", (), (P, "script.py"), ())),
    (["script.py", "a", "b"], ("ok", (), (P, "script.py"), ("a", "b"))),
    (["pytest", "-m", "integration"], ("ok", (), (P, "pytest"), ("-m", "integration"))),
    (["script.py", "-d", "q"], ("ok", (), (P, "script.py"), ("-d", "q"))),
    (["script.py", "--help"], ("ok", (), (P, "script.py"), ("--help",))),
    (["script.py", "--"], ("ok", (), (P, "script.py"), ("--",))),
    (["-m", "pytest"], ("ok", (), (M, "pytest"), ())),
    (["-m", "pytest", "-m", "integration"], ("ok", (), (M, "pytest"), ("-m", "integration"))),
    (["--module", "mod", "--", "x"], ("ok", (), (M, "mod"), ("--", "x"))),
    (["--module=mod", "a", "b"], ("ok", (), (M, "mod"), ("a", "b"))),
    (["--module=mod", "-d"], ("ok", (), (M, "mod"), ("-d",))),
    (["-mmod", "a"], ("ok", (), (M, "mod"), ("a",))),
    (["-mmod", "-m", "x"], ("ok", (), (M, "mod"), ("-m", "x"))),
    (["-d", "x"], ("ok", ("x",), None, ())),
    (["-d", "x", "s.py"], ("ok", ("x",), (P, "s.py"), ())),
    (["-d", "x", "s.py", "-d", "y"], ("ok", ("x",), (P, "s.py"), ("-d", "y"))),
    (["--db_path", "x", "s.py", "a"], ("ok", ("x",), (P, "s.py"), ("a",))),
    (["--db_path=x", "s.py", "a"], ("ok", ("x",), (P, "s.py"), ("a",))),
    (["-dx", "s.py", "a"], ("ok", ("x",), (P, "s.py"), ("a",))),
    (["-dx", "x", "s.py"], ("ok", ("x",), (P, "x"), ("s.py",))),
    (["-d", "databases/", "--module", "pytest", "-m", "integration"], ("ok", ("databases/",), (M, "pytest"), ("-m", "integration"))),
    (["--db_path", "x", "-m", "mod", "-m", "z"], ("ok", ("x",), (M, "mod"), ("-m", "z"))),
    (["-d", "x", "-dy", "--db_path=z", "s.py"], ("ok", ("x", "y", "z"), (P, "s.py"), ())),
    (["-d", "s.py", "a"], ("ok", ("s.py",), (P, "a"), ())),
    (["--db_path=", "s.py"], ("ok", ("",), (P, "s.py"), ())),
    (["--db_path=a=b", "s.py"], ("ok", ("a=b",), (P, "s.py"), ())),
    (["--", "s.py", "a"], ("ok", (), (P, "s.py"), ("a",))),
    (["-d", "x", "--", "s.py", "--", "b"], ("ok", ("x",), (P, "s.py"), ("--", "b"))),
    (["--"], ("ok", (), None, ())),
    (["-", "a"], ("ok", (), (P, "-"), ("a",))),
    (["-1", "a"], ("ok", (), (P, "-1"), ("a",))),
    (["--db", "x", "s.py"], ("ok", ("x",), (P, "s.py"), ())),  # unique abbreviation
    (["--mod=m", "a"], ("ok", (), (M, "m"), ("a",))),
    # malformed: usage error on fakesnow's own part
    (["-d"], ("malformed", (), None, ())),
    (["-m"], ("malformed", (), None, ())),
    (["--module"], ("malformed", (), None, ())),
    (["-d", "-m", "mod"], ("malformed", (), None, ())),
    (["-d", "--", "s.py"], ("malformed", (), None, ())),
    (["-m", "--flag"], ("malformed", (), None, ())),
    (["-m", "-dx"], ("malformed", (), None, ())),
    (["--flag", "s.py", "a"], ("malformed", (), None, ())),
    (["-x", "s.py"], ("malformed", (), None, ())),
    (["-d", "x", "--flag"], ("malformed", ("x",), None, ())),
    (["--help=1"], ("malformed", (), None, ())),
    # help
    (["-h"], ("help", (), None, ())),
    (["-d", "x", "--help", "s.py"], ("help", ("x",), None, ())),
    # unspecified
    (["--", "-m", "mod"], ("unspecified", (), None, ())),
    (["--", "--"], ("unspecified", (), None, ())),
    (["-d=x", "s.py"], ("unspecified", (), None, ())),
    (["-hd", "x"], ("unspecified", (), None, ())),
]


def test_table():
    for argv, (status, dbs, target, targs) in TABLE:
        p = ref.parse(argv)
        got = (p.status, p.db_paths, p.target, p.targs)
        expect(got == (status, dbs, target, targs), f"parse({argv}) = {got}, expected {(status, dbs, target, targs)}")
    # forms used by the classifier
    expect(ref.parse(["-d", "x", "--db_path", "y", "--db_path=z", "-dw", "s"]).opt_forms == ("-d V", "--db_path V", "--db_path=V", "-dV"), "opt_forms")
    expect(ref.parse(["-dx", "--", "s"]).opt_forms == ("-dV", "--"), "opt_forms with terminator")
    for argv, form in [(["s"], "path"), (["-m", "s"], "-m MOD"), (["--module", "s"], "--module MOD"), (["--module=s"], "--module=MOD"), (["-ms"], "-mMOD")]:
        expect(ref.parse(argv).target_form == form, f"target_form({argv})")
    expect(ref.parse(["-d", "x", "-d", "y", "s"]).db_path == "y", "last -d wins (store action)")
    expect(ref.parse(["s"]).db_path is None, "no -d -> None")
    # token kinds
    for tok, k in [("x", "A"), ("", "A"), ("-", "A"), ("-1", "A"), ("-1.5", "A"), ("--", "--"), ("-d", "O"), ("-dx", "O"), ("--db_path=x", "O"), ("--flag", "O"), ("-x", "O"), ("--db", "O"), ("-x y", "A"), ("--db_path=a b", "O")]:
        expect(ref.kind(tok) == k, f"kind({tok!r}) = {ref.kind(tok)!r}, expected {k!r}")
    # possible target specifications of a line (weak demand on malformed lines)
    specs = ref.target_specs(["--flag", "-m", "mod", "a"])
    expect((3, ("module", "mod")) in specs and (4, ("path", "a")) in specs and (3, ("path", "mod")) in specs, f"target_specs {specs}")
    expect((1, ("module", "mod")) in ref.target_specs(["-mmod", "a"]), "target_specs attached")


# ---------------------------------------------------------------------------------------------------------------------
# 2. differential against argparse (parser built from the option table, written here)
def table_parser():
    ap = argparse.ArgumentParser(prog="fakesnow")
    ap.add_argument("-d", "--db_path")
    ap.add_argument("-m", "--module")
    ap.add_argument("path", nargs="?")
    return ap


def ap_parse(ap, argv):
    buf = io.StringIO()
    try:
        with contextlib.redirect_stderr(buf), contextlib.redirect_stdout(buf):
            ns = ap.parse_args(list(argv))
        return ("ok", ns.db_path, ns.module, ns.path) + ((ns.no_create,) if hasattr(ns, "no_create") else ())
    except SystemExit as e:
        return ("exit", e.code)


def table_parser2():
    """the option table plus a value-less switch, as a parser might gain one"""
    ap = table_parser()
    ap.add_argument("-n", "--no_create", action="store_true")
    ap.add_argument("targs", nargs="*")
    return ap


def test_derived_table():
    from checks import c20

    t0 = ref.table_from_parser(table_parser())
    expect(t0.options == ref.DEFAULT_TABLE.options, f"table derived from the hand-written parser {t0.options}")
    expect(c20.TOKENS == c20.HAND_WRITTEN_TOKENS, f"alphabet from the hand-written table {c20.TOKENS}")
    t = ref.table_from_parser(table_parser2())
    sw = [o for o in t.options if o.dest == "no_create"]
    expect(len(sw) == 1 and sw[0].takes_value is False and sw[0].role == "own" and sw[0].strings == ("-n", "--no_create"), f"value-less switch {sw}")
    expect(t.positionals == ("path", "targs"), f"positionals {t.positionals}")
    toks = c20.tokens_for(t)
    expect("-n" in toks and "--no_create" in toks and len(toks) == len(c20.TOKENS) + 2, f"alphabet gains the new option {toks}")
    # hand-written expectations for a switch without value
    for argv, exp in [
        (["-n", "script.py", "a", "b"], ("ok", (("no_create", True),), (P, "script.py"), ("a", "b"))),
        (["--no_create", "script.py", "-m", "x"], ("ok", (("no_create", True),), (P, "script.py"), ("-m", "x"))),
        (["-n", "-m", "mod", "a"], ("ok", (("no_create", True),), (M, "mod"), ("a",))),
        (["-n", "-d", "x", "s.py"], ("ok", (("no_create", True), ("db_path", "x")), (P, "s.py"), ())),
        (["-d", "x", "-n", "s.py", "-n"], ("ok", (("db_path", "x"), ("no_create", True)), (P, "s.py"), ("-n",))),
        (["--no", "s.py"], ("ok", (("no_create", True),), (P, "s.py"), ())),
        (["-n"], ("ok", (("no_create", True),), None, ())),
        (["--no_create=1", "s.py"], ("malformed", (), None, ())),
        (["-d", "-n", "s.py"], ("malformed", (), None, ())),
        (["-nx", "s.py"], ("unspecified", (), None, ())),
        (["s.py", "-n"], ("ok", (), (P, "s.py"), ("-n",))),
    ]:
        p = ref.parse(argv, t)
        expect((p.status, p.opts, p.target, p.targs) == exp, f"parse({argv}) with a switch = {(p.status, p.opts, p.target, p.targs)}, expected {exp}")
    expect(ref.parse(["-n", "script.py", "a"], t).opt_forms == ("-n",) and c20.cli_shape(ref.parse(["-n", "script.py", "a"], t)) == "last-opt=-n,target=path,targs=n", "shape of a line with a switch")
    expect(ref.parse(["-n", "s"], ref.DEFAULT_TABLE).status == "malformed", "-n is unknown to today's table")
    nargs = argparse.ArgumentParser()
    nargs.add_argument("-o", "--opt", nargs="?")
    expect(ref.parse(["-o", "s"], ref.table_from_parser(nargs)).status == "unspecified", "nargs='?' is not modelled")
    # the constructed lines put every own-option spelling directly before every way of naming the target
    lines = set(c20.shaped_lines(t))
    for own in (["-n"], ["--no_create"], ["-d", "x"], ["--db_path", "x"], ["--db_path=x"], ["-dx"], []):
        for tgt in (["script.py"], ["-m", "mod"], ["--module", "mod"], ["--module=mod"], ["-mmod"], ["--", "script.py"]):
            for args in ([], ["a"], ["a", "b"], ["-m"], ["--"], ["-d"], ["-m", "x"], ["-n"]):
                expect(tuple(own + tgt + args) in lines, f"constructed lines lack {own + tgt + args}")
    expect(("-n", "-dx", "script.py", "a", "b") in lines and ("--db_path=x", "--no_create", "-m", "mod", "a") in lines, "ordered pairs of own options")
    # differential with argparse for the extended table
    ap = table_parser2()
    n = 0
    for k in range(0, 5):
        for argv in itertools.product(toks, repeat=k):
            p = ref.parse(argv, t)
            n += 1
            if p.status == "ok":
                own = argv[: len(argv) - len(p.targs)]
                got = ap_parse(ap, own)
                mod = p.target[1] if p.target and p.target[0] == "module" else None
                path = p.target[1] if p.target and p.target[0] == "path" else None
                want = ("ok", p.db_path, mod, path, any(d == "no_create" for d, _v in p.opts))
                if got != want:
                    expect(False, f"(switch table) argparse on {list(own)} of {list(argv)} gives {got}, reference {want}")
                    if len(FAILS) > 20:
                        return
            elif p.status == "malformed" and ap_parse(ap, argv) != ("exit", 2):
                expect(False, f"(switch table) argparse accepts {list(argv)} which the reference calls malformed: {p.why}")
                if len(FAILS) > 20:
                    return
    print(f"  compared {n} lines with argparse for a table with a value-less switch")
    # today's fakesnow against the hand-written table: a note, not a failure
    try:
        now = c20.cli_table()
        if now != ref.DEFAULT_TABLE:
            print("  NOTE: fakesnow.cli.arg_parser() differs from the hand-written table:", now.describe())
    except Exception as e:  # noqa: BLE001
        print("  NOTE: could not read fakesnow.cli.arg_parser():", e)


def test_against_argparse():
    from checks.c20 import TOKENS

    ap = table_parser()
    toks = TOKENS + ["--db", "-1", "-h"]
    n = 0
    counts = {}
    for k in range(0, 5):
        for argv in itertools.product(toks, repeat=k):
            p = ref.parse(argv)
            counts[p.status] = counts.get(p.status, 0) + 1
            n += 1
            if p.status == "ok":
                own = argv[: len(argv) - len(p.targs)]
                got = ap_parse(ap, own)
                mod = p.target[1] if p.target and p.target[0] == "module" else None
                path = p.target[1] if p.target and p.target[0] == "path" else None
                if got != ("ok", p.db_path, mod, path):
                    expect(False, f"argparse on fakesnow's part {list(own)} of {list(argv)} gives {got}, reference {(p.db_path, mod, path)}")
                    if len(FAILS) > 20:
                        return
            elif p.status == "malformed":
                got = ap_parse(ap, argv)
                # (a later -h makes argparse print help and exit 0 before it reports the error: still no run)
                if got != ("exit", 2) and not (got == ("exit", 0) and "-h" in argv):
                    expect(False, f"argparse accepts {list(argv)} ({got}) which the reference calls malformed: {p.why}")
                    if len(FAILS) > 20:
                        return
            elif p.status == "help":
                own = argv[: argv.index("-h") + 1]
                expect(ap_parse(ap, own) == ("exit", 0), f"help line {list(argv)}")
    print(f"  compared {n} lines with argparse: {counts}")
    expect(counts.get("ok", 0) > 1000 and counts.get("malformed", 0) > 1000, "differential is vacuous")


# ---------------------------------------------------------------------------------------------------------------------
# 3. oracles on synthetic observations
def failed(verdicts, clause=None):
    return sorted({c for c, _k, f, _d in verdicts if f and (clause is None or c == clause)})


def test_cli_oracle():
    from checks import c20

    def rec(kind, name, args, orig=False):
        return {"me": [kind, name], "argv": [name] + list(args), "name": "__main__", "connect_is_orig": orig, "wp_is_orig": orig}

    def out(records=(), end=("return", 0), calls=(None,), restored=(True, True)):
        return {"end": end, "records": list(records), "patch_calls": list(calls), "restored": restored}

    argv = ("--db_path=x", "script.py", "a")
    p = ref.parse(argv)
    expect(failed(c20.judge_cli(argv, p, out([rec(P, "script.py", ["a"])], calls=["x"]))) == [], "correct run must pass")
    expect(failed(c20.judge_cli(argv, p, out([rec(P, "script.py", [])], calls=["x"]))) == ["C20.cli.args"], "lost argument must fail")
    expect(failed(c20.judge_cli(argv, p, out([rec(P, "a", [])], calls=["x"]))) == ["C20.cli.args"], "wrong target must fail")
    expect(failed(c20.judge_cli(argv, p, out([], end=("sysexit", 2), calls=[]))) == ["C20.cli.args"], "usage error on a well-formed line must fail")
    expect(failed(c20.judge_cli(argv, p, out([rec(P, "script.py", ["a"])] * 2, calls=["x"]))) == ["C20.cli.args"], "running twice must fail")
    expect(failed(c20.judge_cli(argv, p, out([rec(P, "script.py", ["a"])], calls=[None]))) == ["C20.cli.db_path"], "db_path not passed on must fail")
    expect(failed(c20.judge_cli(argv, p, out([rec(P, "script.py", ["a"], orig=True)], calls=["x"]))) == ["C20.cli.fake_on"], "fake not switched on must fail")
    expect(failed(c20.judge_cli(argv, p, out([rec(P, "script.py", ["a"])], calls=["x"], restored=(False, True)))) == ["C20.cli.restored"], "not restored must fail")
    expect(c20.cli_shape(p) == "last-opt=--db_path=V,target=path,targs=n", c20.cli_shape(p))
    # module target: sys.argv[0] is not demanded
    argv = ("-m", "mod", "-m", "x")
    p = ref.parse(argv)
    r = rec(M, "mod", ["-m", "x"])
    r["argv"][0] = "/somewhere/mod.py"
    expect(failed(c20.judge_cli(argv, p, out([r]))) == [], "module run with full path in argv[0] must pass")
    # different -d values: either may win
    argv = ("-d", "a", "-dx", "script.py")
    p = ref.parse(argv)
    for v, ok in (("a", True), ("x", True), (None, False), ("script.py", False)):
        got = failed(c20.judge_cli(argv, p, out([rec(P, "script.py", [])], calls=[v])))
        expect((got == []) == ok, f"repeated -d, patch called with {v!r}: {got}")
    # option terminator: usage error or exact run accepted, anything else not
    argv = ("--", "script.py", "a")
    p = ref.parse(argv)
    expect(failed(c20.judge_cli(argv, p, out([], end=("sysexit", 2), calls=[]))) == [], "'-- path' rejected with usage error is accepted")
    expect(failed(c20.judge_cli(argv, p, out([rec(P, "script.py", ["a"])]))) == [], "'-- path a' run exactly is accepted")
    expect(failed(c20.judge_cli(argv, p, out([rec(P, "script.py", [])]))) == ["C20.cli.args"], "'-- path a' run without a fails")
    # no target / malformed
    p = ref.parse(("-d", "x"))
    expect(failed(c20.judge_cli(("-d", "x"), p, out([], end=("return", 42)))) == [], "no target, nothing run")
    expect(failed(c20.judge_cli(("-d", "x"), p, out([rec(P, "x", [])]))) == ["C20.cli.no_target"], "no target but something ran")
    argv = ("--flag", "script.py", "a")
    p = ref.parse(argv)
    expect(failed(c20.judge_cli(argv, p, out([], end=("sysexit", 2), calls=[]))) == [], "malformed rejected")
    expect(failed(c20.judge_cli(argv, p, out([rec(P, "script.py", ["a"])]))) == [], "malformed but ran the script with exactly what follows it: not demanded otherwise")
    expect(failed(c20.judge_cli(argv, p, out([rec(P, "script.py", [])]))) == ["C20.cli.malformed"], "malformed and ran with wrong arguments")
    # the target's own arguments include empty strings: they must arrive, in place (reference and oracle)
    argv = ("-d", "x", "-m", "mod", "", "--label", "", "last", "0", " ", "--")
    p = ref.parse(argv)
    expect(p.status == "ok" and p.target == (M, "mod") and p.targs == ("", "--label", "", "last", "0", " ", "--"), f"empty target arguments: {p}")
    expect(c20.cli_shape(p) == "target=module,targs=n-with-empty-string", c20.cli_shape(p))
    expect(failed(c20.judge_cli(argv, p, out([rec(M, "mod", p.targs)], calls=["x"]))) == [], "empty arguments handed on: pass")
    expect(failed(c20.judge_cli(argv, p, out([rec(M, "mod", [a for a in p.targs if a])], calls=["x"]))) == ["C20.cli.args"], "empty arguments dropped: fail")
    argv = ("script.py", "", "")
    p = ref.parse(argv)
    expect(p.target == (P, "script.py") and p.targs == ("", ""), f"only empty arguments: {p}")
    po = {"end": ("exit", 0), "records": [rec(P, "script.py", ["", ""])], "stderr_tail": ""}
    expect(failed(c20.judge_cli_process(argv, p, po)) == [], "process entry point, exact arguments: pass")
    po["records"] = [rec(P, "script.py", [""])]
    expect(failed(c20.judge_cli_process(argv, p, po)) == ["C20.cli.args"], "process entry point, one empty argument lost: fail")
    po["records"] = []
    expect(failed(c20.judge_cli_process(argv, p, po)) == ["C20.cli.args"], "process entry point, target did not run: fail")
    po["records"] = [rec(P, "script.py", ["", ""], orig=True)]
    expect(failed(c20.judge_cli_process(argv, p, po)) == ["C20.cli.fake_on"], "process entry point, fake off: fail")
    # every constructed line is well-formed and names a target; the target's arguments are the tail over TARG_TOKENS
    for tier in ("quick", "thorough"):
        lines = c20.proc_lines(ref.DEFAULT_TABLE, tier) + (c20.targ_lines(ref.DEFAULT_TABLE, tier) if tier == "quick" else [])
        for line in lines:
            q = ref.parse(line)
            if not (q.status == "ok" and q.target in ((P, "script.py"), (M, "mod")) and set(q.targs) <= set(c20.TARG_TOKENS)):
                expect(False, f"constructed line {line}: {q}")
                break
        expect(any("" in ref.parse(li).targs for li in lines), "constructed lines: empty string present")
        for fn in (c20.proc_lines, c20.targ_lines) if tier == "quick" else (c20.proc_lines,):
            li = fn(ref.DEFAULT_TABLE, tier)
            expect(len(set(li)) == len(li), f"{fn.__name__}: no duplicates")


def test_conns_oracle():
    from checks import c20

    def obs(conns, again=None, storage="db_path", seq=("block-thread", "new-thread"), **kw):
        o = {"block": "main-thread", "openers": list(seq), "exit": "normal", "storage": storage, "enter_raised": None,
             "opened": [("ok", "[(1,)]")] * len(seq), "exit_raised": None, "restored": (True, True), "conns": list(conns),
             "again": again if again is not None else {"enter": None, "select 1": "[(1,)]", "rows": "[(0,), (1,)]"}}  # fmt: skip
        o.update(kw)
        return o

    closed = "closed:snowflake.connector.errors.DatabaseError:250002"
    expect(failed(c20.judge_conns(obs([closed, closed]))) == [], "all closed, data there: pass")
    v = c20.judge_conns(obs([closed, "open"]))
    expect(failed(v) == ["C20.closed"], "connection of the new thread still open: fail")
    expect([k for c, k, f, _d in v if f] == ["opened-by=new-thread,exit=normal,storage=db_path"], "class names who opened it")
    expect(failed(c20.judge_conns(obs([closed, closed], again={"enter": None, "select 1": "[(1,)]", "rows": "[(0,)]"}))) == ["C20.closed.storage_reusable"], "committed row missing: fail")
    expect(failed(c20.judge_conns(obs([closed, closed], again={"enter": "duckdb.IOException"}))) == ["C20.closed.storage_reusable"], "cannot enter again: fail")
    expect(failed(c20.judge_conns(obs([closed, closed], storage="memory", again={"enter": None, "select 1": "[(1,)]"}))) == [], "memory: rows not demanded")
    expect(failed(c20.judge_conns(obs([closed, closed], restored=(False, True)))) == ["C20.restore_after_exit"], "not restored: fail")
    expect(failed(c20.judge_conns(obs([closed, closed], exit_raised="x.Y"))) == ["C20.exit_clean"], "exit raised: fail")
    for b in c20.CONN_BLOCK_THREADS:
        seqs = c20.conn_sequences(b, "quick")
        expect(len(seqs) == len(set(seqs)) == sum(len(c20.conn_openers(b)) ** k for k in (1, 2)), f"conn sequences {b}")
    expect(("new-thread",) in c20.conn_sequences("main-thread", "quick") and ("main-thread",) in c20.conn_sequences("worker-thread", "quick"), "other-thread openers present")


def test_patch_oracle():
    from checks import c20

    K = c20.KINDS
    N = len(K)

    def st(**over):
        """statuses of all watched attributes: pre-imported ones original, lazily imported modules absent, + overrides"""
        d = {k: ("absent" if k in c20.LAZY_KINDS else "orig") for k in K}
        for k, v in over.items():
            d[k.replace("_", "-").replace("write-pandas", "write_pandas")] = v
        return tuple(d[k] for k in K)

    def same(*changed):
        return tuple(k not in changed for k in K)

    clean = st()
    std = {"std_connect": "other", "std_write_pandas": "other"}
    inside = st(from_import_connect="other", **std)

    def j(pre, op, imp=None, **obs):
        obs.setdefault("before", clean)
        return c20.judge_patch(pre, op, dict(obs, op=list(op)), imp)

    start = c20.INITIAL
    expect(start == ((), ("absent",) * len(c20.LAZY_KINDS), (), "start"), f"INITIAL {start}")
    ok_func = {"std-connect": "ok", "std-write_pandas": "ok", "from-import-connect": "ok"}
    v = j(start, ("enter", "from-import-connect"), raised=None, status=inside, unchanged=(False,) * N, func=ok_func)
    expect(failed(v) == [], f"good enter {failed(v)}")
    v = j(start, ("enter", "from-import-connect"), raised=None, status=st(**std), unchanged=(False,) * N, func=dict(ok_func, **{"from-import-connect": "not-fake"}))
    expect(failed(v) == ["C20.inside"], "extra target not replaced must fail")
    v = j(start, ("enter", "from-import-connect"), raised=None, status=inside, unchanged=(False,) * N, func=dict(ok_func, **{"std-connect": "err:X"}))
    expect(failed(v) == ["C20.inside"], "fake that does not work must fail")
    v = j(start, ("enter", "none"), raised="builtins.AssertionError", status=clean, unchanged=(True,) * N)
    expect(failed(v) == ["C20.enter"], "valid target list refused must fail")
    v = j(start, ("enter", "nonexistent-attr"), raised="builtins.AssertionError", status=clean, unchanged=(True,) * N)
    expect(failed(v) == [], "failed set-up that restores everything passes")
    v = j(start, ("enter", "nonexistent-attr"), raised="builtins.AssertionError", status=st(**std), unchanged=same("std-connect", "std-write_pandas"))
    expect(failed(v) == ["C20.restore_after_failed_setup"], "failed set-up that leaves the mocks fails")
    v = j(start, ("enter", "nonexistent-attr"), raised=None, status=st(**std), unchanged=same("std-connect", "std-write_pandas"), func={"std-connect": "ok", "std-write_pandas": "ok"})
    expect(failed(v) == [], "accepting a non-resolvable target is not demanded to fail")
    opened = (("from-import-connect",), start[1], (), "-")
    v = j(opened, ("exit", "normal"), before=inside, exit_raised=None, status=clean, conn="closed:snowflake.connector.errors.DatabaseError:250002", tl="from-import-connect")
    expect(failed(v) == [], "good exit")
    v = j(opened, ("exit", "exception"), before=inside, exit_raised=None, status=st(from_import_connect="other"), conn="closed:x:1", tl="from-import-connect")
    expect(failed(v) == ["C20.restore_after_exit"], "extra target not restored")
    v = j(opened, ("exit", "normal"), before=inside, exit_raised=None, status=clean, conn="open", tl="from-import-connect")
    expect(failed(v) == ["C20.closed"], "connection still open")
    v = j(opened, ("exit", "normal"), before=inside, exit_raised="builtins.KeyError", status=clean, conn="closed:x:1", tl="from-import-connect")
    expect(failed(v) == ["C20.exit_clean"], "exit raising")
    v = j(opened, ("enter", "none"), before=inside, raised="builtins.AssertionError", status=inside, unchanged=(True,) * N, outer_conn="open")
    expect(failed(v) == [], "nested refused without damage")
    v = j(opened, ("enter", "none"), before=inside, raised=None, status=inside, unchanged=(False,) * N, func={"std-connect": "ok"})
    expect(failed(v) == ["C20.nested.refused"], "nested accepted")
    v = j(opened, ("enter", "none"), before=inside, raised="builtins.AssertionError", status=clean, unchanged=same("std-connect", "std-write_pandas", "from-import-connect"), outer_conn="open")
    expect(failed(v) == ["C20.nested.no_damage"], "nested refusal that unpatches the outer block")
    v = j(opened, ("enter", "none"), before=inside, raised="builtins.AssertionError", status=inside, unchanged=(True,) * N, outer_conn="closed:x:1")
    expect(failed(v) == ["C20.nested.no_damage"], "nested refusal that closes the outer instance")

    # aliased from-imports in a module patch() has to import itself
    la = {"unimported_aliased_connect": "other", "unimported_aliased_write_pandas": "other", "unimported_unaliased_beside_alias": "other"}
    in_la = st(**std, **la)
    f_la = {"std-connect": "ok", "std-write_pandas": "ok", "unimported-aliased-connect": "ok", "unimported-aliased-write_pandas": "ok"}
    v = j(start, ("enter", "unimported-aliased"), raised=None, status=in_la, unchanged=(False,) * N, func=f_la)
    expect(failed(v) == [] and any(k == "target=unimported-aliased-connect,imported-by=this-patch" for _c, k, _f, _d in v), f"first entry with aliased lazy targets {v}")
    imp = {}
    c20.note_imports(imp, ("enter", "unimported-aliased"), {"before": clean, "status": in_la})
    expect(imp == {"unimported-aliased-connect": True, "unimported-aliased-write_pandas": True, "unimported-unaliased-beside-alias": False}, f"note_imports {imp}")
    open_la = (("unimported-aliased",), in_la[c20.N_PRE :], (), "-")
    after_ok = st(unimported_aliased_connect="orig", unimported_aliased_write_pandas="orig", unimported_unaliased_beside_alias="other")
    v = j(open_la, ("exit", "normal"), imp, before=in_la, exit_raised=None, status=after_ok, conn="closed:x:1", tl="unimported-aliased")
    expect(failed(v) == [], "listed aliased targets restored; the unlisted name of that module is not this block's target")
    after_bad = st(unimported_aliased_connect="other", unimported_aliased_write_pandas="orig", unimported_unaliased_beside_alias="other")
    v = j(open_la, ("exit", "normal"), imp, before=in_la, exit_raised=None, status=after_bad, conn="closed:x:1", tl="unimported-aliased")
    bad = [(c, k) for c, k, f, _d in v if f]
    expect(bad == [("C20.restore_after_exit", "target=unimported-aliased-connect,exit=normal")], f"aliased lazy target left as mock {bad}")
    # second entry: a listed-then target has to be a working fake again; class names say who imported the module
    closed_la = ((), after_ok[c20.N_PRE :], (), "exit")
    v = j(closed_la, ("enter", "unimported-aliased"), imp, before=after_ok, raised=None, status=in_la, unchanged=(False,) * N, func=dict(f_la, **{"unimported-aliased-connect": "err:duckdb.ConnectionException"}))
    bad = [(c, k) for c, k, f, _d in v if f]
    expect(bad == [("C20.inside", "target=unimported-aliased-connect,imported-by=earlier-patch")], f"dead fake on re-entry {bad}")
    f_all = dict(f_la, **{"unimported-unaliased-beside-alias": "err:duckdb.ConnectionException"})
    v = j(closed_la, ("enter", "unimported-aliased+unaliased"), imp, before=after_ok, raised=None, status=in_la, unchanged=(False,) * N, func=f_all)
    bad = [(c, k) for c, k, f, _d in v if f]
    expect(bad == [("C20.inside", "target=unimported-module-attr:connect,imported-by=earlier-patch,not-listed-then")], f"unlisted sibling class {bad}")
    # the *name* connect bound to write_pandas has to be restored to write_pandas
    expect(c20.WATCHED[K.index("unimported2-write_pandas-named-connect")][1:] == ("c20h_lazy_alias2", "connect", "write_pandas"), "cross-named helper")
    expect("import write_pandas as connect" in c20.HELPER_SRC["c20h_lazy_alias2"] and "connect as sf_connect" in c20.HELPER_SRC["c20h_lazy_alias"], "helper sources alias the targets")
    # failed set-up: a listed attribute of a freshly imported module must not stay a mock; an unlisted one is not demanded here
    v = j(start, ("enter", "unimported-aliased+nonexistent-attr"), raised="builtins.AssertionError", status=st(unimported_aliased_connect="orig", unimported_aliased_write_pandas="other", unimported_unaliased_beside_alias="other"), unchanged=(True,) * N)
    expect(failed(v) == [], f"failed set-up, listed lazy target restored {failed(v)}")
    v = j(start, ("enter", "unimported-aliased+nonexistent-attr"), raised="builtins.AssertionError", status=st(**la), unchanged=(True,) * N)
    expect(failed(v) == ["C20.restore_after_failed_setup"], "failed set-up, listed lazy target left as mock")

    # only the block's own targets: an attribute that is not listed and was the original stays the original
    v = j(start, ("enter", "none"), raised=None, status=st(from_import_connect="other", **std), unchanged=same("std-connect", "std-write_pandas", "from-import-connect"), func={"std-connect": "ok", "std-write_pandas": "ok"})
    bad = [(c, k) for c, k, f, _d in v if f]
    expect(bad == [("C20.inside.only_own_targets", "not-listed=from-import-connect")], f"target of an earlier block patched again {bad}")
    v = j(start, ("enter", "unimported-aliased"), raised=None, status=in_la, unchanged=(False,) * N, func=f_la)
    expect(not any(c == "C20.inside.only_own_targets" and "unimported" in k for c, k, _f, _d in v), "names of a module imported by this very patch() are not judged by only_own_targets")
    # replay divergence is a verdict that names the operation and what differs
    t1 = [((), start[1], ("std-connect", "std-write_pandas"), "failed-setup"), ((), start[1], ("std-connect", "std-write_pandas"), "failed-setup")]
    t_ok = [((), start[1], (), "failed-setup"), (("none",), start[1], (), "-")]
    h = [("enter", "nonexistent-module"), ("enter", "none")]
    expect(c20.divergence(h, t_ok, t_ok) is None, "no divergence")
    d = c20.divergence(h, t_ok, t1)
    expect(d is not None and d[0] == "op=enter:nonexistent-module,differs=std-connect" and d[1]["step"] == 0, f"divergence leaked {d}")
    d = c20.divergence(h, t_ok, [t_ok[0], ((), start[1], (), "failed-setup")])
    expect(d is not None and d[0] == "op=enter:none,differs=open-blocks", f"divergence open blocks {d}")
    lz2 = st(unimported_module="other")[c20.N_PRE :]
    d = c20.divergence([("enter", "unimported-module")], [(("unimported-module",), lz2, (), "-")], [(("unimported-module",), start[1], (), "-")])
    expect(d is not None and d[0] == "op=enter:unimported-module,differs=unimported-module", f"divergence lazy {d}")
    # an exit with nothing open (possible only after a divergence) is skipped, not judged
    expect(c20.next_state(start, ("exit", "normal"), {"skipped": True, "status": clean}) == start, "skipped exit keeps the state")
    expect(c20.judge_patch(start, ("exit", "normal"), {"skipped": True, "status": clean, "before": clean}) == [], "skipped exit not judged")

    # state bookkeeping
    s1 = c20.next_state(start, ("enter", "unimported-module"), {"raised": None, "status": st(unimported_module="other", **std)})
    lz = lambda **o: st(**o)[c20.N_PRE :]  # noqa: E731
    expect(s1 == (("unimported-module",), lz(unimported_module="other"), (), "-"), f"next_state enter {s1}")
    s2 = c20.next_state(s1, ("exit", "normal"), {"status": st(unimported_module="other")})
    expect(s2 == ((), lz(unimported_module="other"), (), "exit"), f"next_state exit {s2}")
    s3 = c20.next_state(start, ("enter", "malformed"), {"raised": "builtins.ValueError", "status": st(**std)})
    expect(s3 == ((), lz(), ("std-connect", "std-write_pandas"), "failed-setup"), f"next_state leak {s3}")
    expect(c20.listed_kinds("tuple:both-from-imports") == ["from-import-connect", "from-import-write_pandas"], "listed_kinds")
    expect(c20.listed_kinds("unimported-two-modules-same-alias") == ["unimported-aliased-connect", "unimported2-aliased-connect"], "listed_kinds two modules")
    expect(set(c20.THOROUGH_ONLY) < set(c20.TARGET_LISTS) and "unimported-aliased" in c20.target_lists("quick"), "tier alphabets")


def test_enumeration():
    from checks import c20

    for tier in ("quick", "thorough"):
        seen = set()
        for it in c20.argv_items(tier, c20.TOKENS):
            if it[0] == "argv":
                seqs = c20.argv_block(it[1], it[2], c20.TOKENS)
            else:
                seqs = (s for k in range(0, it[1] + 1) for s in itertools.product(c20.TOKENS, repeat=k))
            for s in seqs:
                expect(s not in seen, f"{s} enumerated twice")
                seen.add(s)
            if tier == "thorough" and len(seen) > 60000:
                break  # the partition is the same construction; the full count is asserted by the check itself
        if tier == "quick":
            expect(len(seen) == c20.expected_argv_count(tier, c20.TOKENS), f"{tier}: {len(seen)} sequences, expected {c20.expected_argv_count(tier, c20.TOKENS)}")
            expect(max(map(len, seen)) == c20.MAX_LEN[tier] and () in seen, "length bounds")


if __name__ == "__main__":
    for t in (test_table, test_derived_table, test_against_argparse, test_cli_oracle, test_conns_oracle, test_patch_oracle, test_enumeration):
        print(t.__name__)
        t()
    print("FAILED" if FAILS else "ok", f"({len(FAILS)} failures)")
    sys.exit(1 if FAILS else 0)
