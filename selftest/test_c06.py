#!/venv/bin/python
"""Self-test of the C06 reference model (mc/ref/c06_model.py) and of the check's alphabet against hand-written
expectations.

Expectations come from the Snowflake documentation: "Python Connector API" (ResultMetadata, type codes:
FIXED 0, REAL 1, TEXT 2, DATE 3, TIMESTAMP 4, VARIANT 5, TIMESTAMP_LTZ 6, TIMESTAMP_TZ 7, TIMESTAMP_NTZ 8, OBJECT 9,
ARRAY 10, BINARY 11, TIME 12, BOOLEAN 13), the connector's data type mapping (FIXED scale 0 -> int, scale > 0 ->
Decimal, REAL -> float, TEXT -> str, DATE -> date, TIME -> time, TIMESTAMP_NTZ -> naive datetime, TIMESTAMP_TZ ->
aware datetime, BINARY -> bytes, BOOLEAN -> bool, VARIANT/OBJECT/ARRAY -> str holding JSON), "Summary of data types"
(INT.. = NUMBER(38,0), default precision of NUMBER = 38 / scale 0, default fractional seconds precision 9) and
"Identifier requirements" (unquoted identifiers fold to upper case, quoted are kept verbatim).  Nothing here runs
fakesnow: a wrong model fails here, not as a false alarm.

Run: /venv/bin/python selftest/test_c06.py   (exit 0 = all passed, 1 = a failure)
"""
from __future__ import annotations

import datetime as dt
import decimal
import os
import re
import sys
import uuid

sys.path.insert(0, os.path.dirname(os.path.dirname(os.path.abspath(__file__))))
from mc.ref import c06_model as M  # noqa: E402

D = decimal.Decimal
FAILS = []
N = [0]


def check(name, got, exp):
    N[0] += 1
    if got != exp:
        FAILS.append(f"{name}: expected {exp!r}, got {got!r}")


# ---- 1. type codes -----------------------------------------------------------------------------------------------------
def test_codes():
    exp = {"FIXED": 0, "REAL": 1, "TEXT": 2, "DATE": 3, "TIMESTAMP": 4, "VARIANT": 5, "TIMESTAMP_LTZ": 6, "TIMESTAMP_TZ": 7,
           "TIMESTAMP_NTZ": 8, "OBJECT": 9, "ARRAY": 10, "BINARY": 11, "TIME": 12, "BOOLEAN": 13}
    check("CODE table", M.CODE, exp)
    # cross-check with the installed connector's own table (not fakesnow)
    from snowflake.connector.constants import FIELD_NAME_TO_ID

    for k, v in exp.items():
        check(f"connector id of {k}", FIELD_NAME_TO_ID[k], v)
    check("code_name unknown", M.code_name(99), "?99")


# ---- 2. declared types ----------------------------------------------------------------------------------------------------
def test_declared():
    dm = M.declared_mismatch
    for n in ("INT", "INTEGER", "BIGINT", "SMALLINT", "TINYINT", "BYTEINT", "NUMBER", "DECIMAL", "NUMERIC", "NUMBER(38,0)"):
        check(f"{n} = FIXED(38,0)", dm(n, 0, 38, 0), set())
        check(f"{n} with scale 2", dm(n, 0, 38, 2), {"scale"})
        check(f"{n} as REAL", dm(n, 1, None, None), {"code"})
    check("NUMBER(20) = FIXED(20,0)", dm("NUMBER(20)", 0, 20, 0), set())
    check("NUMBER(20) reported 38", dm("NUMBER(20)", 0, 38, 0), {"precision"})
    check("NUMBER(10,2)", dm("NUMBER(10,2)", 0, 10, 2), set())
    check("NUMBER(10,2) swapped", dm("NUMBER(10,2)", 0, 2, 10), {"precision", "scale"})
    check("NUMBER(38,37)", dm("NUMBER(38,37)", 0, 38, 37), set())
    check("DECIMAL(10,2) scale 0", dm("DECIMAL(10,2)", 0, 10, 0), {"scale"})
    for n in ("FLOAT", "FLOAT4", "FLOAT8", "DOUBLE", "DOUBLE PRECISION", "REAL"):
        check(f"{n} = REAL", dm(n, 1, None, None), set())
        check(f"{n} as FIXED", dm(n, 0, 38, 0), {"code"})
    for n in ("VARCHAR", "VARCHAR(3)", "VARCHAR(300)", "STRING", "TEXT", "CHAR"):
        check(f"{n} = TEXT", dm(n, 2, None, None), set())
    check("DATE", dm("DATE", 3, None, None), set())
    check("DATE as NTZ", dm("DATE", 8, 0, 9), {"code"})
    check("TIME scale 9", dm("TIME", 12, 0, 9), set())
    check("TIME scale 0", dm("TIME", 12, 0, 0), {"scale"})
    for n in ("TIMESTAMP_NTZ", "TIMESTAMP", "DATETIME"):
        check(f"{n} = TIMESTAMP_NTZ(9)", dm(n, 8, 0, 9), set())
        check(f"{n} as TZ", dm(n, 7, 0, 9), {"code"})
        check(f"{n} scale 6", dm(n, 8, 0, 6), {"scale"})
    check("TIMESTAMP_TZ", dm("TIMESTAMP_TZ", 7, 0, 9), set())
    check("TIMESTAMP_TZ as NTZ", dm("TIMESTAMP_TZ", 8, 0, 9), {"code"})
    check("BINARY", dm("BINARY", 11, None, None), set())
    check("VARBINARY as TEXT", dm("VARBINARY", 2, None, None), {"code"})
    check("BOOLEAN", dm("BOOLEAN", 13, None, None), set())
    check("BOOLEAN as FIXED", dm("BOOLEAN", 0, 38, 0), {"code"})
    check("VARIANT", dm("VARIANT", 5, None, None), set())
    check("VARIANT as TEXT", dm("VARIANT", 2, None, None), {"code"})
    check("OBJECT as OBJECT", dm("OBJECT", 9, None, None), set())
    check("OBJECT as VARIANT tolerated", dm("OBJECT", 5, None, None), set())
    check("OBJECT as ARRAY", dm("OBJECT", 10, None, None), {"code"})
    check("ARRAY as ARRAY", dm("ARRAY", 10, None, None), set())
    check("ARRAY as VARIANT tolerated", dm("ARRAY", 5, None, None), set())
    check("ARRAY as TEXT", dm("ARRAY", 2, None, None), {"code"})
    check("every type of the property has a rule", all(M.declared_meta(t["sql"])["codes"] for t in M.TYPES), True)


# ---- 3. value <-> description ------------------------------------------------------------------------------------------------
def test_values():
    vc = M.value_consistency
    check("None under anything", [vc(None, c, None, None) for c in range(14)], [set()] * 14)
    check("int under FIXED(38,0)", vc(7, 0, 38, 0), set())
    check("int under FIXED(10,2)", vc(7, 0, 10, 2), {"scale"})
    check("int under FIXED scale None", vc(7, 0, None, None), {"scale", "precision"})
    check("int 12345 under FIXED(4,0)", vc(12345, 0, 4, 0), {"precision"})
    check("negative int digits", vc(-9999, 0, 4, 0), set())
    check("int under REAL", vc(7, 1, None, None), {"code"})
    check("int under TEXT", vc(1, 2, None, None), {"code"})
    check("2**64 under FIXED(38,0)", vc(2**64, 0, 38, 0), set())
    check("bool under BOOLEAN", vc(True, 13, None, None), set())
    check("bool under FIXED (bool is not an int here)", vc(True, 0, 38, 0), {"code"})
    check("int under BOOLEAN", vc(1, 13, None, None), {"code"})
    check("Decimal 1.50 under FIXED(10,2)", vc(D("1.50"), 0, 10, 2), set())
    check("Decimal 1.5 under FIXED(10,2) (one digit short)", vc(D("1.5"), 0, 10, 2), {"scale"})
    check("Decimal 1 under FIXED(38,0) (must be int)", vc(D("1"), 0, 38, 0), {"scale"})
    check("Decimal 1.50 under FIXED(2,2)", vc(D("1.50"), 0, 2, 2), {"precision"})
    check("Decimal under REAL", vc(D("1.5"), 1, None, None), {"code"})
    check("Decimal NaN", vc(D("NaN"), 0, 10, 2), {"value"})
    check("Decimal 0.00 under FIXED(3,2)", vc(D("0.00"), 0, 3, 2), set())
    check("float under REAL", vc(1.5, 1, None, None), set())
    check("float under FIXED", vc(1.5, 0, 38, 0), {"code"})
    check("nan under REAL", vc(float("nan"), 1, None, None), set())
    check("str under TEXT", vc("a", 2, None, None), set())
    check("str under FIXED", vc("1", 0, 38, 0), {"code"})
    check("JSON str under VARIANT", vc('{"a": 1}', 5, None, None), set())
    check("JSON scalar under VARIANT", vc("1", 5, None, None), set())
    check("non-JSON str under VARIANT", vc("a b", 5, None, None), {"value"})
    check("JSON object under OBJECT", vc('{"a": 1}', 9, None, None), set())
    check("JSON array under OBJECT", vc("[1]", 9, None, None), {"value"})
    check("JSON array under ARRAY", vc("[1]", 10, None, None), set())
    check("JSON object under ARRAY", vc("{}", 10, None, None), {"value"})
    check("list under ARRAY tolerated", vc([1], 10, None, None), set())
    check("list under TEXT", vc([1], 2, None, None), {"code"})
    check("dict under OBJECT tolerated", vc({"a": 1}, 9, None, None), set())
    check("dict under ARRAY", vc({"a": 1}, 10, None, None), {"code"})
    check("bytes under BINARY", vc(b"\x00", 11, None, None), set())
    check("bytearray under BINARY", vc(bytearray(b"a"), 11, None, None), set())
    check("bytes under TEXT", vc(b"a", 2, None, None), {"code"})
    check("date under DATE", vc(dt.date(2020, 1, 2), 3, None, None), set())
    check("date under NTZ", vc(dt.date(2020, 1, 2), 8, 0, 9), {"code"})
    check("datetime under DATE (datetime is not a date here)", vc(dt.datetime(2020, 1, 2), 3, None, None), {"code"})
    check("naive datetime under NTZ", vc(dt.datetime(2020, 1, 2), 8, 0, 9), set())
    check("naive datetime under TZ", vc(dt.datetime(2020, 1, 2), 7, 0, 9), {"code"})
    aware = dt.datetime(2020, 1, 2, tzinfo=dt.timezone.utc)
    check("aware datetime under TZ", vc(aware, 7, 0, 9), set())
    check("aware datetime under LTZ", vc(aware, 6, 0, 9), set())
    check("aware datetime under NTZ", vc(aware, 8, 0, 9), {"code"})
    check("time under TIME", vc(dt.time(1, 2, 3), 12, 0, 9), set())
    check("time under NTZ", vc(dt.time(1, 2, 3), 8, 0, 9), {"code"})
    check("UUID object", vc(uuid.UUID(int=1), 2, None, None), {"pytype"})
    check("unknown code", vc(1, 99, None, None), {"code"})
    check("pytype names", [M.pytype(x) for x in (None, True, 1, 1.0, D(1), "s", b"", dt.date(1, 1, 1), dt.datetime(1, 1, 1), aware, dt.time())],
          ["None", "bool", "int", "float", "Decimal", "str", "bytes", "date", "datetime_naive", "datetime_aware", "time"])


# ---- 4. names ----------------------------------------------------------------------------------------------------------------------
def test_names():
    check("fold unquoted", M.fold("abc"), "ABC")
    check("fold mixed", M.fold("aBc_1"), "ABC_1")
    check("fold quoted", M.fold('"aBc"'), "aBc")
    check("fold quoted with space", M.fold('"with space"'), "with space")
    check("fold doubled quote", M.fold('"a""b"'), 'a"b')
    sn = M.select_names
    check("aliases", sn([("1", "x"), ("2", '"y"'), ("3", "MiXed")]), ["X", "y", "MIXED"])
    check("column references", sn([("a", None), ("t.b", None), ("db1.s1.t.c", None), ('"q"', None)]), ["A", "B", "C", "q"])
    check("expressions are not named by the model", sn([("a + 1", None), ("count(*)", None), ("1", None), ("'a'", None), ("$v", None)]),
          [None, None, None, None, None])
    check("keywords are not columns", sn([("null", None), ("true", None), ("current_date", None)]), [None, None, None])
    check("alias wins over column", sn([("a", "k")]), ["K"])
    check("dict keys unique", M.dict_keys_of(["A", "B"]), ["A", "B"])
    check("dict keys repeated", M.dict_keys_of(["A", "B", "A", "B"]), ["A", "B"])
    check("dict keys repeated case differs", M.dict_keys_of(["A", "a", "A"]), ["A", "a"])


# ---- 5. fetch state: description is the identity -----------------------------------------------------------------------------
def test_fetch_model():
    rows = [(1,), (2,), (3,)]
    m = M.FetchModel(rows)
    check("key before", m.key(), "before")
    m.description()
    check("description keeps position", (m.pos, m.rows), (0, rows))
    check("fetchone", m.fetchone(), (1,))
    check("key mid", m.key(), "mid")
    m.description()
    check("description mid keeps position", m.pos, 1)
    check("fetchall rest", m.fetchall(), [(2,), (3,)])
    check("key exhausted", m.key(), "exhausted")
    check("fetchone after exhaustion", m.fetchone(), None)
    check("fetchall after exhaustion", m.fetchall(), [])
    m.description()
    check("still exhausted", m.key(), "exhausted")
    e = M.FetchModel([])
    check("empty result is exhausted at once", e.key(), "before")
    check("empty fetchone", e.fetchone(), None)
    check("empty then exhausted", e.key(), "exhausted")
    one = M.FetchModel([(1,)])
    one.fetchone()
    check("one row: after fetchone exhausted", one.key(), "exhausted")


# ---- 6. the alphabet of the check (no fakesnow involved: only how the statements are written) --------------------------------
def test_alphabet():
    import checks.c06 as C

    sts = C.STATEMENTS
    check("unique ids", len({s["sid"] for s in sts}), len(sts))
    quick = C.statements("quick")
    check("quick is a subset", all(s in sts for s in quick), True)
    check("quick has every kind", {s["kind"] for s in quick}, {s["kind"] for s in sts})
    # (the bind product has thorough-only parameter styles: test_binds)
    check("quick has every class of the hand-written statements", {s["cls"] for s in quick if s["kind"] not in ("typed", "bind")},
          {s["cls"] for s in sts if s["kind"] not in ("typed", "bind")})
    check("quick has every form of the product", {s["cls"].split(":")[1] for s in quick if s["kind"] == "typed"}, {f[0] for f in C.FORMS})
    check("quick has a scale-0 integer synonym, a NUMBER(p,0), a scaled NUMBER, a float", {"INT", "NUMBER(10,0)", "NUMBER(10,2)", "FLOAT"} <= set(C.QUICK_TYPES), True)
    check("at least 250 hand-written statements", len([s for s in sts if s["kind"] != "typed"]) >= 250, True)
    kinds = {s["kind"] for s in sts}
    for k in ("query", "typed", "seeded", "dml", "ddl", "use", "tx", "intx", "var", "show", "nop", "param"):
        check(f"kind {k} present", k in kinds, True)
    # every declared type of the property statement occurs in the product, and in SELECT *
    star = C.BY_SID["star_ty"]
    check("star_ty declares every type", star["decl"][1:], [t["sql"] for t in M.TYPES])
    check("star_ty names", star["names"][:3], ["ID", "C0", "C1"])
    for i, t in enumerate(M.TYPES):
        check(f"product has col form for {t['sql']}", f"ty_col_{i}" in C.BY_SID, True)
    check("sum only over numeric families", {C.tgroup(M.TYPES[int(s['sid'].split('_')[-1])]) for s in sts if s["sid"].startswith("ty_sum_")},
          {"int_synonym", "number_default", "number_p_0", "fixedS", "float"})
    # model names / counts of a few statements, by hand
    check("names lit_quoted_alias", C.BY_SID["lit_quoted_alias"]["names"], ["lower", "UP", "MIXED", "with space"])
    check("names cols_qualified", C.BY_SID["cols_qualified"]["names"], ["A", "B"])
    check("names join", C.BY_SID["star_join_dup"]["names"], ["A", "B", "A", "B"])
    check("ncols agg_unaliased", (C.BY_SID["agg_unaliased"]["ncols"], C.BY_SID["agg_unaliased"]["names"]), (2, [None, None]))
    check("is_query select", C.BY_SID["star_t"]["is_query"], True)
    check("is_query with", C.BY_SID["cte_agg"]["is_query"], True)
    check("is_query insert", C.BY_SID["dml_insert_1"]["is_query"], False)
    check("is_query show", C.BY_SID["show_tables"]["is_query"], False)
    check("is_query begin", C.BY_SID["tx_begin"]["is_query"], False)
    check("state changing statements are not shared", [s["sid"] for s in sts if s["pure"] and s["kind"] in ("dml", "ddl", "use", "tx", "intx", "var")], [])
    check("no state changing statement needs ty / j", [s["sid"] for s in sts if not s["pure"] and re.search(r"\b(ty|j)\b", s["sql"])], [])
    check("tgroup INT", C.tgroup(M.TYPE_BY_NAME["INT"]), "int_synonym")
    check("tgroup NUMBER", C.tgroup(M.TYPE_BY_NAME["NUMBER"]), "number_default")
    check("tgroup NUMBER(10,0)", C.tgroup(M.TYPE_BY_NAME["NUMBER(10,0)"]), "number_p_0")
    check("tgroup OBJECT", C.tgroup(M.TYPE_BY_NAME["OBJECT"]), "object")
    # rows comparison helper
    check("rows equal", C._rows_equal([(1, "a")], [(1, "a")], False), True)
    check("rows differ in type", C._rows_equal([(1,)], [(1.0,)], False), False)
    check("rows differ in bool/int", C._rows_equal([(1,)], [(True,)], False), False)
    check("rows differ in count", C._rows_equal([(1,)], [(1,), (2,)], False), False)
    check("volatile rows compare types", C._rows_equal([("x",)], [("y",)], True), True)
    check("volatile rows still compare types", C._rows_equal([("x",)], [(1,)], True), False)
    check("nan equals nan", C._rows_equal([(float("nan"),)], [(float("nan"),)], False), True)


# ---- 7. histories (same text re-executed / caller mutates its parameters): how they are written -------------------------------
def test_histories():
    import checks.c06 as C

    hs = C.HISTORIES
    check("unique history ids", len({h["hid"] for h in hs}), len(hs))
    check("at least 60 histories", len(hs) >= 60, True)
    forms = {h["cls"] for h in hs}
    for f in ("hist:params_retype", "hist:use_schema", "hist:use_database", "hist:variable", "hist:alter_add_column", "hist:alter_drop_column",
              "hist:alter_rename_column", "hist:replace_table", "hist:replace_view", "hist:mutate_params", "hist:mutate_params_dml",
              "hist:mutate_params_pyformat", "hist:mutate_params_describe", "hist:params_retype_describe", "hist:use_schema_describe"):
        check(f"history class {f}", f in forms, True)
    for h in hs:
        execs = [s for s in h["steps"] if s[0] in ("x", "x-", "d")]
        check(f"{h['hid']}: ends on the cursor under test", h["steps"][-1][0] in ("x", "x-", "d", "mut"), True)
        if h["cls"].startswith(("hist:params_retype", "hist:use_", "hist:alter_", "hist:replace_", "hist:variable")):
            # the point of these: the final statement text was executed / described before on the same cursor
            check(f"{h['hid']}: same text twice", sum(1 for s in execs if s[1] == execs[-1][1]) >= 2, True)
        if h["cls"].startswith("hist:mutate_"):
            check(f"{h['hid']}: has a mutation after an execute", any(s[0] == "mut" for s in h["steps"]) and h["steps"][0][0] != "mut", True)
            muted = [s for s in execs if s[0] != "d"][-1][2]
            check(f"{h['hid']}: mutable parameter object", isinstance(muted, (list, dict)), True)
        if h["names"]:
            check(f"{h['hid']}: ncols", h["ncols"], len(h["names"]))
        if h["decl"]:
            check(f"{h['hid']}: decl per column", len(h["decl"]), len(h["names"]))
    # the model's expectation of a few final statements, by hand (FIXTURE_HIST: s2.t (a varchar, b number(10,2), c int); db2.s1.t (x float))
    check("use_schema expectation", (C.BY_HID["use_schema_x-"]["names"], C.BY_HID["use_schema_x-"]["decl"]), (["A", "B", "C"], ["VARCHAR", "NUMBER(10,2)", "INT"]))
    check("use_database expectation", (C.BY_HID["use_database_x-"]["names"], C.BY_HID["use_database_x-"]["decl"]), (["X"], ["FLOAT"]))
    check("add_column expectation", C.BY_HID["add_column_o"]["names"], ["A", "B", "C"])
    check("rename_column expectation", C.BY_HID["rename_column_o"]["names"], ["A", "C"])
    check("fixture tables match", [q for q in C.FIXTURE_HIST if q.startswith("create table")],
          ["create table s2.t (a varchar, b number(10,2), c int)", "create table db2.s1.t (x float)"])
    # every way the intermediate statement is executed occurs
    check("intermediate on same cursor unread / read / other cursor", {h["steps"][1][0] for h in hs if h["cls"] == "hist:use_schema" and len(h["steps"]) == 3} >= {"x-", "x", "o"}, True)
    # mutation operator
    for op, start, exp in [(("mut", "set0", "one"), [1], ["one"]), (("mut", "append", 2), [1], [1, 2]), (("mut", "pop"), [1], []), (("mut", "clear"), [1, 2], []),
                           (("mut", "setkey", "v", "one"), {"v": 1}, {"v": "one"}), (("mut", "clear"), {"v": 1}, {})]:
        C._apply_mut(start, op)
        check(f"mutation {op}", start, exp)
    ops = {s[1] for h in hs for s in h["steps"] if s[0] == "mut"}
    check("mutation operators used", ops, {"set0", "setkey", "append", "pop", "clear"})


# ---- 8. zero / identity values and exact Python types -------------------------------------------------------------------------------
def test_zero_values():
    import checks.c06 as C

    vc = M.value_consistency
    check("int 0 under FIXED(38,0)", vc(0, 0, 38, 0), set())
    check("Decimal('0') under FIXED(38,0): equal to 0 but not an int", vc(D("0"), 0, 38, 0), {"scale"})
    check("Decimal('0') == 0 (why == is useless here)", D("0") == 0 and hash(D("0")) == hash(0), True)
    check("Decimal('0.00') under FIXED(10,2)", vc(D("0.00"), 0, 10, 2), set())
    check("Decimal('0') under FIXED(10,2): scale lost", vc(D("0"), 0, 10, 2), {"scale"})
    check("int 0 under FIXED(10,2)", vc(0, 0, 10, 2), {"scale"})
    check("Decimal('0E-37') under FIXED(38,37)", vc(D("0E-37"), 0, 38, 37), set())
    check("0.0 under REAL", vc(0.0, 1, None, None), set())
    check("0.0 under FIXED", vc(0.0, 0, 38, 0), {"code"})
    check("0 under REAL", vc(0, 1, None, None), {"code"})
    check("False under BOOLEAN", vc(False, 13, None, None), set())
    check("0 under BOOLEAN", vc(0, 13, None, None), {"code"})
    check("False under FIXED", vc(False, 0, 38, 0), {"code"})
    check("'' under TEXT", vc("", 2, None, None), set())
    check("'' under VARIANT is not JSON", vc("", 5, None, None), {"value"})
    check("b'' under BINARY", vc(b"", 11, None, None), set())
    check("epoch date", vc(dt.date(1970, 1, 1), 3, None, None), set())
    check("midnight", vc(dt.time(0, 0), 12, 0, 9), set())
    check("epoch ntz", vc(dt.datetime(1970, 1, 1), 8, 0, 9), set())
    check("'[]' under ARRAY", vc("[]", 10, None, None), set())
    check("'{}' under OBJECT", vc("{}", 9, None, None), set())
    check("'0' under VARIANT", vc("0", 5, None, None), set())

    class MyInt(int):
        pass

    class MyStr(str):
        pass

    check("int subclass is not an int", (M.pytype(MyInt(0)), vc(MyInt(0), 0, 38, 0)), ("MyInt", {"pytype"}))
    check("str subclass is not a str", M.pytype(MyStr("")), "MyStr")
    check("rows: Decimal 0 vs int 0", C._rows_equal([(D("0"),)], [(0,)], False), False)
    check("rows: False vs 0", C._rows_equal([(False,)], [(0,)], False), False)
    check("rows: 0.0 vs 0", C._rows_equal([(0.0,)], [(0,)], False), False)
    check("rows: 0 vs 0", C._rows_equal([(0,)], [(0,)], False), True)
    # the fixture holds each type's zero: row 3 of ty, row 2 of z
    fams = {t["family"] for t in M.TYPES} - {"json"}
    check("a zero literal per family", set(C._LIT0), fams)
    check("a zero document per json kind", set(C._JLIT0), {"any", "object", "array"})
    row3 = [q for q in C.FIXTURE_TY if q.startswith("insert into ty select 3,")]
    check("ty row 3 is the zero row", row3, ["insert into ty select 3, " + ", ".join(C._lit0(t) for t in M.TYPES)])
    check("z has a zero row", any(q.startswith("insert into z select 2, 0, 0.00, 0.0, '', false") for q in C.FIXTURE_TY), True)
    check("declared NUMBER(12,0)", M.declared_mismatch("NUMBER(12,0)", 0, 12, 0), set())
    check("declared NUMBER(12,2) scale", M.declared_mismatch("NUMBER(12,2)", 0, 12, 0), {"scale"})
    forms = {s["cls"] for s in C.statements("quick")}
    for f in ("query:zero_literal", "query:zero_expression", "query:zero_table", "typed:sum_zero:int_synonym", "typed:sum_zero:number_p_0",
              "typed:zero_row:number_p_0", "typed:zero_row:fixedS", "typed:count_null:text"):
        check(f"quick has {f}", f in forms, True)
    zero_counters = [s["sid"] for s in C.STATEMENTS if s["sid"] in ("dml_merge_insert_0", "dml_merge_update_0", "dml_update_0", "dml_delete_0", "dml_insert_select_0")]
    check("status counters of 0", len(zero_counters), 5)


# ---- 9. statement kind x parameter style, and what the cursor executes next -----------------------------------------------------------
def test_binds():
    import checks.c06 as C

    binds = [s for s in C.STATEMENTS if s["kind"] == "bind"]
    quick = [s for s in C.statements("quick") if s["kind"] == "bind"]
    skinds = {b[0] for b in C.BIND_STATEMENTS}
    for k in ("select", "ctas", "create_view", "insert", "update", "delete", "merge"):
        check(f"bind statement kind {k}", k in skinds, True)
    styles = [b[0] for b in C.BIND_STYLES]
    check("parameter styles", styles, ["pyformat", "pyformat_named", "format", "qmark", "qmark_list"])
    check("complete product kind x style", len([s for s in binds if not s["many"]]), len(C.BIND_STATEMENTS) * len(C.BIND_STYLES))
    check("quick: every statement kind under every quick style", {s["cls"] for s in quick if not s["many"]},
          {f"bind:{st}:{k}" for st in C.QUICK_BIND_STYLES for k in skinds})
    check("quick styles bind client-side, named and server-side", set(C.QUICK_BIND_STYLES), {"pyformat", "pyformat_named", "qmark"})
    check("quick: executemany under both mechanisms", {s["cls"].split(":")[1] for s in quick if s["many"]}, {"pyformat", "qmark"})
    # how a template is filled
    check("fill qmark", C._fill("update t set b = {p} where a = {p}", lambda i: "?"), "update t set b = ? where a = ?")
    check("fill named", C._fill("update t set b = {p} where a = {p}", lambda i: f"%(p{i})s"), "update t set b = %(p0)s where a = %(p1)s")
    check("fill none", C._fill("truncate table t", lambda i: "?"), "truncate table t")
    for s in binds:
        n = len(re.findall(r"\?|%s|%\(p\d+\)s", s["sql"]))
        sets = s["params"] if s["many"] else [s["params"]]
        check(f"{s['sid']}: one value per placeholder", {len(p) for p in sets}, {n})
        check(f"{s['sid']}: at least one bind", n >= 1, True)
        check(f"{s['sid']}: shared fixture only for queries", s["pure"], s["is_query"])
        if s["names"]:
            check(f"{s['sid']}: ncols", s["ncols"], len(s["names"]))
    b = C.BY_SID["bind_pyformat_named_merge_upsert"]
    check("named parameters", (sorted(b["params"]), "%(p0)s" in b["sql"] and "%(p1)s" in b["sql"]), (["p0", "p1"], True))
    check("qmark_list hands over a list", type(C._params(C.BY_SID["bind_qmark_list_ctas_item"])), list)
    check("the caller's object is a copy", C._params(C.BY_SID["bind_qmark_list_ctas_item"]) is not C.BY_SID["bind_qmark_list_ctas_item"]["params"], True)
    check("executemany: a sequence of parameter sets", C._params(C.BY_SID["bindmany_qmark_insert_values"]), [(7, "q"), (8, "r"), (9, "s")])
    check("model names of a bound select", (C.BY_SID["bind_qmark_select_item_where"]["names"], C.BY_SID["bind_qmark_select_item_where"]["decl"]), (["A", "P"], ["INT", None]))
    # histories: next statement after a bound one / bound statement after a query
    hs = [h for h in C.HISTORIES if h["cls"].startswith(("hist:next_after_bound:", "hist:bound_after_query:"))]
    hk = {k for k, _, _ in C.HIST_BOUND}
    check("history statement kinds", hk, {"select", "ctas", "insert", "update", "delete", "merge"})
    check("next_after_bound: style x kind", {h["cls"] for h in hs if "next_after" in h["cls"]}, {f"hist:next_after_bound:{st}:{k}" for st in ("pyformat", "qmark") for k in hk})
    check("bound_after_query: style x kind", {h["cls"] for h in hs if "bound_after" in h["cls"]}, {f"hist:bound_after_query:{st}:{k}" for st in ("pyformat", "qmark") for k in hk})
    for h in hs:
        first, last = h["steps"][0], h["steps"][-1]
        check(f"{h['hid']}: two statements, the last one read", (len(h["steps"]), last[0]), (2, "x"))
        bound = first if "next_after" in h["cls"] else last
        check(f"{h['hid']}: the bound statement has values", bool(bound[2]), True)
        check(f"{h['hid']}: placeholders of the style only", ("?" in bound[1], "%s" in bound[1]), (h["style"] == "qmark", h["style"] == "pyformat"))
        if "next_after" in h["cls"]:
            check(f"{h['hid']}: another number of binds next", len(last[2] or ()) != len(first[2]), True)
    check("the first statement read and unread", {h["steps"][0][0] for h in hs if "next_after" in h["cls"]}, {"x", "x-"})
    check("next: query expectation", (C.BY_HID["next_qmark_ctas_select_x-"]["names"], C.BY_HID["next_qmark_ctas_select_x-"]["decl"]), (["A", "B"], ["INT", "VARCHAR"]))
    check("next: status row has no model names", C.BY_HID["next_qmark_ctas_status_x"]["names"], None)
    check("statements executed twice can be", [t for _, t, _ in C.HIST_BOUND if t.startswith("create table")], [])


def main():
    for f in (test_codes, test_declared, test_values, test_names, test_fetch_model, test_alphabet, test_histories, test_zero_values, test_binds):
        f()
    if FAILS:
        print(f"FAILED {len(FAILS)} of {N[0]} checks")
        for x in FAILS:
            print("  " + x)
        return 1
    print(f"ok: {N[0]} checks")
    return 0


if __name__ == "__main__":
    sys.exit(main())
