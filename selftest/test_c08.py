#!/venv/bin/python
"""Self-test of the C08 reference model (no fakesnow involved): the Snowflake constant renderer / reader, the LIKE
evaluator, the value comparison, the expected-outcome model, the statement builders and the classifier are checked
against hand-written expectations taken from the Snowflake documentation and SQL semantics.

    /venv/bin/python selftest/test_c08.py      exit 0 = all good, 1 = a reference component is wrong
"""
import datetime
import decimal
import os
import sys

sys.path.insert(0, os.path.dirname(os.path.dirname(os.path.abspath(__file__))))

from checks import c08  # noqa: E402
from mc.ref import sf_literal as L  # noqa: E402

D = decimal.Decimal
FAILS = []
N = [0]


def check(name, got, want):
    N[0] += 1
    if got != want or type(got) is not type(want):
        FAILS.append(f"{name}: got {got!r}, want {want!r}")


def raises(name, fn, exc):
    N[0] += 1
    try:
        fn()
    except exc:
        return
    except Exception as e:  # noqa: BLE001
        FAILS.append(f"{name}: raised {type(e).__name__}, want {exc.__name__}")
        return
    FAILS.append(f"{name}: did not raise")


# ---- 1. reader against the examples of the Snowflake documentation ("String constants" / escape sequences) ----------
# SELECT $1, $2 FROM VALUES ('Tab','Hello\tWorld'), ('Newline','Hello\nWorld'), ('Backslash','C:\\user'),
#   ('Octal','-\041-'), ('Hexadecimal','-\x21-'), ('Unicode','-\u26c4-'), ('Not an escape sequence', '\z');
DOC = [
    (r"'Hello\tWorld'", "Hello\tWorld"),
    (r"'Hello\nWorld'", "Hello\nWorld"),
    (r"'C:\\user'", "C:\\user"),
    (r"'-\041-'", "-!-"),
    (r"'-\x21-'", "-!-"),
    (r"'-\u26c4-'", "-\u26c4-"),
    (r"'\z'", "z"),
    ("'Today''s sales projections'", "Today's sales projections"),  # two single quotes = one quote
    (r"'Joyeux No\u00EBl'", "Joyeux Noël"),
    (r"'a\'b'", "a'b"),
    (r"'a\"b'", 'a"b'),
    (r"'\0'", "\x00"),
    (r"'\b\f\r'", "\b\f\r"),
    ("''", ""),
    ("'-- not a comment /* nor this */ ; $x ? %s'", "-- not a comment /* nor this */ ; $x ? %s"),
    ("'line1\nline2'", "line1\nline2"),  # a raw newline is allowed inside a constant
]
for text, want in DOC:
    v, end = L.read_string_constant(text)
    check(f"read {text!r}", v, want)
    check(f"read {text!r} consumed all", end, len(text))
check("read stops at the closing quote", L.read_string_constant("'ab' || 'cd'"), ("ab", 4))
check("read at offset", L.read_string_constant("x = 'q''r', y", 4), ("q'r", 10))
raises("unterminated", lambda: L.read_string_constant("'abc"), ValueError)
raises("unterminated after escape", lambda: L.read_string_constant("'abc\\'"), ValueError)
raises("no constant", lambda: L.read_string_constant("abc"), ValueError)

# ---- 2. renderer, hand-written -------------------------------------------------------------------------------------
REN = [
    ("", "''"),
    ("a", "'a'"),
    ("it's", "'it''s'"),
    ("''", "''''''"),
    ("\\", "'\\\\'"),
    ("a\\", "'a\\\\'"),
    ("\\'", "'\\\\'''"),
    ("a\nb", "'a\\nb'"),
    ("a\\nb", "'a\\\\nb'"),
    ("\r\n", "'\\r\\n'"),
    ("\t", "'\\t'"),
    ("\x00x", "'\\x00x'"),
    ('"', "'\"'"),
    ("%s %(x)s %% 100%", "'%s %(x)s %% 100%'"),
    ("$x $$ ${x}", "'$x $$ ${x}'"),
    ("? ; -- /* */", "'? ; -- /* */'"),
    ("❄é\U0001d4b3", "'❄é\U0001d4b3'"),
    ("'); drop table keep; --", "'''); drop table keep; --'"),
]
for v, want in REN:
    check(f"render_str {v!r}", L.render(v), want)
check("render None", L.render(None), "NULL")
check("render True", L.render(True), "TRUE")
check("render False", L.render(False), "FALSE")
check("render 0", L.render(0), "0")
check("render -1", L.render(-1), "-1")
check("render 10**30", L.render(10**30), "1" + "0" * 30)
check("render 2**63-1", L.render(2**63 - 1), "9223372036854775807")
check("render Decimal 1.10", L.render(D("1.10")), "1.10")
check("render Decimal -0.01", L.render(D("-0.01")), "-0.01")
check("render Decimal 1E+3 (no exponent)", L.render(D("1E+3")), "1000")
check("render Decimal 1E-7 (no exponent)", L.render(D("1E-7")), "0.0000001")
check("render 0.5", L.render(0.5), "'0.5'::FLOAT")
check("render -0.0", L.render(-0.0), "'-0.0'::FLOAT")
check("render 1e308", L.render(1e308), "'1e+308'::FLOAT")
check("render 1e-320", L.render(1e-320), "'1e-320'::FLOAT")
raises("render nan", lambda: L.render(float("nan")), L.NotRenderable)
raises("render inf", lambda: L.render(float("inf")), L.NotRenderable)
raises("render bytes", lambda: L.render(b"ab"), L.NotRenderable)
check("render date", L.render(datetime.date(2024, 2, 29)), "'2024-02-29'::DATE")
check("render date year 1", L.render(datetime.date(1, 1, 1)), "'0001-01-01'::DATE")
check("render time", L.render(datetime.time(23, 59, 59, 999999)), "'23:59:59.999999'::TIME")
check("render time no fraction", L.render(datetime.time(0, 0, 0)), "'00:00:00'::TIME")
check("render time 1us", L.render(datetime.time(12, 0, 0, 1)), "'12:00:00.000001'::TIME")
check(
    "render ntz", L.render(datetime.datetime(1969, 12, 31, 23, 59, 59, 1)), "'1969-12-31 23:59:59.000001'::TIMESTAMP_NTZ"
)
check("render ntz no fraction", L.render(datetime.datetime(2020, 1, 2, 3, 4, 5)), "'2020-01-02 03:04:05'::TIMESTAMP_NTZ")
check(
    "render tz utc",
    L.render(datetime.datetime(2020, 1, 2, 3, 4, 5, 678901, tzinfo=datetime.timezone.utc)),
    "'2020-01-02 03:04:05.678901+00:00'::TIMESTAMP_TZ",
)
check(
    "render tz +05:30",
    L.render(datetime.datetime(2020, 1, 2, 3, 4, 5, tzinfo=datetime.timezone(datetime.timedelta(hours=5, minutes=30)))),
    "'2020-01-02 03:04:05+05:30'::TIMESTAMP_TZ",
)
check(
    "render tz -08:00",
    L.render(datetime.datetime(1969, 12, 31, 16, 0, 0, tzinfo=datetime.timezone(datetime.timedelta(hours=-8)))),
    "'1969-12-31 16:00:00-08:00'::TIMESTAMP_TZ",
)
check("render list", L.render(["a", "b'c", 3]), "'a', 'b''c', 3")
raises("render empty list", lambda: L.render([]), L.NotRenderable)

# ---- 3. render -> read round trip: every alphabet string, every single character of a wide range, all pairs and
#         triples of the characters that matter to quoting ------------------------------------------------------------
SPECIAL = ["'", "\\", '"', "\n", "\r", "\t", "\x00", "\b", "\f", "%", "$", "?", ";", "-", "/", "*", "0", "1", "7", "x", "u", "n", "a", " "]  # fmt: skip
sweep = list(c08.STR) + [chr(i) for i in range(0, 0x300)] + ["\ud7ff", "\ue000", "\uffff", "\U00010000", "\U0010ffff"]
sweep += [a + b for a in SPECIAL for b in SPECIAL]
sweep += [a + b + c for a in SPECIAL[:9] for b in SPECIAL[:9] for c in SPECIAL]
bad = 0
for s in sweep:
    text = L.render_str(s)
    N[0] += 1
    try:
        v, end = L.read_string_constant(text + " tail")
    except ValueError as e:
        v, end = ("<error %s>" % e, -1)
    if v != s or end != len(text):
        bad += 1
        if bad <= 5:
            FAILS.append(f"round trip {s!r}: rendered {text!r}, read back {v!r} (end {end}, len {len(text)})")
    if "\x00" in text or "\n" in text or "\r" in text:
        FAILS.append(f"rendered constant of {s!r} contains a raw NUL/CR/LF")

# ---- 4. LIKE without ESCAPE (Snowflake: % any sequence of zero or more characters, _ any single character, no default
#         escape character, case-sensitive, must match the whole subject) ---------------------------------------------
LIKE = [
    ("abc", "a%", True), ("abc", "%c", True), ("abc", "%b%", True), ("abc", "a_c", True), ("abc", "_b_", True),
    ("abc", "abc", True), ("abc", "ab", False), ("abc", "ABC", False), ("abc", "a%d", False), ("", "%", True),
    ("", "", True), ("", "_", False), ("a", "__", False), ("a\nb", "a%b", True), ("a\nb", "a_b", True),
    ("100%", "100%", True), ("100", "100%", True), ("100%", "100\\%", False), ("100\\%", "100\\%", True),
    ("100\\x", "100\\%", True), ("a_b%", "a_b%", True), ("axb", "a_b%", True), ("aab", "a%ab", True),
    ("mississippi", "m%iss%pi", True), ("mississippi", "m%iss%pix", False), ("%", "%%", True), ("ab", "%a%b%", True),
    ("'", "%'%", True), ("❄", "_", True), ("\U0001d4b3", "_", True), ("ab", "_", False),
]  # fmt: skip
for s, p, want in LIKE:
    check(f"like({s!r}, {p!r})", L.like(s, p), want)

# ---- 5. value comparison ("arrives unchanged") --------------------------------------------------------------------------
utc = datetime.timezone.utc
SAME = [
    ("str", "a", "a", True), ("str", "a ", "a", False), ("str", "A", "a", False), ("str", 1, "1", False),
    ("str", None, None, True), ("str", "", None, False), ("str", None, "", False),
    ("int", 5, 5, True), ("int", D("5"), 5, True), ("int", D("5.0"), 5, True), ("int", 5.0, 5, False),
    ("int", True, 1, False), ("int", 1e30, 10**30, False), ("int", D(10**30), 10**30, True), ("int", "5", 5, False),
    ("float", 0.5, 0.5, True), ("float", D("0.5"), 0.5, False), ("float", 0.0, -0.0, True), ("float", 1, 1.0, False),
    ("dec", D("1.100000000"), D("1.10"), True), ("dec", 1, D("1"), True), ("dec", 1.1, D("1.1"), False),
    ("dec", "1.10", D("1.10"), False),
    ("bool", True, True, True), ("bool", 1, True, False), ("bool", False, True, False),
    ("date", datetime.date(2020, 1, 2), datetime.date(2020, 1, 2), True),
    ("date", datetime.datetime(2020, 1, 2), datetime.date(2020, 1, 2), False), ("date", "2020-01-02", datetime.date(2020, 1, 2), False),
    ("ts", datetime.datetime(2020, 1, 2, 3, 4, 5), datetime.datetime(2020, 1, 2, 3, 4, 5), True),
    ("ts", datetime.datetime(2020, 1, 2, 3, 4, 5, tzinfo=utc), datetime.datetime(2020, 1, 2, 3, 4, 5), False),
    ("ts", datetime.datetime(2020, 1, 2, 3, 4, 5, 1), datetime.datetime(2020, 1, 2, 3, 4, 5), False),
    ("tstz", datetime.datetime(2020, 1, 1, 21, 34, 5, tzinfo=utc), c08.TSTZ[1], True),  # same instant, other offset
    ("tstz", datetime.datetime(2020, 1, 2, 3, 4, 5, tzinfo=utc), c08.TSTZ[1], False),
    ("tstz", datetime.datetime(2020, 1, 1, 21, 34, 5), c08.TSTZ[1], False),
    ("time", datetime.time(1, 2, 3), datetime.time(1, 2, 3), True), ("time", "01:02:03", datetime.time(1, 2, 3), False),
    ("exact", 1, 1, True), ("exact", True, 1, False), ("exact", D("1"), 1, False), ("exact", "1", 1, False),
]  # fmt: skip
for fam, got, exp, want in SAME:
    check(f"same({fam}, {got!r}, {exp!r})", c08.same(fam, got, exp), want)
check("rows_same ok", c08.rows_same(("exact", "str"), [(1, "a")], [(1, "a")]), True)
check("rows_same width", c08.rows_same(("exact", "str"), [(1,)], [(1, "a")]), False)
check("rows_same count", c08.rows_same(("exact", "str"), [(1, "a"), (1, "a")], [(1, "a")]), False)
check("rows_same not list", c08.rows_same(("exact",), None, [(1,)]), False)
check("rows_same list rows", c08.rows_same(("exact",), [[1]], [(1,)]), False)

# ---- 6. expected-outcome model, hand-written (SQL semantics over the fixture) ------------------------------------------
S, I, B = c08.FAMS["str"], c08.FAMS["int"], c08.FAMS["bool"]
ix = S.fx.index
check("fx str layout", (S.fx[-3:], len(S.fx)), (["benign", "other", None], len(c08.STR) + 3))
check("where quote", c08.expected("where", S, "'")[0], [(ix("'"),)])
check("where NULL matches nothing", c08.expected("where", S, None)[0], [])
check("where is exact (no trimming, no case folding)", c08.expected("where", S, "trail  ")[0], [(ix("trail  "),)])
check("in2", c08.expected("in2", S, "%s")[0], sorted([(ix("%s"),), (ix("benign"),)]))
check("in2 NULL", c08.expected("in2", S, None)[0], [(ix("benign"),)])
check("inlist = in2", c08.expected("inlist", S, "$x")[0], c08.expected("in2", S, "$x")[0])
want = [(i,) for i, x in enumerate(S.fx) if x is not None and "%s" in x]
check("like_pat %s is 'contains %s' because s is literal and % a wildcard", c08.expected("like_pat", S, "%s")[0], [(i,) for i, x in enumerate(S.fx) if x is not None and "s" in x])  # fmt: skip
check("like_pat plain = contains", c08.expected("like_pat", S, "ab")[0], [(i,) for i, x in enumerate(S.fx) if x is not None and "ab" in x])  # fmt: skip
check("like_pat '_' = non-empty", c08.expected("like_pat", S, "_")[0], [(i,) for i, x in enumerate(S.fx) if x])
check("like_pat backslash is literal", c08.expected("like_pat", S, "\\")[0], [(i,) for i, x in enumerate(S.fx) if x is not None and "\\" in x])  # fmt: skip
check("like_pat NULL", c08.expected("like_pat", S, None)[0], [])
check("like_subj", [c08.expected("like_subj", S, v)[0] for v in ("a", "ab", "ba", "", None, "a\nb")], [[(True,)], [(True,)], [(False,)], [(False,)], [(None,)], [(True,)]])  # fmt: skip
check("sel", c08.expected("sel", S, "x")[:2], ([(7, "x", "z")], ("exact", "str", "exact")))
check("sel_rep", c08.expected("sel_rep", I, 5)[0], [(5, "z", 5)])
check("ins", c08.expected("ins", S, "x"), ([(1,)], ("exact",), [], [(1, "x")]))
check("upd", c08.expected("upd", S, None), ([(1, 0)], ("exact", "exact"), [(1, "benign"), (2, "other")], [(1, None), (2, "other")]))  # fmt: skip
check("del", c08.expected("del", S, "x"), ([(1,)], ("exact",), [(1, "x"), (2, "other")], [(2, "other")]))
check("del NULL deletes nothing", c08.expected("del", S, None), ([(0,)], ("exact",), [(1, None), (2, "other")], [(1, None), (2, "other")]))  # fmt: skip
check("del bool False removes both rows (b2 is False)", c08.expected("del", B, False), ([(2,)], ("exact",), [(1, False), (2, False)], []))  # fmt: skip
check("sessvar", c08.expected("sessvar", S, "$x")[0], [("w", "$x", 5)])
check("sessvar_pct", c08.expected("sessvar_pct", I, 5)[0], [("100%", 5)])
check("comment_lit", c08.expected("comment_lit", S, "?")[0], [("it's %s ?", "?", "%(x)s ? :1")])
check("where -0.0 == 0.0 is not in the float fixture twice", c08.expected("where", c08.FAMS["float"], -0.0)[0], [(c08.FLOAT.index(-0.0),)])  # fmt: skip

# ---- 7. statement builders: bound text + Python %-formatting with rendered constants == literal text ----------------------
for style in ("pyformat_seq", "format_seq", "pyformat_dict"):
    for pos in c08.POS_ORDER:
        for fam, v in (("str", "it's %s ? $x"), ("int", 7), ("str", None)):
            if not c08.applicable(style, pos, fam) or (pos == "inlist" and v is None):
                continue
            F = c08.FAMS[fam]
            b = c08.Binder(style)
            sql = c08.POS[pos][0](b, F, v)
            p = b.params()
            if isinstance(p, dict):
                filled = sql % {k: L.render(x) for k, x in p.items()}
            else:
                filled = sql % tuple(L.render(x) for x in p)
            check(f"builder {style}/{pos}/{fam}", filled, c08.POS[pos][0](c08.Literal(), F, v))
b = c08.Binder("pyformat_dict")
sql = c08.p_sel_rep(b, S, "v")
check("dict: repeated key", (sql, b.params()), ("select %(v)s as v1, 'z' as z, %(v)s as v2", {"v": "v"}))
b = c08.Binder("qmark")
sql = c08.p_like_pat(b, S, "v")
check("qmark: single percent, tuple", (sql, b.params()), ("select id from fx where v like '%' || ? || '%' order by id", ("v",)))  # fmt: skip
b = c08.Binder("format_seq")
sql = c08.p_in2(b, S, "v")
check("format: list container, doubled percent", (sql, b.params(), b.pct), ("select id from fx where v in (%s, %s) order by id", ["v", "benign"], "%%"))  # fmt: skip
check("column referee", c08.p_in2(c08.Column("v"), S, "v"), "select id from fx where v in ((select v from pv), 'benign') order by id")  # fmt: skip
check("column referee list", c08.p_inlist(c08.Column("v"), S, "v"), "select id from fx where v in ((select v from pv), 'benign') order by id")  # fmt: skip

# ---- 8. classifier ------------------------------------------------------------------------------------------------------------
check("vclass nul", c08.vclass("str", "a\x00b'"), "str:nul")
check("vclass quote+backslash", c08.vclass("str", "\\'"), "str:quote+backslash")
check("vclass plain", c08.vclass("str", "ab"), "str:plain")
check("vclass None", c08.vclass("int", None), "null")
check("vclass int bands", [c08.vclass("int", x) for x in (0, -(2**63), 2**63, 2**64 - 1, 2**64, -(2**63) - 1)], ["int:int64", "int:int64", "int:uint64", "int:uint64", "int:pos_over_uint64", "int:neg_over_int64"])  # fmt: skip
check("vclass float", [c08.vclass("float", x) for x in (-0.0, 0.0, 1e-320, 0.5)], ["float:negzero", "float", "float:subnormal", "float"])  # fmt: skip
check("case_class", c08.case_class("pyformat_dict", "ins", "str", "\x00"), "bind=client,val=str:nul")
check("case_class qmark", c08.case_class("qmark", "sel", "int", 10**30), "pos=sel,bind=server,val=int:pos_over_uint64")
check("case_class sessvar_pct", c08.case_class("format_seq", "sessvar_pct", "int", 1), "pos=sessvar_pct,bind=client,val=any")

# ---- 9. the judge can fail ------------------------------------------------------------------------------------------------------
ok = (("ok", [(7, "x", "z")]), [], True)
check("judge ok", c08.judge(("exact", "str", "exact"), [(7, "x", "z")], ("exact", "str"), [], ok, []), (True, True, "ok"))
check("judge wrong value", c08.judge(("exact", "str", "exact"), [(7, "y", "z")], ("exact", "str"), [], ok, [])[0], False)
check("judge narrower result", c08.judge(("exact", "str", "exact"), [(7, "x", "z")], ("exact", "str"), [], (("ok", [(7, "x")]), [], True), [])[:2], (False, False))  # fmt: skip
check("judge bystander changed", c08.judge(("exact", "str", "exact"), [(7, "x", "z")], ("exact", "str"), [], (("ok", [(7, "x", "z")]), [], False), [])[:2], (True, False))  # fmt: skip
check("judge raise keeps structure", c08.judge(("exact",), [(1,)], ("exact", "str"), [(1, "x")], (("err", "E", "m"), [], True), []), (False, True, "raise"))  # fmt: skip
check("judge raise with partial effect", c08.judge(("exact",), [(1,)], ("exact", "str"), [(1, "x")], (("err", "E", "m"), [(1, "x")], True), [])[1], False)  # fmt: skip
check("judge wrong target row", c08.judge(("exact",), [(1,)], ("exact", "str"), [(1, "x")], (("ok", [(1,)]), [(1, "x'")], True), [])[0::2], (False, "state"))  # fmt: skip

# ---- 10. the enumeration is the stated product (counts derived independently) ----------------------------------------------
items = c08.items_for("thorough")
check("no duplicate work items", len(items), len(set(items)))
grid_cases = sum(len(c08.value_indexes("thorough", it[2], it[3])) for it in items if it[0] == "grid")
n_str = len(c08.STR) + 1
others = sum(len(c08.FAMS[f].values) for f in c08.FAM_ORDER if f != "str")
n_int = len(c08.INT) + 1
per_style = (
    11 * (n_str + others)  # the eleven positions open to every family and every value (incl. merge_ins, merge_upd)
    + (n_str - 1 + others - 1)  # merge_on: every family, without the NULL of str and int
    + (n_str - 1 + n_int - 1)  # inlist: str + int without NULL ...
    + 2 * n_str  # like_pat, like_subj: strings only
    + (len([s for s in c08.STR if s in c08.STR_BREAKERS]) + 1 + others)  # sessvar_pct: breaker strings, NULL, all others
)
# ... and inlist not under qmark; + the four OPT_POS positions over all strings again on every non-default instance
n_opts = len([o for o in c08.INSTANCE_OPTS if o is not None])
check("grid size", grid_cases, 4 * per_style - (n_str - 1 + n_int - 1) + n_opts * 4 * len(c08.OPT_POS) * n_str)
check("pairs items", len([it for it in items if it[0] == "pairs"]), 4 * 2 * len(c08.STR))
check("executemany items", len([it for it in items if it[0] == "many"]), 4 * 2 * 9 * 3)
check("paramstyle items", len([it for it in items if it[0] == "pstyle"]), 3 * 3 * 2)
check("quick items are a subset shape", {it[:2] for it in c08.items_for("quick")} <= {it[:2] for it in items}, True)

# ---- 11. histories: which values are "the same datum", "confusable" (equal for Python, different data), "distinct" ------
tz_utc = datetime.datetime(2024, 1, 1, 12, 0, 0, tzinfo=datetime.timezone.utc)
tz_p5 = datetime.datetime(2024, 1, 1, 17, 0, 0, tzinfo=datetime.timezone(datetime.timedelta(hours=5)))
REL = [
    (1, 1, "same"), (1, True, "confusable"), (True, 1, "confusable"), (1, 1.0, "confusable"), (1, D("1"), "confusable"),
    (D("1"), D("1.0"), "confusable"), (D("1.1"), D("1.10"), "confusable"), (D("1.1"), 1.1, "distinct"), (1, "1", "distinct"),
    (0, False, "confusable"), (0.0, -0.0, "confusable"), (0, "", "distinct"), (False, "", "distinct"), (None, None, "same"),
    (None, 0, "distinct"), (tz_utc, tz_p5, "confusable"), (tz_utc, tz_utc, "same"),
    (tz_utc, datetime.datetime(2024, 1, 1, 12, 0, 0), "distinct"), (datetime.date(2024, 1, 1), datetime.datetime(2024, 1, 1), "distinct"),
    (2**63, float(2**63), "confusable"), ((1, 2), (True, 2.0), "confusable"), ((1, 2), (1, 2), "same"), ("a", "a'", "distinct"),
    (1, 2, "distinct"), (2, 2.0, "confusable"),
]  # fmt: skip
for a, b, want in REL:
    check(f"relation({a!r}, {b!r})", c08.relation(a, b), want)
check("tclass", [c08.tclass(v) for v in (True, 1, 1.0, D("1"), "1", None, tz_utc, datetime.datetime(2024, 1, 1), datetime.date(2024, 1, 1), datetime.time(1), (1, 2))],
      ["bool", "int", "float", "dec", "str", "null", "tstz", "ts", "date", "time", "tuple"])  # fmt: skip
check("seq_class", c08.seq_class("same_cursor", "insv", "format_seq", 1, True), "hist=same_cursor,pos=insv,bind=client,first=int,second=bool,rel=confusable")  # fmt: skip
names = [n for n, _ in c08.SEQ]
check("SEQ names unique", len(names), len(set(names)))
check("SEQ_QUICK and SEQ3 are drawn from SEQ", set(c08.SEQ_QUICK) <= set(names) and set(c08.SEQ3) <= set(c08.SEQ_QUICK), True)
# every group of Python-equal values the property's type list can produce is present in the quick alphabet
byname = dict(c08.SEQ)
for group in (["i1", "true", "f1", "d1", "d1.0"], ["i0", "false", "f0", "d0"], ["d1.1", "d1.10"], ["tz_utc", "tz+5"], ["t12", "ttrue2"]):
    for x in group:
        for y in group:
            if x != y:
                check(f"confusable {x}/{y}", (c08.relation(byname[x], byname[y]), x in c08.SEQ_QUICK), ("confusable", True))
check("qmark histories exclude sequences", [c08.SEQ[i][0] for i in c08.seq_indexes("thorough", "qmark") if isinstance(c08.SEQ[i][1], tuple)], [])  # fmt: skip
check("history alphabet sizes", (len(c08.seq_indexes("quick", "pyformat_seq")), len(c08.seq_indexes("quick", "qmark")), len(c08.seq_indexes("thorough", "format_seq")), len(c08.seq_indexes("thorough", "qmark"))), (23, 21, 35, 33))  # fmt: skip
b = c08.Binder("pyformat_dict")
check("history statement", (c08.SEQ_POS["selv"](b.ph(1)), b.params()), ("select cast(%(v)s as varchar) as v", {"v": 1}))
check("_stored ok", c08._stored({"insv": (("ok", [(1,)]), [(1, "true")])}), ("true",))
check("_stored failed insert", c08._stored({"insv": (("err", "E", "m"), [])}), None)

# ---- 12. session-variable histories: model and enumeration ------------------------------------------------------------------
check("var N_sel", c08.var_expected("N_sel", "50%", "p"), ([("50%",)], ("str",), []))
check("var P_sel", c08.var_expected("P_sel", "%s", 7), ([("%s", 7)], ("str", "int"), []))
check("var P_sel number variable", c08.var_expected("P_sel", 5, None), ([(5, None)], ("int", "str"), []))
check("var P_ins", c08.var_expected("P_ins", "it's", 7), ([(1,)], ("exact",), [("it's", "7")]))
check("var P_ins NULL parameter", c08.var_expected("P_ins", 5, None), ([(1,)], ("exact",), [("5", None)]))
check("var N_ins", c08.var_expected("N_ins", "?", "ignored"), ([(1,)], ("exact",), [("?", "lit")]))
b = c08.Binder("pyformat_dict")
check("var statement dict", (c08.VSTMT["P_sel"](b, "x"), b.params()), ("select $v as x, %(p)s as y", {"p": "x"}))
b = c08.Binder("qmark")
check("var statement qmark", (c08.VSTMT["P_ins"](b, 7), b.params()), ("insert into tp (a, b) values ($v, ?)", (7,)))
check("var histories quick = all ordered pairs of 3 kinds", sorted(c08.var_histories("quick")), sorted((a, b) for a in c08.VSTMT_QUICK for b in c08.VSTMT_QUICK))  # fmt: skip
check("var histories thorough", len(c08.var_histories("thorough")), len(c08.VSTMT_ALL) ** 2 + len(c08.VSTMT_QUICK) ** 3)
vals = [v for _, v in c08.VARVALS]
check("variable values unique", len(vals), len(set(map(repr, vals))))
for needed in ("%", "%%", "%s", "%(x)s", "%(p)s", "?", ":1", "it's", "a\\b", "$x"):
    check(f"variable alphabet holds {needed!r}", needed in vals, True)
check("the dict key used by the statements is itself a variable value", c08.VSTMT["P_sel"](c08.Binder("pyformat_dict"), 1).count("%(p)s"), 1)
check("quick parameters are a subset", set(map(repr, c08.VAR_PARAMS_QUICK)) <= set(map(repr, c08.VAR_PARAMS)), True)
check("SET text of a variable value", [L.render(v) for v in ("it's", "a\\b", 5)], ["'it''s'", "'a\\\\b'", "5"])

# ---- 13. caller's parameter object guard and same-object re-binding -------------------------------------------------------
def _mut(p):
    p["a"] = "'x'"


def _mut_list(p):
    p[0] = (1, "2")


for params, fn, many, want_cls, want_bad in [
    ({"a": "x"}, lambda p: None, False, "container=dict,style=S", 0),
    ({"a": "x"}, _mut, False, "container=dict,style=S", 1),
    ([1, True], lambda p: p.__setitem__(1, 1), False, "container=list,style=S", 1),  # True -> 1 is a change (type-strict)
    ((1, "a"), lambda p: None, False, "container=tuple,style=S", 0),
    ([(1, 2)], _mut_list, True, "container=rows:list_of_tuple,style=S", 1),
    ([{"a": 1}], lambda p: p[0].__setitem__("a", 1.0), True, "container=rows:list_of_dict,style=S", 1),
    ([], lambda p: None, True, "container=rows:none,style=S", 0),
]:
    c08._CALLS.clear()
    del c08._MUTATED[:]
    c08.guarded("S", "sql", params, lambda: fn(params), many=many)
    check(f"guarded {want_cls} {want_bad}", (dict(c08._CALLS), len(c08._MUTATED)), ({want_cls: [1, want_bad]}, want_bad))
c08._CALLS.clear()
del c08._MUTATED[:]
_P = {"a": 1}
try:
    c08.guarded("S", "sql", _P, lambda: (_mut(_P), 1 / 0))
except ZeroDivisionError:
    pass
check("guarded also compares when the call raises", [m[0] for m in c08._MUTATED], ["container=dict,style=S"])
c08._CALLS.clear()
del c08._MUTATED[:]
check("guarded without parameters compares nothing", (c08.guarded("S", "sql", None, lambda: 5), dict(c08._CALLS)), (5, {}))
check("mk_params", [c08.mk_params(c, ["i", "v"], [1, "a"]) for c in ("tuple", "list", "dict")], [(1, "a"), [1, "a"], {"i": 1, "v": "a"}])
check("containers per style", c08.CONTAINERS, {"pyformat_seq": ("tuple", "list"), "format_seq": ("tuple", "list"), "qmark": ("tuple", "list"), "pyformat_dict": ("dict",)})  # fmt: skip
check("rebind values exclude sequences, include quoting strings", (any(isinstance(v, tuple) for _, v in c08.rebind_values("thorough", "pyformat_seq")), [v for _, v in c08.rebind_values("quick", "qmark")][-3:]), (False, ["it's", "a\\b", "%s ?"]))  # fmt: skip

if FAILS:
    print(f"test_c08: {len(FAILS)} of {N[0]} checks FAILED")
    for f in FAILS[:40]:
        print("  " + f)
    sys.exit(1)
print(f"test_c08: ok ({N[0]} checks)")
sys.exit(0)
