#!/venv/bin/python
"""Self-test of the C16 reference components (no fakesnow involved): the statement splitter / literal reader of
mc/ref/sf_split.py, the style composers, the literal alphabets, the nop matcher, the comparison function and the
classifier are checked against hand-written expectations taken from Snowflake's documented lexical rules
(string constants, dollar-quoted constants, quoted identifiers, comments, `;` as statement terminator).

    /venv/bin/python selftest/test_c16.py      exit 0 = all good, 1 = a reference component is wrong
"""
import os
import sys

sys.path.insert(0, os.path.dirname(os.path.dirname(os.path.abspath(__file__))))

from checks import c16  # noqa: E402
from mc.ref import sf_split as S  # noqa: E402

FAILS = []
N = [0]


def check(name, got, want):
    N[0] += 1
    if got != want or type(got) is not type(want):
        FAILS.append(f"{name}: got {got!r}, want {want!r}")


def raises(name, fn, exc):
    N[0] += 1
    try:
        fn()
    except exc:
        return
    except Exception as e:  # noqa: BLE001
        FAILS.append(f"{name}: raised {type(e).__name__}, want {exc.__name__}")
        return
    FAILS.append(f"{name}: did not raise")


def codes(text):
    return [p["code"] for p in S.split(text)]


def lits(text):
    return [p["literals"] for p in S.split(text)]


# ---- 1. splitting: hand-written expectations ----------------------------------------------------------------------
SPLIT = [
    ("select 1; select 2;", ["select 1", "select 2"]),
    ("select 1;select 2", ["select 1", "select 2"]),  # last statement needs no semicolon
    ("", []),
    ("   \n\t ", []),
    (";", []),
    (";;;", []),
    ("select 1;;select 2;;", ["select 1", "select 2"]),  # empty statements are not statements
    # semicolon inside a string constant does not terminate
    ("select 'a;b'; select 2", ["select 'a;b'", "select 2"]),
    ("select 'ab;'", ["select 'ab;'"]),
    # '' is a quote inside the constant, not its end
    ("select 'it''s; here'; select 2", ["select 'it''s; here'", "select 2"]),
    ("select ''; select ';'", ["select ''", "select ';'"]),
    ("select ''''; select 2", ["select ''''", "select 2"]),
    # backslash escapes the next character: \' does not end the constant, \\ is a backslash and then ' ends it
    ("select 'q\\'q; still'; select 2", ["select 'q\\'q; still'", "select 2"]),
    ("select '\\\\'; select 2", ["select '\\\\'", "select 2"]),
    ("select 'a\\\\'; select ';'", ["select 'a\\\\'", "select ';'"]),
    # comment markers inside a constant are ordinary characters
    ("select 'x -- y'; select 2", ["select 'x -- y'", "select 2"]),
    ("select 'p /* q'; select '*/ r'", ["select 'p /* q'", "select '*/ r'"]),
    ("select 'x -- y\nz;w'; select 2", ["select 'x -- y\nz;w'", "select 2"]),
    # $$ inside '...' is nothing special
    ("select 'a$$b;c$$d'; select 2", ["select 'a$$b;c$$d'", "select 2"]),
    # dollar-quoted constants: nothing is special inside, not even quotes, backslashes, comments, semicolons
    ("select $$d;d$$; select 2", ["select $$d;d$$", "select 2"]),
    ("select $$it's -- x /* y$$; select 2", ["select $$it's -- x /* y$$", "select 2"]),
    ("select $$a\\$$; select 2", ["select $$a\\$$", "select 2"]),  # a backslash does not escape the closing $$
    ("select $$multi\nline;$$", ["select $$multi\nline;$$"]),
    # quoted identifiers
    ('select 1 as "Qu;oted"; select 2', ['select 1 as "Qu;oted"', "select 2"]),
    ('select 1 as "a""b;"; select 2', ['select 1 as "a""b;"', "select 2"]),
    ('select 1 as "it\'s"; select 2', ['select 1 as "it\'s"', "select 2"]),
    ('select 1 as "x -- y /* z"; select 2', ['select 1 as "x -- y /* z"', "select 2"]),
    ('select 1 as "a\\"; select 2', ['select 1 as "a\\"', "select 2"]),  # no backslash escapes in identifiers
    # line comments
    ("-- c\nselect 1; -- d\nselect 2 -- e", ["select 1", "select 2"]),
    ("select 1; -- ; select 9\nselect 2", ["select 1", "select 2"]),
    ("select 1; -- it's\nselect 2", ["select 1", "select 2"]),  # a quote in a comment opens nothing
    ("select 1; -- $$ /* \nselect 2", ["select 1", "select 2"]),
    ("-- only", []),
    ("-- only\n", []),
    ("select 1 -- c\n; select 2", ["select 1", "select 2"]),
    ("select -- mid;\n 1", ["select 1"]),
    # block comments
    ("/* b */ select 1; /* ; */ select 2 /* e */", ["select 1", "select 2"]),
    ("select 1; /* it's; -- \n ' */ select 2", ["select 1", "select 2"]),
    ("select /* mid; */ 1", ["select 1"]),
    ("/* c */", []),
    ("/* ; */;", []),
    ("/* -- */ select 1", ["select 1"]),  # the line comment marker inside a block comment does not hide the */
    ("-- /* \nselect 1; -- */\n", ["select 1"]),  # nor the other way round
    ("select 1 /* c */ ; select 2", ["select 1", "select 2"]),
    ("select 1/* c */+ 2", ["select 1 + 2"]),  # a comment separates tokens like white space
    # white space
    ("\n\t select 1 \n;\r\n select   2 \t", ["select 1", "select 2"]),
    ("select  'a  b'", ["select 'a  b'"]),  # blanks inside constants are kept
    ("select\n'x'", ["select 'x'"]),
]
for text, want in SPLIT:
    check(f"split {text!r}", codes(text), want)
    check(f"count {text!r}", S.count(text), len(want))

# raw slices concatenate back (with the semicolons) to the text
for text, _ in SPLIT:
    toks = S.tokens(text)
    check(f"tokens cover {text!r}", "".join(t[1] for t in toks), text)

# ---- 2. literal values ---------------------------------------------------------------------------------------------
LIT = [
    ("select 'abc'", [[("str", "abc")]]),
    ("select ''", [[("str", "")]]),
    ("select 'it''s'", [[("str", "it's")]]),
    ("select ''''", [[("str", "'")]]),
    ("select '''q'''", [[("str", "'q'")]]),
    ("select 'a'';''b'", [[("str", "a';'b")]]),
    ("select 'a\\\\b'", [[("str", "a\\b")]]),  # source \\ -> one backslash
    ("select '\\\\'", [[("str", "\\")]]),
    ("select 'q\\'q;'", [[("str", "q'q;")]]),
    ("select 'tab\\t.'", [[("str", "tab\t.")]]),
    ("select 'new\nline'", [[("str", "new\nline")]]),
    ("select 'x -- y\nz;w'", [[("str", "x -- y\nz;w")]]),
    ("select '❄ é 日本 \U0001f389'", [[("str", "❄ é 日本 \U0001f389")]]),
    ("select '100% %s'", [[("str", "100% %s")]]),
    ("select $$d;d$$", [[("dstr", "d;d")]]),
    ("select $$a\\tb$$", [[("dstr", "a\\tb")]]),  # no escapes in dollar-quoted constants: backslash + t stay
    ("select $$it's -- x /* y */$$", [[("dstr", "it's -- x /* y */")]]),
    ("select $$$$", [[("dstr", "")]]),
    ("insert into t values (3, 'a;b'); select 'c', $$d$$", [[("str", "a;b")], [("str", "c"), ("dstr", "d")]]),
    ("select 1", [[]]),
    ("select 'a' /* 'not' */ -- 'this'\n, 'b'", [[("str", "a"), ("str", "b")]]),
]
for text, want in LIT:
    check(f"literals {text!r}", lits(text), want)

check("ident value", [t[2] for t in S.tokens('select 1 as "a""b;"') if t[0] == "ident"], ['a"b;'])
check("ident value 2", [t[2] for t in S.tokens('"Qu;oted"') if t[0] == "ident"], ["Qu;oted"])

# ---- 3. outside the domain is refused, not guessed -------------------------------------------------------------------
raises("unterminated constant", lambda: S.split("select 'abc"), ValueError)
raises("unterminated constant after escaped quote", lambda: S.split("select 'abc\\'"), ValueError)
raises("unterminated dollar", lambda: S.split("select $$abc"), ValueError)
raises("unterminated identifier", lambda: S.split('select "abc'), ValueError)
raises("unterminated block comment", lambda: S.split("select 1 /* abc"), ValueError)

# ---- 4. normalise --------------------------------------------------------------------------------------------------
check("normalise ws", S.normalise("select   1 ,\n 'a  b'"), "select 1 , 'a  b'")
check("normalise comment", S.normalise("select /* x */ 1 -- y"), "select 1")
check("normalise keeps case", S.normalise("SELECT 'A'"), "SELECT 'A'")

# ---- 5. the check's alphabets: values computed by the reference reader, written out by hand -------------------------
WANT_LIT = {
    "plain": "abc",
    "empty": "",
    "quote2": "it's",
    "quote2_ends": "'q'",
    "semi": "a;b",
    "semi_end": "ab;",
    "quote_semi_quote": "a';'b",
    "dashdash": "x -- y",
    "dashdash_nl": "x -- y\nz;w",
    "block": "p /* q */ r",
    "block_open": "/* open",
    "block_close": "close */",
    "dollar": "a$$b;c$$d",
    "dquote": 'say "hi;"',
    "bs_bs": "a\\b",
    "bs_only": "\\",
    "bs_quote": "q'q;",
    "bs_t": "tab\t.",
    # source a\\tb... : an escaped backslash followed by a letter is a backslash and that letter
    "bs_bs_letters": "a" + chr(92) + "tb" + chr(92) + "nc" + chr(92) + "rd" + chr(92) + "0e",
    "bs_bs_quote2": "it's " + chr(92) + "' end",
    "bs_dquote": 'say "hi"',
    "bs_bs_semi_dash": "^" + chr(92) + "d+;" + chr(92) + "s*--x",
    "newline": "new\nline",
    "unicode": "❄ é 日本 \U0001f389",
    "percent": "100% %s",
    # white space, case and normal form are data
    "tab": "a\tb",
    "tab_lead": "\tx",
    "pad_spaces": "  pad  ",
    "only_spaces": "   ",
    "multi_spaces": "a  b   c",
    "cr": "a\rb",
    "crlf": "a\r\nb",
    "vt_ff": "a\x0bb\x0cc",
    "indented_lines": "first\n    second\n    third",
    "tab_indented_lines": "first\n\tsecond",
    "blank_line": "a\n\nb",
    "nl_ends": "\nline\n",
    "mixed_case": "MiXeD select FROM",
    "nfd": "e\u0301x",
    "unicode_spaces": "a\u00a0b\u2003c\u3000d",
}
check("LITS ids", sorted(c16.LITS), sorted(WANT_LIT))
for lid, want in WANT_LIT.items():
    check(f"lit_value sq {lid}", c16.lit_value("sq", lid), want)
check("lit_value dq d_bs", c16.lit_value("dq", "d_bs"), "a\\tb")
check("lit_value dq d_quotes", c16.lit_value("dq", "d_quotes"), "'';\"x\"")
check("lit_value id i_dq", c16.lit_value("id", "i_dq"), 'a"b')
check("lit_value id i_semi", c16.lit_value("id", "i_semi"), "Qu;oted")
check("lit_value dq d_tab", c16.lit_value("dq", "d_tab"), "a\tb")
check("lit_value dq d_indented_lines", c16.lit_value("dq", "d_indented_lines"), "begin\n    end")
check("lit_value dq d_crlf", c16.lit_value("dq", "d_crlf"), "a\r\nb")
check("lit_value id i_pad_spaces", c16.lit_value("id", "i_pad_spaces"), "  a  b ")
check("lit_value id i_tab", c16.lit_value("id", "i_tab"), "a\tb")
# white space inside constants survives the reference splitter byte for byte, outside it is normalised
check("split keeps tab in constant", codes("select\t'a\tb' ;"), ["select 'a\tb'"])
check("split keeps indented lines", codes("  select\n    'first\n    second';\n  select 2"), ["select 'first\n    second'", "select 2"])
check("split keeps crlf in constant", lits("select 'a\r\nb'\r\n;"), [[("str", "a\r\nb")]])
check("split keeps blanks in $$", lits("select $$  x\n    y  $$"), [[("dstr", "  x\n    y  ")]])
check("split keeps blanks in identifier", [t[2] for t in S.tokens('select 1 as "  a  b "') if t[0] == "ident"], ["  a  b "])
# layouts
check("layout oneline", c16.template_statements("insert", "tab", "oneline", "alone"),
      ["insert into t values (3, 'a\tb')", "select v from t where k = 3"])  # fmt: skip
check("layout indented", c16.template_statements("insert", "indented_lines", "indented", "sentinel"),
      ["insert into t\n    values (3, 'first\n    second\n    third')", "select v\n    from t\n    where k = 3", "select 2"])  # fmt: skip
check("layout indented select", c16.template_statements("select_dollar", "d_indented_lines", "indented", "alone"),
      ["select\n    $$begin\n    end$$"])  # fmt: skip
for q in c16.LITS_QUICK:
    check(f"quick lit {q} known", q in c16.LITS, True)
for q in c16.DLITS_QUICK:
    check(f"quick dlit {q} known", q in c16.DLITS, True)
for q in c16.ILITS_QUICK:
    check(f"quick ilit {q} known", q in c16.ILITS, True)

# ---- 6. every style composes a text that the reference splits back into exactly the statements, for every literal ----
TWO = ["select 'a;b'", "insert into t values (3, 'x''y; -- z')"]
WANT_STYLE = {
    "semi_sp": "select 'a;b'; insert into t values (3, 'x''y; -- z');",
    "semi_tight": "select 'a;b';insert into t values (3, 'x''y; -- z')",
    "semi_double": "select 'a;b';;insert into t values (3, 'x''y; -- z');;",
    "lc_lead": "-- c\nselect 'a;b';\n-- c\ninsert into t values (3, 'x''y; -- z');\n",
    "lc_trail_eof": "select 'a;b'; -- c\ninsert into t values (3, 'x''y; -- z'); -- c",
    "bc_before_semi": "select 'a;b' /* c */ ; insert into t values (3, 'x''y; -- z') /* c */",
    "inline_bc": "select /* mid; */  'a;b'; insert /* mid; */  into t values (3, 'x''y; -- z');",
    "inline_lc": "select -- mid; 'q\n 'a;b'; insert -- mid; 'q\n into t values (3, 'x''y; -- z');",
    "inline_lc_own_line": "select\n-- mid; 'q\n 'a;b'; insert\n-- mid; 'q\n into t values (3, 'x''y; -- z');",
    "lead_semis": ";; -- x\n; select 'a;b'; insert into t values (3, 'x''y; -- z')",
    "indented_block": "\n        select 'a;b';\n        insert into t values (3, 'x''y; -- z');\n    ",
    "tab_block": "\tselect 'a;b'\t;\n\tinsert into t values (3, 'x''y; -- z')\t;\n",
}
for st, want in WANT_STYLE.items():
    check(f"style {st}", c16.STYLES[st](TWO), want)
for st, fn in c16.STYLES.items():
    check(f"style {st} splits back", codes(fn(TWO)), TWO)
    check(f"style {st} on no statements", codes(fn([])), [])
    check(f"style {st} one word", codes(fn(["begin", "commit"])), ["begin", "commit"])
    for tid, (tmpl, fam, _probe) in c16.TEMPLATES.items():
        for lid in c16.lit_alphabet(fam, "thorough"):
            for layout in c16.LAYOUTS:
                stmts = c16.template_statements(tid, lid, layout, "sentinel")
                N[0] += 1
                try:
                    pieces = c16.check_split(stmts, fn(stmts))
                    if fam != "id" and pieces[0]["literals"][-1][1] != c16.lit_value(fam, lid):
                        FAILS.append(f"style {st} x {tid} x {lid} x {layout}: literal value changed by composition")
                except Exception as e:  # noqa: BLE001
                    FAILS.append(f"style {st} x {tid} x {lid} x {layout}: {e}")
for kid, stmts in c16.KINDS.items():
    for st, fn in c16.STYLES.items():
        N[0] += 1
        try:
            c16.check_split(stmts, fn(stmts))
        except Exception as e:  # noqa: BLE001
            FAILS.append(f"style {st} x kind {kid}: {e}")
for t in c16.EMPTY_TEXTS:
    check(f"EMPTY {t!r}", codes(t), [])
raises("check_split notices a wrong split", lambda: c16.check_split(["select 1", "select 2"], "select 1 -- ; select 2"), Exception)

# ---- 7. nop matcher (Python re.match, case-insensitive, on the statement with parameters substituted) ----------------
NOP = [
    ("call", "call my_proc(1)", None, True),  # other case
    ("call", "CALL x()", None, True),
    ("call", " call x()", None, False),  # ^ anchors at the very start
    ("call", "callx()", None, False),  # \b
    ("call", "select 'call '", None, False),
    ("grant_revoke", "grant select on t to role r", None, True),
    ("grant_revoke", "GRANT SELECT ON t TO ROLE r", None, True),
    ("grant_revoke", "select 'grant '", None, False),  # matches only later in the text
    ("grant_revoke", "insert into t values (5, 'grant ')", None, False),
    ("grant_revoke", "  revoke select on t from role r", None, True),  # ^\s*
    ("grant_revoke", "select 1 -- grant ", None, False),
    ("effect", "truncate table t", None, True),
    ("effect", "TRUNCATE TABLE t", None, True),
    ("effect", "DELETE FROM t", None, True),
    ("effect", "update t set v = 'grant ' where k = 1", None, True),
    ("effect", "update s set v = 'e' where k = 1", None, False),
    ("effect", "insert into t values (5, 'e')", None, False),
    ("subst", "call x(%s)", (1,), True),  # matches only after substitution
    ("subst", "call x(%s)", (2,), False),
    ("subst", "call x(1)", None, True),
    ("call", "call x(%s)", (1,), True),
    ("grant_revoke", "select %s", ("grant ",), False),
    ("grant_revoke", "insert into t values (%s, %s)", (6, "grant "), False),
    ("none", "call x()", None, False),
    ("empty", "call x()", None, False),
]
for ps, sql, params, want in NOP:
    check(f"nop {ps} {sql!r} {params}", c16.nop_expected_match(ps, sql, params), want)
# no fixture statement may match any pattern set (the fixture is created on instances with the option)
for ps in c16.PATSETS:
    for f in c16.FIXTURE:
        check(f"fixture {f!r} vs {ps}", c16.nop_expected_match(ps, f, None), False)

# ---- 7b. pattern sets: hand-written table of which pattern matches which statement (re.match, IGNORECASE) ----------
S_WANT = {
    "call x()": ["anchor"],
    "select 1 from nope": ["anchor_dot"],
    "select 1\n from nope": [],  # `.` stops at the line break
    "grant select on t to role r": ["group"],
    "insert into t select * from t": ["backref"],
    "INSERT INTO t SELECT * FROM T": ["backref"],  # a backreference compares case-insensitively under IGNORECASE
    "insert into t select * from s": [],  # the backreference must repeat the group
    "update t set v = t.v": ["named2"],
    "select 1,\n 2": ["flag_s"],  # (?s): `.` crosses the line break in this pattern only
    "select 1,\n 3": [],
    "commit": ["flag_x"],  # (?x): the blanks of the pattern are layout
    "rollback": ["alt"],
    "select 'rollback'": [],  # re.match: both alternatives are tried at the start only
    "delete from t where k = 1": [],
    "truncate table s": [],
    "truncate table t": ["named"],
    "select count(*) from t": [],
}
ALL = tuple(c16.S_PATTERNS)
check("S_STMTS", sorted(c16.S_STMTS), sorted(S_WANT))
for sql, want in S_WANT.items():
    check(f"s_matching all {sql!r}", c16.s_matching(ALL, sql), want)
    check(f"s_matching reversed {sql!r}", c16.s_matching(ALL[::-1], sql), want)
check("s_matching order of the set", c16.s_matching(("never", "backref", "group"), "insert into t select * from t"), ["backref"])
check("s_matching not in set", c16.s_matching(("group", "never"), "insert into t select * from t"), [])
for pid in c16.S_PATTERNS:
    if pid != "never":
        check(f"pattern {pid} has a statement", any(c16.s_matching((pid,), s) for s in c16.S_STMTS), True)
    for f in c16.FIXTURE:
        check(f"fixture {f!r} vs pattern {pid}", c16.s_matching((pid,), f), [])
check("kinds", sorted({k for k, _ in c16.S_PATTERNS.values()}), ["alt", "anchor", "backref", "flag", "group", "named", "never"])
check("S_CORE known", all(p in c16.S_PATTERNS for p in c16.S_CORE), True)
n = len(c16.S_PATTERNS)
check("pattern sets thorough", len(c16.s_pattern_sets("thorough")), n + n * (n - 1) + n * (n - 1) * (n - 2))
k = len(c16.S_CORE)
check("pattern sets quick", len(c16.s_pattern_sets("quick")), n + n * (n - 1) + k * (k - 1) * (k - 2))
check("pattern sets unique", len(set(c16.s_pattern_sets("thorough"))), len(c16.s_pattern_sets("thorough")))
check("sets: both orders", ("group", "backref") in c16.s_pattern_sets("quick") and ("backref", "group") in c16.s_pattern_sets("quick"), True)

# verdicts on synthetic outcomes
ST = (("rows", "tuple", [c16.STATUS_ROW]), 1, ("desc", [("status", 2)]), None)
ROW = (("rows", "tuple", [(2,)]), 2, ("desc", [("number of rows inserted", 0)]), None)
check("status ok", c16.status_problems((None, [ST])), [])
check("status dict ok", c16.status_problems((None, [(("rows", "dict", [(("status", c16.STATUS_ROW[0]),)]), 1, ("desc", [("status", 2)]), None)])), [])
check("status raised", c16.status_problems((("x.E", 1, "2"), [])), [("raised", ("x.E", 1, "2"))])
check("status executed", [p[0] for p in c16.status_problems((None, [ROW]))], ["rows", "column"])
PSET = ("group", "backref")
unm = [s for s in c16.S_STMTS if not c16.s_matching(PSET, s)]
good_with = {"fixture": [], "outcomes": [(None, [ST]) if c16.s_matching(PSET, s) else (None, [ROW]) for s in c16.S_STMTS], "state": ("D", "T", False)}
good_without = {"fixture": [], "outcomes": [(None, [ROW]) for _ in unm], "state": ("D", "T", False)}
v = c16.nops_verdicts(PSET, good_with, good_without)
check("verdicts all fine", [x[2] for x in v], [False] * (len(c16.S_STMTS) + 1))
check("verdict classes", sorted({(x[0], x[1]) for x in v}), [
    ("C16.nop.match", "set:final-state,size=2"),
    ("C16.nop.match", "set:matched-by=backref@later"),
    ("C16.nop.match", "set:matched-by=group@first"),
    ("C16.nop.other", "set:unmatched,size=2"),
])
bad_with = dict(good_with, outcomes=[(None, [ROW]) for _ in c16.S_STMTS])  # the matching statements were executed
v = c16.nops_verdicts(PSET, bad_with, good_without)
check("verdict first divergence only", [(x[1], x[2]) for x in v if x[2]], [("set:matched-by=group@first", True)])
check("verdict stops", v[-1][3]["statement"], "grant select on t to role r")
v = c16.nops_verdicts(PSET, dict(good_with, state=("D2", "T", False)), good_without)
check("verdict final state", [(x[0], x[1]) for x in v if x[2]], [("C16.nop.match", "set:final-state,size=2")])
v = c16.nops_verdicts(PSET, dict(good_with, fixture=[("create table t", "re.error", None, None)]), good_without)
check("verdict fixture", [(x[0], x[1], x[2]) for x in v], [("C16.nop.other", "set:unmatched,size=2", True)])
diff_without = dict(good_without, outcomes=[(None, [ST])] + good_without["outcomes"][1:])
v = c16.nops_verdicts(PSET, good_with, diff_without)
check("verdict unmatched differs", [(x[0], x[1]) for x in v if x[2]], [("C16.nop.other", "set:unmatched,size=2")])

# ---- 7c. flows ------------------------------------------------------------------------------------------------------
check("flow literal sq", c16.flow_literal("sq", "bs_bs"), "'a" + chr(92) * 2 + "b'")
check("flow literal dq", c16.flow_literal("dq", "d_bs"), "$$a" + chr(92) + "tb$$")
check("flow literal const", c16.flow_literal("const", "hex"), "x'4142'")
check("flow statements", c16.flow_statements("set_set_select", "sq", "quote2"), ["set v = 'it''s'", "set w = $v", "select $w"])
check("flow statements ctas", c16.flow_statements("ctas_select", "dq", "d_semi"), ["create table c3 as select $$d;d$$ as v", "select v from c3"])
for fam in ("sq", "dq", "const"):
    src = {"sq": c16.LITS, "dq": c16.DLITS, "const": c16.CONSTS}[fam]
    check(f"flow quick {fam} known", all(x in src for x in c16.FLOW_LITS_QUICK[fam]), True)
    check(f"flow thorough {fam}", c16.flow_lit_alphabet(fam, "thorough"), list(src))
for fid, (stmts, idx, fams) in c16.FLOWS.items():
    check(f"flow {fid} slot in the first statement only", ["{LIT}" in s for s in stmts], [True] + [False] * (len(stmts) - 1))
    check(f"flow {fid} probe is the last statement", idx, len(stmts) - 1)
    for st in c16.STYLES:
        ss = c16.flow_statements(fid, fams[0], c16.flow_lit_alphabet(fams[0], "quick")[0])
        check(f"flow {fid} style {st} splits back", codes(c16.STYLES[st](ss)), [S.normalise(x) for x in ss])


def es_side(values, exc=None):
    return {"exc": exc, "raw": [(("rows", "tuple", [(v,)]), 1, ("desc", []), None) for v in values]}


BSV = "a" + chr(92) + "tb"
check("flow ok", c16.compare_flow(es_side(["s", BSV]), 1, BSV, ("value", BSV)), [])
check("flow wrong value", [x[:2] for x in c16.compare_flow(es_side(["s", "a\tb"]), 1, BSV, ("value", BSV))], [("C16.flow", "value")])
check("flow wrong type", [x[:2] for x in c16.compare_flow(es_side(["s", 16706]), 1, b"AB", ("value", b"AB"))], [("C16.flow", "value")])
check("flow engine reads the constant differently", [x[:2] for x in c16.compare_flow(es_side(["s", "X"]), 1, BSV, ("value", "X"))], [("note", "direct_path_literal_deviation")])
check("flow differs from engine and reference", [x[:2] for x in c16.compare_flow(es_side(["s", "Y"]), 1, BSV, ("value", "X"))], [("C16.flow", "value")])
check("flow raised", [x[:2] for x in c16.compare_flow(es_side([], exc=("E", 1, "2", "m")), 1, BSV, ("value", BSV))], [("C16.flow", "raised")])
check("flow raised like the constant alone", [x[:2] for x in c16.compare_flow(es_side([], exc=("E", 1, "2", "m")), 1, BSV, ("raised", ("E", 1, "2")))], [("note", "direct_path_literal_deviation")])
check("class flow", c16.class_key("C16.flow", ("FLOW", "set_select", "sq", "bs_bs"), {"exc": None, "n": 2}), "flow=set_select,sq=bs_bs")
check("class flow other part", c16.class_key("C16.flow", ("LIT", "select", "plain", "oneline", "alone"), {"exc": None, "n": 1}), None)
check("class flow result", c16.class_key("C16.result", ("FLOW", "set_select", "const", "hex"), {"exc": None, "n": 2}), "flow=set_select,const=hex")
check("class flow literal clause n/a", c16.class_key("C16.literal", ("FLOW", "set_select", "const", "hex"), {"exc": None, "n": 2}), None)

# ---- 8. comparison function on synthetic outcomes ---------------------------------------------------------------------


def side(n=1, curs=("c0",), exc=None, state=("D", "T", False), raw=None):
    return {"n": n, "curs": list(curs), "raw": raw or [], "exc": exc, "pre": "D", "state": state, "ret_type": "list"}


def clauses(bad):
    return sorted(b[0] for b in bad)


check("compare equal", c16.compare(side(), side(), 1, True), [])
check("compare count", clauses(c16.compare(side(), side(n=2, curs=("c0", "c1")), 1, True)), ["C16.count"])
check("compare rc False wants none", clauses(c16.compare(side(), side(), 1, False)), ["C16.count"])
check("compare rc False ok", c16.compare(side(), side(n=0, curs=()), 1, False), [])
check("compare result", clauses(c16.compare(side(), side(curs=("other",)), 1, True)), ["C16.result"])
check("compare state", clauses(c16.compare(side(), side(state=("D2", "T", False)), 1, True)), ["C16.digest"])
check("compare tx", clauses(c16.compare(side(), side(state=("D", "T", True)), 1, True)), ["C16.digest"])
E1 = ("snowflake.connector.errors.ProgrammingError", 2003, "42S02", "msg one")
E1b = ("snowflake.connector.errors.ProgrammingError", 2003, "42S02", "another message")
E2 = ("sqlglot.errors.ParseError", None, None, "x")
check("compare same failure, message not demanded", c16.compare(side(0, (), E1), side(0, (), E1b), 2, True), [])
check("compare other failure", clauses(c16.compare(side(0, (), E1), side(0, (), E2), 2, True)), ["C16.failure"])
check("compare failure only one side", clauses(c16.compare(side(), side(0, (), E2), 1, True)), ["C16.failure"])
check(
    "compare failure + state",
    clauses(c16.compare(side(1, ("c0",), E1, ("D2", "T", False)), side(0, (), E2), 3, True)),
    ["C16.digest", "C16.failure"],
)


def raw_row(v, kind="tuple", name="C"):
    row = ((name, v),) if kind == "dict" else (v,)
    return [(("rows", kind, [row]), 1, ("desc", [(name, 2, None, None, None, None, True)]), None)]


ok = side(raw=raw_row("a;b"))
check("literal ok", c16.compare(ok, side(raw=raw_row("a;b")), 1, True, ("row", 0), "a;b"), [])
check("literal ok dict", c16.compare(ok, side(raw=raw_row("a;b", "dict")), 1, True, ("row", 0), "a;b"), [])
check("literal wrong", clauses(c16.compare(ok, side(raw=raw_row("a")), 1, True, ("row", 0), "a;b")), ["C16.literal"])
check(
    "literal wrong both ways the same -> note only",
    clauses(c16.compare(side(raw=raw_row("a")), side(raw=raw_row("a")), 1, True, ("row", 0), "a;b")),
    ["note"],
)
check("desc probe", c16.compare(ok, side(raw=raw_row("x")), 1, True, ("desc", 0), "C"), [])
check(
    "desc probe wrong",
    clauses(c16.compare(side(raw=raw_row("x", name="c")), side(raw=raw_row("x")), 1, True, ("desc", 0), "c")),
    ["C16.literal"],
)
check("desc probe wrong both ways", clauses(c16.compare(ok, side(raw=raw_row("x")), 1, True, ("desc", 0), "c")), ["note"])
check("net_effect i", c16.net_effect("i"), True)
check("net_effect q", c16.net_effect("qnvfrk"), False)
check("net_effect begin open", c16.net_effect("b"), True)
check("net_effect begin insert rollback", c16.net_effect("bir"), False)
check("net_effect begin insert commit", c16.net_effect("bik"), True)
check("net_effect begin rollback", c16.net_effect("bk"), False)
check("net_effect use is not transactional", c16.net_effect("bur"), True)

# ---- 9. classifier -----------------------------------------------------------------------------------------------------
one_ok = side()
one_fail_parse_at1 = side(1, ("c0",), E2)
one_fail_rt_at1 = side(1, ("c0",), E1)
one_fail_rt_at0 = side(0, (), E1)
ck = lambda item, one, clause: c16.class_key(clause, item, one)  # noqa: E731
check("class LIT", ck(("LIT", "select", "semi", "oneline", "alone"), one_ok, "C16.result"), "tmpl=select,lit=semi")
check("class KIND", ck(("KIND", "object"), one_ok, "C16.result"), "kind=object")
check("class LIST digest parse first", ck(("LIST", "ix"), one_fail_parse_at1, "C16.digest"), "list:unparsable=present,effect-before")
check("class LIST digest parse first no effect", ck(("LIST", "qx"), one_fail_parse_at1, "C16.digest"), "list:unparsable=present,no-effect-before")
check("class LIST failure parse first", ck(("LIST", "ix"), one_fail_parse_at1, "C16.failure"), "list:unparsable=first-failure")
check("class LIST failure parse later", ck(("LIST", "ifx"), one_fail_rt_at1, "C16.failure"), "list:unparsable=after-first-failure")
check("class LIST digest parse later", ck(("LIST", "ifx"), one_fail_rt_at1, "C16.digest"), "list:unparsable=present,effect-before")
check("class LIST digest runtime only", ck(("LIST", "fi"), one_fail_rt_at0, "C16.digest"), "list:unparsable=none,no-effect-before")
check("class LIST result not applicable on failure", ck(("LIST", "fi"), one_fail_rt_at0, "C16.result"), None)
check("class LIST count not applicable on failure", ck(("LIST", "fi"), one_fail_rt_at0, "C16.count"), None)
check("class literal only for probed templates", ck(("LIT", "set_var", "semi", "oneline", "alone"), one_ok, "C16.literal"), None)
check("class literal", ck(("LIT", "insert", "semi", "indented", "alone"), one_ok, "C16.literal"), "tmpl=insert,lit=semi")

# ---- 9b. cursor histories (NOPH): reference reading of the one-row status, alphabets consistent ----------------------
ST = "Statement executed successfully."
check("status all tuple", c16.h_expected_status("all", "tuple"), [("all", [(ST,)]), ("then-one", None)])
check("status ones dict", c16.h_expected_status("one_by_one", "dict"), [("ones", [{"status": ST}, None])])
check("status many", c16.h_expected_status("many2", "tuple"), [("many", [(ST,)], [])])
for ps, targets in c16.H_MATCHING.items():
    for sql, params in targets:
        check(f"H_MATCHING {ps} {sql!r} matches", c16.nop_expected_match(ps, sql, params), True)
    for sql, params in c16.H_OTHER:
        check(f"H_OTHER {sql!r} does not match {ps}", c16.nop_expected_match(ps, sql, params), False)
    for pid, ops in c16.H_PRIORS.items():
        for op in ops:
            if op[0] == "exec":
                check(f"prior {pid} statement does not match {ps}", c16.nop_expected_match(ps, op[1], None), False)
check("quick priors known", all(p in c16.H_PRIORS for p in c16.H_PRIORS_QUICK), True)
check("every non-empty pattern set has a matching history target", sorted(p for p, t in c16.H_MATCHING.items() if not t), ["empty", "none"])

# inline comments (reference): only comments with code of the same statement on both sides
check("inline none", S.inline_comments("-- a\nselect 1; /* b */ select 2 /* c */ ; -- d"), [])
check("inline block", S.inline_comments("select /* m; */ 1; select 2"), [("/* m; */", False)])
check("inline line", S.inline_comments("select 1; select -- it's\n 2 -- t\n;"), [("-- it's", False)])
check("inline own line", S.inline_comments("select\n  -- it's\n 2"), [("-- it's", True)])
check("inline two", S.inline_comments("select /* a */\n /* b */ 2"), [("/* a */", False), ("/* b */", True)])
check("inline after line comment", S.inline_comments("select -- a\n/* b */ 2"), [("-- a", False), ("/* b */", True)])
check("inline not in constant", S.inline_comments("select '/* x */ -- y' , 1"), [])
check("_inline same line", c16._inline("select\n    'x'", "-- c\n"), "select -- c\n\n    'x'")
check("_inline own line", c16._inline("select 'x'", "-- c\n", own_line=True), "select\n-- c\n 'x'")
check("_inline one word", c16._inline("begin", "/* c */ "), "begin /* c */ ")
check(
    "class with quote in inline comment",
    c16.class_key("C16.literal", ("LIT", "select", "tab", "oneline", "alone"), one_ok, True, "select -- it's\n 'a'"),
    "tmpl=select,lit=tab,quote-in-inline-comment=same-line",
)
check(
    "class with plain inline comment",
    c16.class_key("C16.literal", ("LIT", "select", "tab", "oneline", "alone"), one_ok, True, "select /* m */ 'a'; -- it's"),
    "tmpl=select,lit=tab",
)

check(
    "class SET with own-line comment",
    c16.class_key("C16.failure", ("LIT", "set_var", "tab", "oneline", "alone"), one_ok, True, "set\n-- mid; 'q\n v = 'a'; select\n-- x\n $v"),
    "tmpl=set_var,own-line-comment-before-name",
)
check(
    "class SET with same-line comment",
    c16.class_key("C16.result", ("LIT", "set_var", "tab", "oneline", "alone"), one_ok, True, "set -- mid; 'q\n v = 'a'"),
    "tmpl=set_var,lit=tab,quote-in-inline-comment=same-line",
)

# ---- 9c. process histories (NOPP): alphabets consistent with the reference matcher -------------------------------------
import re as _re


def _m(sql):
    return any(_re.match(p, sql, _re.IGNORECASE) for p in c16.P_PATTERNS)


check("P_MATCH matches", _m(c16.P_MATCH), True)
check("P_OTHER does not match", _m(c16.P_OTHER), False)
for nid, stmts in c16.P_NOPPERS.items():
    for sql in stmts:
        check(f"first statement {nid} {sql!r} does not match", _m(sql), False)
for cid, (stmts, where) in c16.P_CHANGES.items():
    for sql in stmts:
        check(f"change {cid} {sql!r} does not match", _m(sql), False)
    check(f"change {cid} place", where == "conn1" or where in ("instance2", "instance2_with_t") or (isinstance(where, tuple) and where[0] == "conn2"), True)
for f in c16.FIXTURE:
    check(f"fixture {f!r} does not match P_PATTERNS", _m(f), False)
check("quick first statements known", all(n in c16.P_NOPPERS for n in c16.P_NOPPERS_QUICK), True)
check("quick changes known", all(n in c16.P_CHANGES for n in c16.P_CHANGES_QUICK), True)
check("state diff", c16._state_diff("abcXdef", "abcYdef"), {"before": "abcXdef", "after": "abcYdef"})
for tier, n in (("quick", len(c16.P_NOPPERS_QUICK) * len(c16.P_CHANGES_QUICK)), ("thorough", len(c16.P_NOPPERS) * len(c16.P_CHANGES))):
    check(f"NOPP items {tier}", len([i for i in c16.items(tier) if i[0] == "NOPP"]), n)

# ---- 10. enumeration sizes are what the bounds say ---------------------------------------------------------------------
for tier in ("quick", "thorough"):
    its = c16.items(tier)
    check(f"items unique {tier}", len(set(its)), len(its))
    lists = [i[1] for i in its if i[0] == "LIST"]
    want = set()
    import itertools

    for alpha, mx in c16.LIST_BOUNDS[tier]:
        for ln in range(0, mx + 1):
            want |= {"".join(p) for p in itertools.product(alpha, repeat=ln)}
    check(f"lists complete {tier}", sorted(lists), sorted(want))

print(f"test_c16: {N[0]} checks, {len(FAILS)} failures")
for f in FAILS[:40]:
    print("  FAIL", f)
sys.exit(1 if FAILS else 0)
