#!/venv/bin/python
"""Self-test of the C03 reference model (no fakesnow involved): name resolution per qualification level and session
context, the "needs a current database / schema" rule for statements with several table references, CTE names, and
the result / effect of every statement shape - against hand-written expectations from SQL semantics and the Snowflake
documentation ("Name resolution", errors 090105 / 090106, "WITH": a CTE name takes precedence over a table name).

    /venv/bin/python selftest/test_c03.py      exit 0 = all good, 1 = a reference component is wrong
"""
import os
import sys

sys.path.insert(0, os.path.dirname(os.path.dirname(os.path.abspath(__file__))))

from checks import c03  # noqa: E402

FAILS = []
N = [0]


def check(name, got, want):
    N[0] += 1
    if got != want:
        FAILS.append(f"{name}: got {got!r}, want {want!r}")


def model(ctx0, ctx1=(None, None)):
    m = c03.Model()
    m.cat = {d: {s: {"T": ("table", [int(d[2] + s[1])])} for s in ("S1", "S2")} for d in ("DB1", "DB2")}
    m.ctx = [list(ctx0), list(ctx1)]
    return m


U, S2, Q = (0, None, None), (1, None, "S2"), (2, "DB2", "S1")

# ---- a single reference: resolution per level and context
for ctx, ref, want in [
    (("DB1", "S1"), U, ("ok", "DB1", "S1")),
    (("DB1", "S1"), S2, ("ok", "DB1", "S2")),
    (("DB1", "S1"), Q, ("ok", "DB2", "S1")),
    (("DB2", "S2"), U, ("ok", "DB2", "S2")),
    (("DB1", None), U, ("err", 90106)),
    (("DB1", None), S2, ("ok", "DB1", "S2")),
    (("DB1", None), Q, ("ok", "DB2", "S1")),
    ((None, None), U, ("err", 90105)),
    ((None, None), S2, ("err", 90105)),
    ((None, None), Q, ("ok", "DB2", "S1")),
]:
    check(f"resolve {ctx} {ref}", model(ctx).resolve(0, *ref), want)

# ---- statements: any reference that lacks its context makes the statement fail; database is reported before schema
q = lambda m, shape, a, b, tag=500: m.step(0, ("query", shape, a, b), tag)  # noqa: E731
check("plain full", q(model(("DB1", "S1")), "plain", U, None), ("ok", [(11,)]))
check("cte body full", q(model(("DB1", "S1")), "cte_body", S2, None), ("ok", [(12,)]))
check("cte body no schema", q(model(("DB1", None)), "cte_body", U, None), ("err", 90106))
check("cte body no schema, schema-qualified", q(model(("DB1", None)), "cte_body", S2, None), ("ok", [(12,)]))
check("cte body no database", q(model((None, None)), "cte_body", S2, None), ("err", 90105))
check("cte body no database, qualified", q(model((None, None)), "cte_body", Q, None), ("ok", [(21,)]))
check("cte name needs nothing", q(model((None, None)), "cte_only", None, None), ("ok", [(1,)]))
check("cte name spelled like the table needs nothing", q(model((None, None)), "cte_only_named_like_table", None, None), ("ok", [(1,)]))
check("cte named like table reads the qualified table", q(model(("DB1", "S1")), "cte_named_like_table", S2, None), ("ok", [(12,)]))
check("join second table lacks schema", q(model(("DB1", None)), "join", Q, U), ("err", 90106))
check("join second table lacks database", q(model((None, None)), "join", Q, S2), ("err", 90105))
check("join first lacks schema, second fine", q(model(("DB1", None)), "join", U, Q), ("err", 90106))
check("join no database: 90105 whatever the order", q(model((None, None)), "join", U, S2), ("err", 90105))
check("join fine", q(model(("DB1", None)), "join", S2, Q), ("ok", [(12, 21)]))
check("table joined to a cte name", q(model(("DB1", None)), "cte_then_join", None, U), ("err", 90106))
check("table joined to a cte name, full", q(model(("DB2", "S2")), "cte_then_join", None, U), ("ok", [(1, 22)]))
check("table then cte name", q(model(("DB2", "S2")), "join_then_cte", S2, None), ("ok", [(22, 1)]))
check("cte body + joined table", q(model(("DB1", "S1")), "cte_body_join", U, Q), ("ok", [(11, 21)]))
check("cte body lacks, joined table fine", q(model(("DB1", None)), "cte_body_join", U, Q), ("err", 90106))
check("two cte bodies", q(model(("DB1", None)), "two_cte_bodies", Q, U), ("err", 90106))
check("where subquery keeps rows <= max", q(model(("DB1", "S1")), "where_subquery", S2, U), ("ok", []))
check("where subquery keeps rows <= max (2)", q(model(("DB1", "S1")), "where_subquery", U, S2), ("ok", [(11,)]))
check("select list subquery", q(model(("DB1", "S1")), "select_list_subquery", U, Q), ("ok", [(11, 21)]))
check("scalar subquery", q(model(("DB1", "S1")), "scalar_subquery", Q, None), ("ok", [(21,)]))
check("union all", q(model(("DB1", "S1")), "union", Q, U), ("ok", [(11,), (21,)]))
check("union all same table twice", q(model(("DB1", "S1")), "union", U, U), ("ok", [(11,), (11,)]))
check("comma join", q(model(("DB1", "S2")), "comma_join", U, U), ("ok", [(12, 12)]))
check("derived table", q(model(("DB1", "S2")), "derived_table", U, None), ("ok", [(12,)]))
check("cte chain", q(model(("DB1", "S2")), "cte_chain", U, None), ("ok", [(12,)]))

# ---- effects
m = model(("DB1", "S1"))
check("insert select", q(m, "insert_select", Q, U, 777), ("ok", None))
check("insert select effect", (m.cat["DB2"]["S1"]["T"][1], m.cat["DB1"]["S1"]["T"][1]), ([21, 777], [11]))
check("insert select into itself: one row per row read", (q(m, "insert_select_cte", Q, Q, 888), m.cat["DB2"]["S1"]["T"][1]), (("ok", None), [21, 777, 888, 888]))
m = model(("DB1", None))
check("insert select source lacks schema", q(m, "insert_select", Q, U), ("err", 90106))
check("... and changes nothing", m.cat["DB2"]["S1"]["T"][1], [21])
m = model(("DB1", "S1"))
check("ctas", (q(m, "ctas", S2, U), m.cat["DB1"]["S2"].get("U")), (("ok", None), ("table", [11])))
check("ctas again: exists", q(m, "ctas", S2, U), ("err", None))
check("ctas target lacks database", q(model((None, None)), "ctas", S2, Q), ("err", 90105))
m = model(("DB1", "S1"))
check("merge inserts the unmatched rows", (q(m, "merge_using_table", U, Q), m.cat["DB1"]["S1"]["T"][1]), (("ok", None), [11, 21]))
check("merge again: all matched", (q(m, "merge_using_table", U, Q), m.cat["DB1"]["S1"]["T"][1]), (("ok", None), [11, 21]))
check("merge with itself", (q(m, "merge_using_table", Q, Q), m.cat["DB2"]["S1"]["T"][1]), (("ok", None), [21]))
m = model(("DB1", "S1"))
del m.cat["DB1"]["S2"]
check("missing schema: some error, not a context error", q(m, "join", U, S2), ("err", None))
check("context error wins over a missing object", q(model(("DB1", None)), "join", U, (1, None, "NOPE")), ("err", 90106))

# ---- alphabet / sql text
ops = c03.shape_ops("quick")
check("every shape in the alphabet", sorted({o[1] for o in ops}), sorted(c03.SHAPES))
check("two-reference shapes get the full level product", len([o for o in ops if o[1] == "join"]), 9)
check("roles for every shape", sorted(c03.SHAPE_ROLES), sorted(c03.SHAPES))
for o in ops:
    sql = c03.op_sql(o, 5)
    if "{" in sql or "None" in sql:
        FAILS.append(f"unfilled template {o}: {sql}")
    if tuple(p for p, r in (("A", o[2]), ("B", o[3])) if r is not None) != c03.shape_positions(o[1]):
        FAILS.append(f"positions {o}")
    if sorted(c03.SHAPE_ROLES[o[1]]) != sorted(c03.shape_positions(o[1])):
        FAILS.append(f"roles {o}")
check("sql", c03.op_sql(("query", "cte_body_join", U, Q), 5), "with c as (select x from t) select c.x, b.x from c join db2.s1.t b on b.x > 0")
check("sql ctas", c03.op_sql(("query", "ctas", S2, U), 5), "create table s2.u as select x from t")
check("sql insert", c03.op_sql(("query", "insert_select", Q, S2), 5), "insert into db2.s1.t (x) select 5 from s2.t")

if FAILS:
    print("\n".join(FAILS))
    print(f"test_c03: {len(FAILS)} of {N[0]} FAILED")
    sys.exit(1)
print(f"test_c03: {N[0]} checks ok")
