#!/venv/bin/python
"""Unit tests of the three-valued-logic reference (hand-written expectations from the SQL standard's truth tables)."""
import os, sys
sys.path.insert(0, os.path.dirname(os.path.dirname(os.path.abspath(__file__))))
from mc.ref import sql3vl as R

fails = 0
def check(name, got, want):
    global fails
    if got != want:
        fails += 1
        print(f"FAIL {name}: got {got!r}, want {want!r}")

row = (1, "a", None)  # k=1, v='a', n=NULL
check("cmp eq", R.ev(("cmp", "k", "=", 1), row), True)
check("cmp null const", R.ev(("cmp", "k", "=", None), row), None)
check("cmp null col", R.ev(("cmp", "n", ">", 0), row), None)
check("isnull", R.ev(("isnull", "n"), row), True)
check("notnull", R.ev(("notnull", "n"), row), False)
check("in hit", R.ev(("in", "k", [1, None]), row), True)
check("in miss with null", R.ev(("in", "k", [2, None]), row), None)
check("notin miss with null", R.ev(("notin", "k", [2, None]), row), None)
check("notin hit", R.ev(("notin", "k", [1, None]), row), False)
check("notin plain", R.ev(("notin", "k", [2]), row), True)
# Kleene tables
T, F, U = ("true",), ("false",), ("cmp", "n", "=", 1)
for a, b, w in [(T, U, None), (F, U, False), (U, U, None), (T, T, True), (T, F, False)]:
    check(f"and {a}{b}", R.ev(("and", a, b), row), w)
for a, b, w in [(T, U, True), (F, U, None), (U, U, None), (F, F, False)]:
    check(f"or {a}{b}", R.ev(("or", a, b), row), w)
check("not unknown", R.ev(("not", U), row), None)
check("colcmp null", R.ev(("colcmp", "k", "=", "n"), row), None)
# DML: only TRUE rows are affected
rows = [(1, "a", 10), (2, "b", None), (None, "c", 30)]
check("delete unknown keeps", R.delete(rows, ("cmp", "k", "<>", 1)), ([(1, "a", 10), (None, "c", 30)], 1))
check("delete all", R.delete(rows, None), ([], 3))
check("update incr null", R.update(rows, (("incr", "n", 1),), None), ([(1, "a", 11), (2, "b", None), (None, "c", 31)], 3))
check("update where", R.update(rows, (("const", "v", "z"),), ("isnull", "k")), ([(1, "a", 10), (2, "b", None), (None, "z", 30)], 1))
check("sql render", R.sql(("and", ("cmp", "v", "=", "it's"), ("notin", "k", [1, None]))), "(v = 'it''s') AND (k NOT IN (1, NULL))")
print("test_sql3vl:", "ok" if not fails else f"{fails} FAILED")
sys.exit(1 if fails else 0)
