#!/venv/bin/python
"""Unit tests of the three-valued-logic reference (hand-written expectations from the SQL standard's truth tables)."""
import os, sys
sys.path.insert(0, os.path.dirname(os.path.dirname(os.path.abspath(__file__))))
from mc.ref import sql3vl as R

fails = 0
def check(name, got, want):
    global fails
    if got != want:
        fails += 1
        print(f"FAIL {name}: got {got!r}, want {want!r}")

row = (1, "a", None)  # k=1, v='a', n=NULL
check("cmp eq", R.ev(("cmp", "k", "=", 1), row), True)
check("cmp null const", R.ev(("cmp", "k", "=", None), row), None)
check("cmp null col", R.ev(("cmp", "n", ">", 0), row), None)
check("isnull", R.ev(("isnull", "n"), row), True)
check("notnull", R.ev(("notnull", "n"), row), False)
check("in hit", R.ev(("in", "k", [1, None]), row), True)
check("in miss with null", R.ev(("in", "k", [2, None]), row), None)
check("notin miss with null", R.ev(("notin", "k", [2, None]), row), None)
check("notin hit", R.ev(("notin", "k", [1, None]), row), False)
check("notin plain", R.ev(("notin", "k", [2]), row), True)
# Kleene tables
T, F, U = ("true",), ("false",), ("cmp", "n", "=", 1)
for a, b, w in [(T, U, None), (F, U, False), (U, U, None), (T, T, True), (T, F, False)]:
    check(f"and {a}{b}", R.ev(("and", a, b), row), w)
for a, b, w in [(T, U, True), (F, U, None), (U, U, None), (F, F, False)]:
    check(f"or {a}{b}", R.ev(("or", a, b), row), w)
check("not unknown", R.ev(("not", U), row), None)
check("colcmp null", R.ev(("colcmp", "k", "=", "n"), row), None)
# NULL-safe comparisons (Snowflake docs, EQUAL_NULL: "EQUAL_NULL(NULL, NULL) is TRUE, EQUAL_NULL(x, NULL) and
# EQUAL_NULL(NULL, x) are FALSE"; IS [NOT] DISTINCT FROM likewise never returns NULL) - both argument orders
K, N, V = ("col", "k"), ("col", "n"), ("col", "v")
C = lambda x: ("const", x)  # noqa: E731
for a, b, w in [
    (K, C(1), True), (C(1), K, True), (K, C(2), False), (C(2), K, False),
    (N, C(1), False), (C(1), N, False), (N, C(None), True), (C(None), N, True),
    (K, C(None), False), (C(None), K, False), (C(None), C(None), True),
    (K, N, False), (N, K, False), (N, N, True), (K, K, True), (V, C("a"), True), (C("b"), V, False),
]:
    check(f"equal_null {a}{b}", R.ev(("equal_null", a, b), row), w)
    check(f"isnotdistinct {a}{b}", R.ev(("isnotdistinct", a, b), row), w)
    check(f"isdistinct {a}{b}", R.ev(("isdistinct", a, b), row), not w)
    check(f"not equal_null {a}{b}", R.ev(("not", ("equal_null", a, b)), row), not w)
check("equal_null sql", R.sql(("equal_null", N, C(None))), "EQUAL_NULL(n, NULL)")
check("isdistinct sql", R.sql(("isdistinct", C("a"), V)), "'a' IS DISTINCT FROM v")
check("isnotdistinct sql", R.sql(("not", ("isnotdistinct", K, N))), "NOT (k IS NOT DISTINCT FROM n)")
rows3 = [(1, "a", 1), (None, "b", 1), (1, "c", None), (None, "d", None), (2, "e", 1)]
check("delete not equal_null", R.delete(rows3, ("not", ("equal_null", K, N))), ([(1, "a", 1), (None, "d", None)], 3))
check("delete equal_null", R.delete(rows3, ("equal_null", K, N)), ([(None, "b", 1), (1, "c", None), (2, "e", 1)], 2))
# DML: only TRUE rows are affected
rows = [(1, "a", 10), (2, "b", None), (None, "c", 30)]
check("delete unknown keeps", R.delete(rows, ("cmp", "k", "<>", 1)), ([(1, "a", 10), (None, "c", 30)], 1))
check("delete all", R.delete(rows, None), ([], 3))
check("update incr null", R.update(rows, (("incr", "n", 1),), None), ([(1, "a", 11), (2, "b", None), (None, "c", 31)], 3))
check("update where", R.update(rows, (("const", "v", "z"),), ("isnull", "k")), ([(1, "a", 10), (2, "b", None), (None, "z", 30)], 1))
check("sql render", R.sql(("and", ("cmp", "v", "=", "it's"), ("notin", "k", [1, None]))), "(v = 'it''s') AND (k NOT IN (1, NULL))")
print("test_sql3vl:", "ok" if not fails else f"{fails} FAILED")
sys.exit(1 if fails else 0)
