#!/venv/bin/python
"""Engine self-test for E3: a toy check-then-act race must be found with one preemption and not with zero; replaying a
recorded schedule twice gives identical observations; a contended cooperative lock makes the race disappear; a lock
cycle is reported as deadlock."""
import os, sys, threading
sys.path.insert(0, os.path.dirname(os.path.dirname(os.path.abspath(__file__))))
os.environ.setdefault("PYTHONHASHSEED", "0")
import duckdb
from mc import sched, seam

fails = 0
def check(name, cond):
    global fails
    if not cond:
        fails += 1
        print("FAIL", name)

def make_env(lock=False, two_locks=False):
    def mk():
        con = duckdb.connect(":memory:")  # proxied by seam.install() inside run_schedule
        con.execute("create table c (n int)"); con.execute("insert into c values (0)")
        class Env: pass
        e = Env(); e.con = con; e.lock = threading.Lock() if lock else None
        if two_locks:
            e.l1, e.l2 = threading.Lock(), threading.Lock()
        sched.coop_locks(e)
        return e
    return mk

def incr(env):
    cur = env.con.cursor()
    if env.lock: env.lock.acquire()
    try:
        n = cur.execute("select n from c").fetchall()[0][0]      # check
        cur.execute(f"update c set n = {n + 1}")                  # act (lost update if preempted in between)
    finally:
        if env.lock: env.lock.release()
    return n

def explore(mk, bodies, bound):
    frontier, outcomes, n = [[]], {}, 0
    while frontier:
        nxt = []
        for prefix in frontier:
            x = sched.run_schedule(prefix, mk, bodies); n += 1
            final = x["env"].con._r.execute("select n from c").fetchall()[0][0] if not x["deadlock"] else "deadlock"
            outcomes.setdefault(final, x["choices"])
            nxt += sched.children(len(prefix), x["choices"], x["points"], bound)
        frontier = nxt
    return n, outcomes

n0, o0 = explore(make_env(), [incr, incr], 0)
check("bound 0 sees only the serial outcome", set(o0) == {2})
n1, o1 = explore(make_env(), [incr, incr], 1)
check("bound 1 finds the lost update", 1 in o1 and 2 in o1)
check("bound 1 explores more schedules than bound 0", n1 > n0)
# replay determinism
bad = o1[1]
a = sched.run_schedule(bad, make_env(), [incr, incr]); b = sched.run_schedule(bad, make_env(), [incr, incr])
check("replay identical", a["choices"] == b["choices"] and a["results"] == b["results"])
# with a (cooperative) lock the race is gone at bound 2
n2, o2 = explore(make_env(lock=True), [incr, incr], 2)
check("lock removes the race", set(o2) == {2})
# lock-order inversion is reported as deadlock
def ab(env):
    with env.l1:
        env.con.cursor().execute("select 1")
        with env.l2:
            return 1
def ba(env):
    with env.l2:
        env.con.cursor().execute("select 1")
        with env.l1:
            return 2
n3, o3 = explore(make_env(two_locks=True), [ab, ba], 1)
check("deadlock detected", "deadlock" in o3)
seam.uninstall()
print(f"test_sched: schedules bound0={n0} bound1={n1} lock={n2} deadlock={n3};", "ok" if not fails else f"{fails} FAILED")
sys.exit(1 if fails else 0)
