#!/bin/bash
cd "$(dirname "$0")/.."; rc=0
for t in selftest/test_*.py; do /venv/bin/python $t 2>&1 | tail -1 || rc=1; [ ${PIPESTATUS[0]} -ne 0 ] && rc=1; done; exit $rc
