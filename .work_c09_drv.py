import sys, time
sys.path.insert(0,'/verif')
from mc import core
import checks.c09 as c
t0=time.process_time()
acc=core.Acc()
for h in c.COLLISIONS[-10:]:
    for i in range(1,len(h)+1):
        m=c.Model()
        for o in h[:i]:
            assert c.OPS[o][1](m), (h,o)
            c.OPS[o][2](m)
    c.sweep_item(h, acc, "quick")
    c.sweep_item(("stepwise", h), acc, "quick")
for k,v in acc.viol.items():
    print(k, v["count"], str(v["detail"])[:300])
print(dict(acc.counts) if hasattr(acc,'counts') else '', time.process_time()-t0)
