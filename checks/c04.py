"""C04 — DML changes exactly the right rows and reports the true affected count.

E1: explicit-state search whose states are the multiset of rows of table T; transitions are DML statements built
from a small grammar (INSERT forms, UPDATE/DELETE x predicate grammar with three-valued logic, TRUNCATE), executed
on the real cursor; the reference (mc/ref/sql3vl.py) is stepped in lock-step. Depth-bounded BFS with dedupe on the
row multiset. Plus an E2 list of DDL statements x name spellings for the status message.

The predicate grammar includes Snowflake's NULL-safe comparisons (EQUAL_NULL(a, b), a IS [NOT] DISTINCT FROM b; every
form x operand pair in both argument orders x contexts where FALSE and NULL differ, and a second exhaustive depth-3
grammar mixing them with a three-valued atom), and INSERT ... SELECT that stores the value of a predicate.

Used sessions: histories  [earlier statement of the session: every route x cause of failure, see USED] + DML  in a fresh
instance, where T is judged through the writer, through a second session and through raw DuckDB (ground truth), and
again after a ROLLBACK (no-op) and after closing the writer.

Not demanded: TRUNCATE's status row/rowcount; the second status column of UPDATE beyond being 0; rowcount of DDL.
"""
from __future__ import annotations

import itertools

from mc import core, observe
from mc.ref import sql3vl as R

PID = "C04"
LEVEL = "model_checking"

UNIVERSE = [(1, "a", 10), (2, "b", None), (None, "c", 30), (1, "a", 10), (3, None, 5), (2, "a", 2)]
SRC = [(1, "s", 100), (4, "t", None), (None, "u", 7)]
BYST = [(9, "keep", 9), (None, None, None)]


def rowsets(tier):
    idx = range(len(UNIVERSE))
    if tier == "quick":
        picks = [(), (0,), (0, 3), (1, 2, 4), (0, 1, 2, 3, 4), (2,)]
    else:
        picks = [c for k in range(0, 4) for c in itertools.combinations(idx, k)] + [(0, 1, 2, 3, 4), (1, 2, 3, 4, 5)]
    return [tuple(sorted((UNIVERSE[i] for i in p), key=repr)) for p in picks]


ATOMS = [
    ("cmp", "k", "=", 1),
    ("cmp", "k", "<>", 1),
    ("cmp", "k", ">", 1),
    ("cmp", "k", "<=", 2),
    ("cmp", "n", ">=", 10),
    ("cmp", "v", "=", "a"),
    ("cmp", "v", "<>", "a"),
    ("cmp", "v", ">", "a"),
    ("isnull", "k"),
    ("notnull", "k"),
    ("isnull", "v"),
    ("notnull", "n"),
    ("colcmp", "k", "=", "n"),
    ("colcmp", "k", "<", "n"),
    ("in", "k", [1, 3]),
    ("in", "k", [1, None]),
    ("notin", "k", [1, None]),
    ("notin", "k", [2]),
    ("cmp", "k", "=", None),
    ("cmp", "k", "=", 99),
    ("true",),
    ("false",),
]
CORE = [ATOMS[0], ATOMS[2], ATOMS[5], ATOMS[8], ATOMS[10], ATOMS[18]]

# ---- NULL-safe comparisons: EQUAL_NULL(a, b), a IS DISTINCT FROM b, a IS NOT DISTINCT FROM b -------------------------------
# every form x every operand pair in BOTH argument orders (column/column, column/constant, column/NULL, NULL/NULL, over an
# integer and a text column). They are two-valued, so an implementation that answers NULL for one NULL operand is only
# seen where FALSE and NULL differ: under NOT, inside AND/OR under NOT, or when the value is stored (NS_CONTEXTS).
_K, _N, _V = ("col", "k"), ("col", "n"), ("col", "v")
NS_PAIRS = [
    (_K, _N),
    (_K, ("const", 1)),
    (_K, ("const", None)),
    (_N, ("const", 10)),
    (_V, ("const", "a")),
    (_V, ("const", None)),
]
NS_PAIRS = [pair for a, b in NS_PAIRS for pair in ((a, b), (b, a))] + [(_K, _K), (("const", None), ("const", None))]
NS_FORMS = ["equal_null", "isdistinct", "isnotdistinct"]
NS_ATOMS = [(f, a, b) for f in NS_FORMS for a, b in NS_PAIRS]
_G = ("cmp", "k", ">=", 2)  # an ordinary atom that is unknown for the rows with k NULL
NS_CONTEXTS = [
    lambda a: a,
    lambda a: ("not", a),
    lambda a: ("and", a, _G),
    lambda a: ("or", a, _G),
    lambda a: ("not", ("and", a, _G)),
    lambda a: ("not", ("or", a, _G)),
]
# members of the depth-1 alphabet (every initial row set x DELETE and every SET list)
NS_DEPTH1 = [
    ("equal_null", _K, _N),
    ("equal_null", _N, _K),
    ("equal_null", ("const", None), _K),
    ("isdistinct", _N, _K),
    ("isnotdistinct", _V, ("const", "a")),
    ("isdistinct", ("const", None), _V),
]
ATOMS += NS_DEPTH1
# atoms of the second exhaustive grammar (depth 3): one NULL-safe form each way round + an ordinary three-valued atom
G2_ATOMS = [("equal_null", _K, _N), ("isdistinct", _N, _K), _G, ("isnotdistinct", ("const", None), _K), ("equal_null", _V, ("const", "a"))]


def predicates(tier):
    ps = [None] + ATOMS
    ps += [("not", a) for a in (CORE if tier != "quick" else CORE[:3])]
    ps += [("not", a) for a in NS_DEPTH1]
    pairs = list(itertools.combinations(CORE, 2)) if tier != "quick" else list(itertools.combinations(CORE[:4], 2))
    for a, b in pairs:
        ps.append(("and", a, b))
        ps.append(("or", a, b))
    if tier != "quick":
        ps += [("not", ("and", a, b)) for a, b in pairs[:6]]
    return ps


# ---- the predicate grammar, exhaustively to depth 3 ------------------------------------------------------------------------
# atoms chosen so that combinations are contradictions / tautologies / NULL-valued for some rows (the places where
# two-valued reasoning about a predicate goes wrong): two halves of a partition of one column, a comparison with NULL,
# a test of another column, IS NULL of the first column
G_ATOMS = [("cmp", "k", ">=", 2), ("cmp", "k", "<", 2), ("cmp", "k", "=", None), ("cmp", "v", "=", "a"), ("isnull", "k"), ("colcmp", "n", ">", "k")]
G_ROWS = tuple(sorted(UNIVERSE, key=repr))  # all six rows: NULL in every column somewhere, duplicates


def grammar(depth, atoms):
    """all predicates of nesting depth <= depth over the atoms (NOT p, p AND q, p OR q; AND/OR up to commutation)"""
    levels = [list(atoms)]
    allp = list(atoms)
    for _ in range(depth - 1):
        prev = levels[-1]
        new = [("not", p_) for p_ in prev]
        for p_ in prev:
            for q_ in allp:
                if repr(p_) <= repr(q_) or q_ not in prev:
                    new.append(("and", p_, q_))
                    new.append(("or", p_, q_))
        levels.append(new)
        allp += new
    return allp


def shape(p_):
    t = p_[0]
    if t in ("not",):
        return f"not({shape(p_[1])})"
    if t in ("and", "or"):
        return f"{t}({shape(p_[1])},{shape(p_[2])})"
    if t in NS_FORMS:
        kind = lambda o: "col" if o[0] == "col" else ("null" if o[1] is None else "const")  # noqa: E731
        return f"{t}({kind(p_[1])},{kind(p_[2])})"
    return t if t != "cmp" or p_[3] is not None else "cmp_null"


def _cols_of(p_):
    t = p_[0]
    if t == "not":
        return _cols_of(p_[1])
    if t in ("and", "or"):
        return _cols_of(p_[1]) + _cols_of(p_[2])
    if t in NS_FORMS:
        return [o[1] for o in p_[1:3] if o[0] == "col"]
    if t in ("true", "false"):
        return []
    return [p_[1]]


def _ns_atoms(p_, neg=False):
    """the NULL-safe atoms of a predicate with their polarity (under an odd number of NOTs or not)"""
    t = p_[0]
    if t == "not":
        return _ns_atoms(p_[1], not neg)
    if t in ("and", "or"):
        return _ns_atoms(p_[1], neg) | _ns_atoms(p_[2], neg)
    return {("not:" if neg else "") + shape(p_)} if t in NS_FORMS else set()


def gstep(item, acc: core.Acc, tier):
    rows, st = item
    if st[0] == "insert_select_value":
        return step((rows, st), acc, tier)  # its class names the predicate already
    pr = st[-1]
    ns = _ns_atoms(pr)
    if ns:
        # predicates with NULL-safe comparisons: one class per set of (form, operand kinds, polarity), whatever the nesting
        return step((rows, st), acc, tier, ",null_safe=" + "+".join(sorted(ns)))
    cs = _cols_of(pr)
    extra = f",pred={shape(pr)},column_repeats={'yes' if len(set(cs)) < len(cs) else 'no'}"
    return step((rows, st), acc, tier, extra)


SETS = [
    (("const", "v", "z"),),
    (("incr", "n", 1),),
    (("const", "k", None),),
    (("concat", "v", "x"), ("const", "n", 0)),
    (("copy", "k", "n"),),
]


def statements(tier):
    st = []
    st += [
        ("insert_values", ((7, "q", 70),), None),
        ("insert_values", ((7, "q", 70), (8, None, None)), None),
        ("insert_values", ((7, "q", 70),), ("k", "v", "n")),
        ("insert_values", ((70, 7, "q"), (None, None, None)), ("n", "k", "v")),
        ("insert_values", ((7,),), ("k",)),
        ("insert_values", (("q", 7), ("r", 8), ("s", None)), ("v", "k")),
        ("insert_select", "src", None, None),
        ("insert_select", "src", ("cmp", "k", ">", 1), None),
        ("insert_select", "src", ("false",), None),
        ("insert_select", "src", ("isnull", "k"), ("k", "v")),
        ("insert_select", "t", None, None),
        ("insert_select", "t", ("cmp", "k", "=", 1), None),
        # INSERT ... SELECT whose source is a VALUES list (the count is the rows selected, not the tuples listed)
        ("insert_values_select", ((7, "q", 70), (8, "r", 80), (9, None, 90), (8, "r", 80)), "where", 7),
        ("insert_values_select", ((7, "q", 70), (8, "r", 80)), "where", 99),
        ("insert_values_select", ((7, "q", 70), (7, "q", 70), (7, "q", 70)), "distinct", None),
        ("insert_values_select", ((7, "q", 70), (8, "r", 80), (9, "s", 90)), "limit", 2),
        ("insert_from_t_in_values", (1, 3, 99)),
    ]
    # INSERT ... SELECT that stores the VALUE of a predicate (1 / 0 / NULL): three-valued logic seen without a WHERE
    st += [("insert_select_value", a) for a in ATOMS if a[0] not in ("true", "false")]
    preds = predicates(tier)
    sets = SETS if tier != "quick" else SETS[:3]
    for p in preds:
        st.append(("delete", p))
    for s in sets:
        for p in preds:
            st.append(("update", s, p))
    st.append(("truncate",))
    return st


def seq_statements():
    """statements used at depth >= 2 (chained from non-initial states)"""
    return [
        ("insert_values", ((7, "q", 70),), None),
        ("insert_select", "src", ("cmp", "k", ">", 1), None),
        ("insert_select", "t", None, None),
        ("delete", ("cmp", "k", "=", 1)),
        ("delete", ("isnull", "v")),
        ("delete", ("cmp", "k", "=", 99)),
        ("delete", None),
        ("update", SETS[0], ("cmp", "k", ">", 1)),
        ("update", SETS[1], None),
        ("update", SETS[2], ("cmp", "v", "=", "a")),
        ("update", SETS[0], ("false",)),
        ("truncate",),
    ]


def stmt_sql(s):
    k = s[0]
    if k == "insert_values":
        cols = f" ({', '.join(s[2])})" if s[2] else ""
        vals = ", ".join("(" + ", ".join(R.lit(c) for c in r) + ")" for r in s[1])
        return f"INSERT INTO t{cols} VALUES {vals}"
    if k == "insert_select":
        cols = f" ({', '.join(s[3])})" if s[3] else ""
        sel = ", ".join(s[3]) if s[3] else "*"
        w = f" WHERE {R.sql(s[2])}" if s[2] is not None else ""
        return f"INSERT INTO t{cols} SELECT {sel} FROM {s[1]}{w}"
    if k == "insert_values_select":
        vals = ", ".join("(" + ", ".join(R.lit(c) for c in r) + ")" for r in s[1])
        src = f"(VALUES {vals}) AS vv (k, v, n)"
        if s[2] == "where":
            return f"INSERT INTO t SELECT k, v, n FROM {src} WHERE k > {s[3]}"
        if s[2] == "distinct":
            return f"INSERT INTO t SELECT DISTINCT k, v, n FROM {src}"
        if s[2] == "limit":
            return f"INSERT INTO t SELECT k, v, n FROM {src} ORDER BY k LIMIT {s[3]}"
    if k == "insert_from_t_in_values":
        vals = ", ".join(f"({c})" for c in s[1])
        return f"INSERT INTO t SELECT k, v, n FROM t WHERE k IN (SELECT column1 FROM (VALUES {vals}))"
    if k == "insert_select_value":
        return f"INSERT INTO t SELECT k, v, ({R.sql(s[1])})::INT FROM t"
    if k == "update":
        w = f" WHERE {R.sql(s[2])}" if s[2] is not None else ""
        return f"UPDATE t SET {R.set_sql(s[1])}{w}"
    if k == "delete":
        w = f" WHERE {R.sql(s[1])}" if s[1] is not None else ""
        return f"DELETE FROM t{w}"
    if k == "truncate":
        return "TRUNCATE TABLE t"
    raise AssertionError(s)


def model_step(rows, s):
    """-> (new rows (list), affected count|None, expected status column names|None)"""
    rows = list(rows)
    k = s[0]
    if k == "insert_values":
        cols = s[2] or R.COLS
        new = []
        for r in s[1]:
            d = dict(zip(cols, r))
            new.append(tuple(d.get(c) for c in R.COLS))
        return rows + new, len(new), ["number of rows inserted"]
    if k == "insert_select":
        src = SRC if s[1] == "src" else rows
        picked = [r for r in src if R.ev(s[2], r) is True]
        if s[3]:
            picked = [tuple(r[R.COLS.index(c)] if c in s[3] else None for c in R.COLS) for r in picked]
        return rows + picked, len(picked), ["number of rows inserted"]
    if k == "insert_values_select":
        src = list(s[1])
        if s[2] == "where":
            picked = [r for r in src if r[0] is not None and r[0] > s[3]]
        elif s[2] == "distinct":
            picked = sorted(set(src), key=repr)
        else:
            picked = sorted(src, key=lambda r: r[0])[: s[3]]
        return rows + picked, len(picked), ["number of rows inserted"]
    if k == "insert_from_t_in_values":
        picked = [r for r in rows if r[0] is not None and r[0] in s[1]]
        return rows + picked, len(picked), ["number of rows inserted"]
    if k == "insert_select_value":
        # a BOOLEAN cast to a number is 1 for TRUE, 0 for FALSE, NULL for NULL
        picked = [(r[0], r[1], {True: 1, False: 0, None: None}[R.ev(s[1], r)]) for r in rows]
        return rows + picked, len(picked), ["number of rows inserted"]
    if k == "update":
        new, n = R.update(rows, s[1], s[2])
        return new, n, ["number of rows updated", "number of multi-joined rows updated"]
    if k == "delete":
        new, n = R.delete(rows, s[1])
        return new, n, ["number of rows deleted"]
    if k == "truncate":
        return [], None, None
    raise AssertionError(s)


def classify(s, affected):
    k = s[0]
    z = "0" if affected == 0 else ("n" if affected else "-")
    if k == "insert_values":
        return f"cmd=INSERT,form=values{'_cols' if s[2] else ''},affected={z}"
    if k == "insert_select":
        return f"cmd=INSERT,form=select_{s[1]}{'_cols' if s[3] else ''},affected={z}"
    if k == "insert_values_select":
        return f"cmd=INSERT,form=select_from_values_{s[2]},affected={z}"
    if k == "insert_from_t_in_values":
        return f"cmd=INSERT,form=select_t_in_values,affected={z}"
    if k == "insert_select_value":
        return f"cmd=INSERT,form=select_t_predicate_value,pred={shape(s[1])},affected={z}"
    if k == "update":
        return f"cmd=UPDATE,affected={z}"
    if k == "delete":
        return f"cmd=DELETE,affected={z}"
    return "cmd=TRUNCATE"


_W = {}


def _env():
    if "conn" not in _W:
        import fakesnow.instance as inst

        fs = inst.FakeSnow()
        conn = fs.connect(database="db1", schema="s1")
        cur = conn.cursor()
        for name, rows in (("src", SRC), ("b", BYST)):
            cur.execute(f"create table {name} (k int, v varchar, n int)")
            cur.execute(f"insert into {name} values " + ", ".join("(" + ", ".join(R.lit(c) for c in r) + ")" for r in rows))
        cur.execute("create table t (k int, v varchar, n int)")
        _W.update(fs=fs, conn=conn, raw=observe.raw(fs))
    return _W["fs"], _W["conn"], _W["raw"]


def _msort(rows):
    return sorted((tuple(r) for r in rows), key=repr)


def _others(raw):
    return (
        tuple(raw.execute("select database_name, schema_name, table_name, sql from duckdb_tables() where not internal order by all").fetchall()),
        tuple(raw.execute("select * from db1.s1.src order by all").fetchall()),
        tuple(raw.execute("select * from db1.s1.b order by all").fetchall()),
    )


def run_case(rows, s):
    fs, conn, raw = _env()
    cur = conn.cursor()
    raw.execute("delete from db1.s1.t")  # set-up goes through raw DuckDB, not through the code under test
    if rows:
        raw.execute("insert into db1.s1.t values " + ", ".join("(" + ", ".join(R.lit(c) for c in r) + ")" for r in rows))
    before = _others(raw)
    try:
        cur.execute(stmt_sql(s))
        status = cur.fetchall()
        try:
            names = [d.name for d in cur.description]
        except Exception:  # noqa: BLE001  (availability of description is C06's subject, not C04's)
            names = None
        rc = cur.rowcount
        got = ("ok", status, names, rc)
    except Exception as e:  # noqa: BLE001
        got = ("err", type(e).__name__, str(e)[:120])
    after_rows = _msort(raw.execute("select * from db1.s1.t").fetchall())
    return got, after_rows, before == _others(raw)


def judge_answer(acc, cls, rp, s, got, exp_n, exp_names):
    """the statement's own answer: no exception, status row, status column names, rowcount"""
    if got[0] != "ok":
        acc.violation("C04.no_exception", cls + f",exc={got[1]}", {"got": got, "sql": stmt_sql(s)}, rp)
        return
    _, status, names, rc = got
    if exp_names is None:
        return
    if names is not None and names != exp_names:
        acc.violation("C04.status_columns", cls, {"expected": exp_names, "got": names}, rp)
    ok = (
        len(status) == 1
        and len(status[0]) == len(exp_names)
        and status[0][0] == exp_n
        and isinstance(status[0][0], int)
        and all(x == 0 for x in status[0][1:])
    )
    if not ok:
        acc.violation("C04.status_row", cls, {"expected": exp_n, "got": status, "sql": stmt_sql(s)}, rp)
    acc.member("C04.rowcount", cls, rc != exp_n)
    if rc != exp_n:
        acc.violation("C04.rowcount", cls, {"expected": exp_n, "got": rc, "sql": stmt_sql(s)}, rp)


def step(item, acc: core.Acc, tier, cls_extra=""):
    rows, s = item
    exp_rows, exp_n, exp_names = model_step(rows, s)
    got, after_rows, others_same = run_case(rows, s)
    acc.count("evaluations")
    acc.count("transitions")
    acc.count("traces")
    acc.obs((rows, s, got, after_rows))
    acc.outcome((s[0], got[0], got[1] if got[0] == "ok" else got[1:], len(after_rows)))
    if exp_n:
        acc.nontrivial((rows, s))
        acc.sample({"before": rows, "sql": stmt_sql(s), "expected_count": exp_n, "observed": got, "after": after_rows}, cap=2)
    cls = classify(s, exp_n) + cls_extra
    rp = {"rows": rows, "stmt": s, "sql": stmt_sql(s)}
    judge_answer(acc, cls, rp, s, got, exp_n, exp_names)
    if after_rows != _msort(exp_rows):
        acc.violation(
            "C04.target_rows", cls, {"expected": _msort(exp_rows), "got": after_rows, "sql": stmt_sql(s), "before": rows}, rp
        )
    if not others_same:
        acc.violation("C04.touches_nothing_else", cls, {"sql": stmt_sql(s)}, rp)
    return tuple(_msort(exp_rows)) if after_rows == _msort(exp_rows) else None


# ---- scripts through execute_string: one cursor per statement, each with its own status row and rowcount -------------------
def script_case(item, acc: core.Acc, tier):
    rows, stmts = item
    fs, conn, raw = _env()
    raw.execute("delete from db1.s1.t")
    if rows:
        raw.execute("insert into db1.s1.t values " + ", ".join("(" + ", ".join(R.lit(c) for c in r) + ")" for r in rows))
    exp = []
    cur_rows = list(rows)
    for st in stmts:
        cur_rows, n, names = model_step(cur_rows, st)
        exp.append((n, names))
    text = ";\n".join(stmt_sql(st) for st in stmts) + ";"
    try:
        cursors = list(conn.execute_string(text))
        got = [(c.fetchall(), c.rowcount) for c in cursors]
    except Exception as e:  # noqa: BLE001
        got = ("err", type(e).__name__, str(e)[:120])
    after_rows = _msort(raw.execute("select * from db1.s1.t").fetchall())
    acc.count("evaluations")
    acc.count("transitions", len(stmts))
    acc.count("traces")
    acc.obs((rows, stmts, got, after_rows))
    acc.nontrivial(("script", rows, stmts))
    rp = {"rows": rows, "script": stmts, "sql": text}
    cls = "script=" + "+".join(classify(st, n).split(",")[0].split("=")[1] for st, (n, _x) in zip(stmts, exp))
    if isinstance(got, tuple):
        acc.violation("C04.no_exception", cls + f",exc={got[1]}", {"sql": text, "got": got}, rp)
        return
    if len(got) != len(stmts):
        acc.violation("C04.script_cursors", cls + ",count", {"sql": text, "expected": len(stmts), "got": len(got)}, rp)
        return
    for i, ((status, rc), (n, names)) in enumerate(zip(got, exp)):
        if names is None:
            continue
        if not (len(status) == 1 and status[0][0] == n and all(x == 0 for x in status[0][1:])):
            acc.violation("C04.script_cursors", cls + f",status_of_statement_{i + 1}_of_{len(stmts)}", {"sql": text, "expected": n, "got": status}, rp)
        if rc != n:
            acc.violation("C04.script_cursors", cls + f",rowcount_of_statement_{i + 1}_of_{len(stmts)}", {"sql": text, "expected": n, "got": rc}, rp)
    if after_rows != _msort(cur_rows):
        acc.violation("C04.target_rows", cls + ",script", {"sql": text, "expected": _msort(cur_rows), "got": after_rows}, rp)


# ---- used sessions: the DML under judgement is not the first thing the session did ---------------------------------------
# A history is  [one earlier statement of the session]  +  DML statements on T, in a fresh instance with three connections
# made beforehand: the writer, an independent observer session, and a raw DuckDB cursor (ground truth). The earlier statement
# is drawn from the product  route (how fakesnow carries the statement out: one engine statement, several engine statements
# = CREATE TABLE with text lengths / comment, CTAS with comment, CLONE, RENAME, MERGE; or refused before the engine)
# x cause of failure (missing object, existing object, run-time conversion error, constraint error, a column option the
# engine's parser refuses), plus successful statements of each route and "nothing" as controls.
# NOT judged: the earlier statement's own outcome (several of them are valid Snowflake that fakesnow cannot run; whether
# it fails is not C04's subject). Judged: it leaves T alone (none of them may change T, failed or not), and the DML
# that follows behaves exactly as in a new session: same answer, same contents of T *as seen by everybody* - DML outside
# a user transaction is committed when it returns (autocommit), so the observer session and the raw cursor see it at once,
# and a later ROLLBACK (a no-op without BEGIN) or the closing of the writer's connection does not take it back.
USED = [
    # (route, cause, statement)
    ("none", "-", None),
    ("single_step_select", "ok", "select * from src"),
    ("single_step_insert", "ok", "insert into b values (5, 'five', 5)"),
    ("multi_step_create_text_length", "ok", "create table u (id int, name varchar(10))"),
    ("multi_step_create_comment", "ok", "create table u (id int) comment = 'c'"),
    ("multi_step_clone", "ok", "create table u clone src"),
    ("multi_step_rename_table", "ok", "alter table b rename to b2"),
    ("multi_step_rename_column", "ok", "alter table nn rename column k to z"),
    ("multi_step_merge", "ok", "merge into b using src on b.k = src.k when not matched then insert (k, v, n) values (src.k, src.v, src.n)"),
    ("refused_before_engine", "syntax", "selec 1"),
    ("refused_before_engine", "syntax", "select ("),
    ("single_step_select", "missing_object", "select * from nope"),
    ("single_step_select", "conversion", "select 'x'::int"),
    ("single_step_insert", "missing_object", "insert into nope values (1)"),
    ("single_step_insert", "conversion", "insert into b values ('x', 'y', 'z')"),
    ("single_step_insert", "constraint", "insert into nn values (NULL)"),
    ("single_step_insert_target", "conversion", "insert into t values (7, 'q', 70), ('x', 'y', 'z')"),
    ("single_step_update", "conversion", "update b set k = 'x'::int"),
    ("single_step_update", "constraint", "update nn set k = NULL"),
    ("single_step_delete", "missing_object", "delete from nope"),
    ("single_step_create", "existing_object", "create table b (a int)"),
    ("single_step_create", "engine_parser", "create table u (id int autoincrement)"),
    ("single_step_drop", "missing_object", "drop table nope"),
    ("single_step_alter", "missing_object", "alter table nope add column z int"),
    ("single_step_alter", "existing_object", "alter table b add column k int"),
    ("multi_step_create_text_length", "existing_object", "create table b (name varchar(10))"),
    ("multi_step_create_text_length", "missing_object", "create table nosch.u (name varchar(10))"),
    ("multi_step_create_text_length", "existing_column", "create table u (id int, id int, name varchar(10))"),
    ("multi_step_create_text_length", "engine_parser", "create table u (id int autoincrement, name varchar(10))"),
    ("multi_step_create_text_length", "engine_parser", "create table u (id int identity(1,1), name varchar(10))"),
    ("multi_step_create_text_length", "engine_parser", "create table u (id int, name varchar(10) collate 'en-ci')"),
    ("multi_step_create_text_length", "engine_parser", "create table u (id int, name varchar(10) masking policy mp)"),
    ("multi_step_create_text_length", "engine_parser", "create table u (id int, name varchar(10), primary key (nope))"),
    ("multi_step_create_comment", "existing_object", "create table b (a int) comment = 'c'"),
    ("multi_step_create_comment", "engine_parser", "create table u (id int autoincrement) comment = 'c'"),
    ("multi_step_ctas_comment", "missing_object", "create table u comment = 'c' as select * from nope"),
    ("multi_step_ctas_comment", "conversion", "create table u comment = 'c' as select 'x'::int as a"),
    ("multi_step_clone", "missing_object", "create table u clone nope"),
    ("multi_step_clone", "existing_object", "create table b clone src"),
    ("multi_step_rename_table", "missing_object", "alter table nope rename to u"),
    ("multi_step_rename_table", "existing_object", "alter table b rename to src"),
    ("multi_step_rename_column", "missing_object", "alter table b rename column nope to z"),
    ("multi_step_rename_column", "existing_object", "alter table b rename column k to v"),
    ("multi_step_merge", "missing_object", "merge into nope using src on nope.k = src.k when matched then delete"),
    ("multi_step_merge", "missing_object", "merge into b using nope on b.k = nope.k when matched then delete"),
    ("multi_step_merge", "missing_column", "merge into b using src on b.k = src.k when matched then update set nope = 1"),
    ("multi_step_merge", "conversion", "merge into b using src on b.k = src.k when not matched then insert (k) values ('y'::int)"),
    ("multi_step_merge", "constraint", "merge into nn using src on nn.k = src.k when not matched then insert (k) values (NULL)"),
    ("multi_step_merge_target", "conversion", "merge into t using src on t.k = src.k when not matched then insert (k) values ('y'::int)"),
]
VIAS = ["execute", "execute_string"]
S_ROWS = tuple(sorted((UNIVERSE[i] for i in (0, 1, 2, 3, 4)), key=repr))


def _vals(rows):
    return ", ".join("(" + ", ".join(R.lit(c) for c in r) + ")" for r in rows)


def _run_on(cur, sql):
    try:
        cur.execute(sql)
        status = cur.fetchall()
        try:
            names = [d.name for d in cur.description]
        except Exception:  # noqa: BLE001
            names = None
        return ("ok", status, names, cur.rowcount)
    except Exception as e:  # noqa: BLE001
        return ("err", type(e).__name__, str(e)[:120])


def _view(conn_or_raw, qualified=False):
    """rows of T through a new cursor of a fakesnow connection, or through the raw cursor"""
    try:
        if qualified:
            return _msort(conn_or_raw.execute("select * from db1.s1.t").fetchall())
        c = conn_or_raw.cursor()
        c.execute("select k, v, n from t")
        return _msort(c.fetchall())
    except Exception as e:  # noqa: BLE001
        return ("err", type(e).__name__, str(e)[:120])


def _others_dyn(raw):
    """every table of the instance except T (the earlier statement may have created/renamed bystanders): definition + rows"""
    tabs = raw.execute("select database_name, schema_name, table_name, sql from duckdb_tables() where not internal order by all").fetchall()
    out = []
    for d, sc, t, ddl in tabs:
        if (d, sc, t) == ("DB1", "S1", "T"):
            out.append((d, sc, t, ddl, None))
        else:
            out.append((d, sc, t, ddl, tuple(raw.execute(f'select * from "{d}"."{sc}"."{t}" order by all').fetchall())))
    return tuple(out)


def session_case(item, acc: core.Acc, tier):
    from mc.util import fresh

    ui, via, rows, stmts = item
    route, cause, pre = USED[ui]
    after = f"after={route}:{cause}"  # one class per earlier statement kind (the DML command only for its own answer)
    rp = {"used": ui, "via": via, "rows": rows, "session_stmts": stmts, "earlier": pre, "sql": [stmt_sql(x) for x in stmts]}
    log = []
    with fresh(connect=False) as (fs, _none):
        adm = fs.connect(database="db1", schema="s1")
        cur = adm.cursor()
        for name, rws in (("src", SRC), ("b", BYST)):
            cur.execute(f"create table {name} (k int, v varchar, n int)")
            cur.execute(f"insert into {name} values {_vals(rws)}")
        cur.execute("create table nn (k int not null)")
        cur.execute("insert into nn values (5)")
        cur.execute("create table t (k int, v varchar, n int)")
        raw = observe.raw(fs)
        if rows:
            raw.execute(f"insert into db1.s1.t values {_vals(rows)}")
        writer = fs.connect(database="db1", schema="s1")
        observer = fs.connect(database="db1", schema="s1")
        wcur = writer.cursor()
        pre_out = None
        if pre is not None:
            try:
                if via == "execute":
                    wcur.execute(pre)
                    wcur.fetchall()
                else:
                    for c in writer.execute_string(pre + ";"):
                        c.fetchall()
                pre_out = ("ok",)
            except Exception as e:  # noqa: BLE001
                pre_out = ("err", type(e).__name__)
        acc.outcome(("earlier", route, cause, pre_out))
        log.append(pre_out)
        t0 = _view(raw, qualified=True)
        if t0 != _msort(rows):
            acc.violation("C04.earlier_statement_leaves_target", f"earlier={route}:{cause}", {"earlier": pre, "outcome": pre_out, "expected": _msort(rows), "got": t0}, rp)
        cur_rows = list(rows)
        for s in stmts:
            cur_rows, exp_n, exp_names = model_step(cur_rows, s)
            want = _msort(cur_rows)
            before = _others_dyn(raw)
            got = _run_on(wcur, stmt_sql(s))
            views = {"writer": _view(writer), "other_session": _view(observer), "ground_truth": _view(raw, qualified=True)}
            same = before == _others_dyn(raw)
            acc.count("evaluations")
            acc.count("transitions")
            log.append((got, views, same))
            if exp_n and pre is not None:
                acc.nontrivial(("used", ui, via, rows, s))
            judge_answer(acc, classify(s, exp_n).split(",")[0] + "," + after, rp, s, got, exp_n, exp_names)
            for who, v in views.items():
                if v != want:
                    clause = "C04.target_rows" if who == "ground_truth" else f"C04.seen_by_{who}"
                    acc.violation(clause, after, {"via": via, "earlier": pre, "earlier_outcome": pre_out, "sql": stmt_sql(s), "expected": want, "got": v}, rp)
            if not same:
                acc.violation("C04.touches_nothing_else", after, {"sql": stmt_sql(s), "via": via}, rp)
        # nothing of it is pending: a ROLLBACK of the writer (no transaction was begun) and closing it take nothing back
        want = _msort(cur_rows)
        for then in ("rollback", "close"):
            try:
                if then == "rollback":
                    wcur.execute("ROLLBACK")
                else:
                    writer.close()
                out = "ok"
            except Exception as e:  # noqa: BLE001  (the answer of ROLLBACK/close is not C04's subject)
                out = type(e).__name__
            views = {"other_session": _view(observer), "ground_truth": _view(raw, qualified=True)}
            log.append((then, out, views))
            for who, v in views.items():
                if v != want:
                    acc.violation("C04.committed", after + f",then={then}", {"via": via, "earlier": pre, "seen_by": who, "expected": want, "got": v, "sql": [stmt_sql(x) for x in stmts]}, rp)
    acc.count("traces")
    acc.obs((ui, via, rows, stmts, log))


# ---- DDL status messages (E2) -----------------------------------------------------------------------------------------
DDL = [
    # (set-up statements, statement, expected status text)
    ([], "create table foo (a int)", "Table FOO successfully created."),
    ([], "CREATE TABLE Foo (a int)", "Table FOO successfully created."),
    ([], 'create table "Foo" (a int)', "Table Foo successfully created."),
    ([], "create table s1.foo (a int)", "Table FOO successfully created."),
    ([], "create table db1.s1.foo (a int)", "Table FOO successfully created."),
    ([], 'create table db1.s1."foo bar" (a int)', "Table foo bar successfully created."),
    ([], "create or replace table foo (a int)", "Table FOO successfully created."),
    (["create table foo (a int)"], "create or replace table foo (b varchar)", "Table FOO successfully created."),
    ([], "create table foo as select 1 as a", "Table FOO successfully created."),
    ([], "create view vw as select 1 as a", "View VW successfully created."),
    ([], 'create view "vW" as select 1 as a', "View vW successfully created."),
    ([], "create view db1.s1.vw as select 1 as a", "View VW successfully created."),
    ([], "create or replace view vw as select 1 as a", "View VW successfully created."),
    ([], "create schema sx", "Schema SX successfully created."),
    ([], 'create schema "sX"', "Schema sX successfully created."),
    ([], "create schema db1.sx", "Schema SX successfully created."),
    ([], "create database dbx", "Database DBX successfully created."),
    ([], 'create database "dbX"', "Database dbX successfully created."),
    (["create table foo (a int)"], "drop table foo", "FOO successfully dropped."),
    (["create table foo (a int)"], "drop table db1.s1.foo", "FOO successfully dropped."),
    (['create table "Foo" (a int)'], 'drop table "Foo"', "Foo successfully dropped."),
    (["create table foo (a int)"], "drop table if exists foo", "FOO successfully dropped."),
    (["create view vw as select 1 a"], "drop view vw", "VW successfully dropped."),
    (["create schema sx"], "drop schema sx", "SX successfully dropped."),
    (["create schema sx"], "drop schema db1.sx", "SX successfully dropped."),
    (["create table foo (a int)"], "alter table foo add column b int", "Statement executed successfully."),
    (["create table foo (a int)"], "alter table foo rename to bar", "Statement executed successfully."),
    (["create table foo (a int, b int)"], "alter table foo drop column b", "Statement executed successfully."),
    (["create table foo (a int)"], "alter table db1.s1.foo rename column a to c", "Statement executed successfully."),
]


def ddl_case(i, acc: core.Acc, tier):
    from mc.util import fresh

    setup, stmt, exp = DDL[i]
    with fresh() as (fs, conn):
        cur = conn.cursor()
        for s in setup:
            cur.execute(s)
        try:
            cur.execute(stmt)
            got = ("ok", cur.fetchall(), [d.name for d in cur.description])
        except Exception as e:  # noqa: BLE001
            got = ("err", type(e).__name__, str(e)[:120])
    acc.count("evaluations")
    acc.count("transitions")
    acc.count("traces")
    acc.obs((stmt, got))
    acc.outcome(("ddl", got))
    acc.nontrivial(("ddl", stmt))
    kind = " ".join(stmt.split()[:2]).upper()
    shape = "quoted" if '"' in stmt else ("qualified" if "." in stmt.split("(")[0] else "plain")
    cls = f"ddl={kind},name={shape}"
    rp = {"ddl": i, "setup": setup, "stmt": stmt}
    if got[0] != "ok":
        acc.violation("C04.ddl_status", cls + f",exc={got[1]}", {"stmt": stmt, "got": got}, rp)
    elif got[1] != [(exp,)] or got[2] != ["status"]:
        acc.violation("C04.ddl_status", cls, {"stmt": stmt, "expected": exp, "got": got[1:]}, rp)


def run(ctx: core.Ctx):
    tier = ctx.tier
    depth = 2 if ctx.quick else 3
    ctx.rule = (
        "BFS over table states (row multisets of T drawn from a 6-row universe with NULLs and duplicates); from every "
        "initial row set every statement of the grammar (12 INSERT forms, DELETE/UPDATE x predicate grammar incl. "
        "3-valued atoms, NOT/AND/OR; TRUNCATE), then chained statements from every distinct post-state up to the depth "
        "bound; + DDL statements x name spellings for the status text; + NULL-safe comparison forms x operand pairs "
        "(both orders) x contexts and a second depth-3 grammar over them; + used sessions: earlier statement (route x "
        "cause of failure, or successful, or none) x chained DML, T read by the writer, a second session and raw DuckDB, "
        "then again after ROLLBACK and after close; non-trivial = transition affecting >= 1 row"
    )
    ctx.assumptions = [
        "table state = multiset of rows (set-up of each state is done through raw DuckDB, not through fakesnow)",
        "Snowflake counts rows matched by WHERE as updated even when values do not change (as DuckDB does)",
        "sessions run with autocommit (the default): DML outside BEGIN..COMMIT is committed when the statement returns",
        "a BOOLEAN cast to a number is 1 / 0 / NULL",
    ]
    sts = statements(tier)
    init = rowsets(tier)
    seen = set(init)
    items = [(rs, s) for rs in init for s in sts]
    res = ctx.pmap(step, items)
    frontier = sorted({post for _, post in res if post is not None and post not in seen}, key=repr)
    d = 1
    while d < depth and frontier:
        seen.update(frontier)
        frontier = [f for f in frontier if len(f) <= 8]
        items = [(rs, s) for rs in frontier for s in seq_statements()]
        res = ctx.pmap(step, items, recheck=False)
        frontier = sorted({post for _, post in res if post is not None and post not in seen}, key=repr)
        d += 1
    # every predicate of the grammar to nesting depth 3 (quick: 4 atoms, thorough: 6), as DELETE and as UPDATE, on the
    # six-row table: three-valued logic is where a rewrite of the WHERE clause goes wrong, and only for nested shapes
    gp = grammar(3, G_ATOMS[:4] if ctx.quick else G_ATOMS)
    gitems = [(G_ROWS, ("delete", p_)) for p_ in gp] + [(G_ROWS, ("update", SETS[0], p_)) for p_ in gp]
    ctx.pmap(gstep, gitems, recheck=False)
    ctx.extra["predicate_grammar"] = {"depth": 3, "atoms": len(G_ATOMS[:4] if ctx.quick else G_ATOMS), "predicates": len(gp), "statements": len(gitems)}
    # the same to depth 3 over NULL-safe comparison atoms mixed with an ordinary three-valued atom
    g2 = grammar(3, G2_ATOMS[:3] if ctx.quick else G2_ATOMS)
    g2items = [(G_ROWS, ("delete", p_)) for p_ in g2] + [(G_ROWS, ("update", SETS[0], p_)) for p_ in g2]
    ctx.pmap(gstep, g2items, recheck=False)
    # every NULL-safe form x operand pair (both argument orders) x context, as DELETE, as UPDATE and as a stored value
    nsp = [c(a) for a in NS_ATOMS for c in NS_CONTEXTS]
    nsitems = [(G_ROWS, ("delete", p_)) for p_ in nsp] + [(G_ROWS, ("update", SETS[0], p_)) for p_ in nsp]
    nsitems += [(G_ROWS, ("insert_select_value", a)) for a in NS_ATOMS]
    ctx.pmap(gstep, nsitems, recheck=False)
    ctx.extra["null_safe_comparisons"] = {
        "forms": NS_FORMS,
        "operand_pairs": len(NS_PAIRS),
        "contexts": len(NS_CONTEXTS),
        "statements": len(nsitems),
        "grammar_depth3_atoms": len(G2_ATOMS[:3] if ctx.quick else G2_ATOMS),
        "grammar_depth3_statements": len(g2items),
    }
    for s in seen:
        ctx.acc.add("states", s)
    # used sessions: every earlier statement x every chained DML statement (quick), x both ways of submitting the earlier
    # statement, pairs of DML statements and two more row sets (thorough)
    sq = seq_statements()
    uitems = [(ui, "execute", S_ROWS, (s,)) for ui in range(len(USED)) for s in sq]
    uitems += [(ui, "execute_string", S_ROWS, (s,)) for ui in range(len(USED)) if USED[ui][2] for s in (sq[0], sq[3], sq[7])]
    if not ctx.quick:
        uitems += [(ui, "execute_string", S_ROWS, (s,)) for ui in range(len(USED)) if USED[ui][2] for s in sq if s not in (sq[0], sq[3], sq[7])]
        uitems += [(ui, "execute", rs, (s,)) for ui in range(len(USED)) for rs in (init[0], init[1]) for s in sq]
        uitems += [(ui, "execute", S_ROWS, (a, b)) for ui in range(len(USED)) for a in sq[:8] for b in sq[:8]]
    ctx.pmap(session_case, uitems, recheck=False)
    ctx.extra["used_sessions"] = {"earlier_statements": len(USED), "histories": len(uitems), "observers": ["writer", "other_session", "ground_truth"]}
    # scripts: all ordered pairs and triples of the chained statements from three row sets, through execute_string
    seqs = seq_statements()
    scripts = [(rs, [a, b]) for rs in init[:3] for a in seqs for b in seqs]
    if not ctx.quick:
        scripts += [(init[3 % len(init)], [a, b, c]) for a in seqs[:6] for b in seqs[:6] for c in seqs[:6]]
    ctx.pmap(script_case, scripts, recheck=False)
    ctx.extra["scripts_through_execute_string"] = len(scripts)
    ctx.pmap(ddl_case, list(range(len(DDL))), recheck=False)
    ctx.extra["bound"] = f"depth {depth} from {len(init)} initial row sets; {len(sts)} statements at depth 1, {len(seq_statements())} chained"
    ctx.extra["frontier_left_unexpanded"] = len(frontier)
    ctx.exhaustive = False


def replay(payload):
    r = payload["replay"]

    def tup(x):
        return tuple(tup(i) for i in x) if isinstance(x, list) else x

    if "ddl" in r:
        acc = core.Acc()
        ddl_case(r["ddl"], acc, "quick")
        print(acc.viol or "ok")
        return bool(acc.viol)
    if "script" in r:
        acc = core.Acc()
        script_case((tup(r["rows"]), list(tup(r["script"]))), acc, "quick")
        print(acc.viol or "ok")
        return bool(acc.viol)
    if "used" in r:
        acc = core.Acc()
        session_case((r["used"], r["via"], tup(r["rows"]), tup(r["session_stmts"])), acc, "quick")
        print("earlier statement:", r["earlier"], "\nthen:", r["sql"], "\nbefore:", r["rows"])
        for k, v in acc.viol.items():
            print(k, v["detail"])
        return bool(acc.viol)
    rows, s = tup(r["rows"]), tup(r["stmt"])
    # predicates contain lists for IN; keep tuples – evaluator only iterates
    acc = core.Acc()
    step((rows, s), acc, "quick")
    print("sql:", stmt_sql(s), "\nbefore:", rows)
    for k, v in acc.viol.items():
        print(k, v["detail"])
    return bool(acc.viol)
