"""C10 — rewritten Snowflake functions return what Snowflake documents.

Engine E2 (exhaustive product).  For every construct the property names there is a written-out argument alphabet
(section ALPHABETS), the complete product of it is turned into SQL expressions, every expression is evaluated by the
real fakesnow (batched into one SELECT list; a batch that raises is re-run one expression per statement so that one
failing expression cannot mask the others) and compared with the reference semantics of ``mc/ref/sf_functions.py``
(written from the Snowflake documentation, Python re / datetime / decimal ROUND_HALF_UP / hashlib only).

Oracle clauses
  C10.supported   a form that fakesnow answers today stays answered.  The property accepts a rejection for forms fakesnow
                  does not support; exactly those are named in the table REJ_OK_TODAY (rej_ok: documented value or any
                  exception) — every other form of the alphabets must be answered
  C10.value       the value is the documented one
  C10.type        the result type is the documented one (Python type family of the fetched value; for non-NULL values
                  also the type code — and for fixed-point results the scale / documented precision — of description)
  C10.error       an input for which Snowflake documents an error (TO_DECIMAL('abc'), out of range, invalid date) is
                  rejected, not answered with a value (forms marked rej_ok: value = reference, or rejected)
  C10.context     the expression gives the same (documented) value in WHERE, nested in another rewritten function, in a
                  CTE, in a view body, in INSERT … SELECT and in UPDATE … SET as in the select list; and as an operand: left /
                  right of a comparison, AND / OR, under NOT, before IS NULL, in IN / BETWEEN / CASE, in arithmetic, ||
                  and casts (table mc.ref.sf_functions.operator_contexts), and with compound arguments written without
                  parentheses (OR, AND, NOT, comparison, IN, + - *, ||, CASE: nest family inner=COMPOUND[…])
  C10.fetch       boundary values of the numeric conversions are the documented ones through fetchone / fetchmany / fetchall of a
                  tuple cursor and of a DictCursor
  C10.stmt        statement-level constructs (RANDOM(seed), SAMPLE … SEED, IDENTIFIER(), VALUES columnN, ARRAY_AGG,
                  alias reuse in JOIN … ON): rows / column names / repeatability as documented, in SELECT statements and
                  again inside INSERT … SELECT, CREATE TABLE AS, a view, a top-level UNION ALL and UPDATE … SET = (subquery);
                  the table-like ones (VALUES, IDENTIFIER('table'), SAMPLE) as first and second table of JOIN / LEFT JOIN /
                  CROSS JOIN / comma join, alone and inside a CTE, a subquery, a view, CTAS and INSERT … SELECT: rows,
                  column names (description, DictCursor keys, SELECT *), references (v.column1)

Not demanded (deliberately left open, see the comments at the alphabets): Python ``int`` vs ``Decimal`` for scale 0
(C01 owns the connector type mapping); description of a NULL result and all of description's names (C06/C02);
the type code of ARRAY results; FLOAT → NUMBER exactly at binary-exact midpoints; regex patterns outside the subset
where POSIX ERE and Python re agree (no empty matches, no prefix alternation, ``^`` only at position 1); AUTO date
formats other than ISO (rejection accepted); TRIM with an empty or NULL character set; SPLIT of ''; ARRAY_AGG over
NULL inputs / empty groups; sub-microsecond digits; whether a date-only string literal in DATEADD is a DATE or a
TIMESTAMP; which rows SAMPLE picks; the values RANDOM returns and equality of RANDOM(seed) between different statement texts (demanded: the same statement text with the same seed repeats its values when executed again — in a plain SELECT, INSERT … SELECT, CREATE TABLE AS, a top-level set operation and UPDATE … SET = (subquery); through a view only the type).  "Rejected" = any exception from execute or fetch.

Classes name the input shape only (construct, syntactic form, and features computed from the arguments and the
reference — e.g. "the reference result differs from truncation"), never anything observed.
"""
from __future__ import annotations

import datetime as dt
import decimal
import json
import re
from decimal import Decimal

from mc import core
from mc.ref import sf_functions as sf

PID = "C10"
LEVEL = "exploration"

D, TS = dt.date, dt.datetime
BATCH = 16

# type codes of snowflake.connector (constants.FIELD_TYPES order)
CODE = {"num": 0, "float": 1, "str": 2, "date": 3, "ts": 8, "bytes": 11, "bool": 13}


# ====================================================================================================================
# SQL rendering of argument values


# Snowflake has two syntaxes for a string constant: single-quoted (backslash is an escape character, a quote is
# doubled) and dollar-quoted $$…$$ (raw: nothing is escaped).  Every string-constant argument the generators write
# (patterns, subjects, replacements, separators, trim characters, date / number strings, digest messages) goes through
# q(), and the whole case alphabet is generated once per style of QUOTING: the same value in either syntax must give the
# same documented result.  A value containing $$ (or ending in $) cannot be dollar-quoted and stays single-quoted.
QUOTING = ("single", "dollar")
_STYLE = ["single"]


def q(s):
    """A Snowflake string constant holding exactly the characters of s, in the syntax of the current style."""
    if s is None:
        return "NULL"
    if _STYLE[0] == "dollar" and "$$" not in s and not s.endswith("$"):
        return "$$" + s + "$$"
    return "'" + s.replace("\\", "\\\\").replace("'", "''") + "'"


_DOLLAR_RAW = re.compile(r"\$\$(?:[^$]|\$(?!\$))*?[\\'](?:[^$]|\$(?!\$))*?\$\$")


def dq():
    """Class suffix for constructs whose rewrite looks at whether a string argument is a literal (the date / time
    conversions): there the constant syntax is part of the input shape even when the characters are the same."""
    return ",quoting=dollar" if _STYLE[0] == "dollar" else ""


def quoting_feature(sql):
    """Class suffix of a case: ',quoting=dollar' iff the SQL text holds a dollar-quoted constant whose text differs
    from its single-quoted spelling (it contains a backslash or a quote).  For all other values the two syntaxes carry
    the same characters and the cases share a class."""
    return ",quoting=dollar" if _STYLE[0] == "dollar" and _DOLLAR_RAW.search(sql) else ""


def lit(v, kind=None):
    """SQL literal of a reference value (used by the WHERE / nested contexts)."""
    if v is None:
        return "NULL"
    if isinstance(v, bool):
        return "TRUE" if v else "FALSE"
    if isinstance(v, (int, Decimal)):
        s = format(v, "f") if isinstance(v, Decimal) else str(v)
        return f"({s})" if s.startswith("-") else s
    if isinstance(v, float):
        return f"({v!r})::FLOAT"
    if isinstance(v, TS):
        return f"'{v.isoformat(sep=' ')}'::TIMESTAMP_NTZ"
    if isinstance(v, D):
        return f"'{v.isoformat()}'::DATE"
    if isinstance(v, str):
        return q(v)
    raise AssertionError(v)


# ====================================================================================================================
# cases


def case(fn, sql, thunk, kind, cls, rej_ok=False, meta=None, ctx=False, out=None, stats=None):
    """Build one expression case from a reference thunk.  NotDemanded drops the case (counted), SfError makes the
    expectation 'documented error'."""
    try:
        v = thunk()
        exp = ("val", v, kind, meta or {})
    except sf.SfError:
        exp = ("err",)
    except sf.NotDemanded:
        if stats is not None:
            stats["not_demanded"] = stats.get("not_demanded", 0) + 1
        return None
    c = {"fn": fn, "sql": sql, "exp": exp, "rej_ok": rej_ok, "cls": cls, "ctx": ctx and exp[0] == "val", "quoting": quoting_feature(sql), "fetch": False}
    if out is not None:
        out.append(c)
    return c


# ====================================================================================================================
# observation and comparison


def _utc_naive(t: TS) -> TS:
    return t.astimezone(dt.timezone.utc).replace(tzinfo=None) if t.tzinfo is not None else t


def norm(v):
    """Deterministic printable form of a fetched value (type-aware)."""
    if isinstance(v, TS):
        return ("datetime", v.isoformat(), "aware" if v.tzinfo is not None else "naive")
    if isinstance(v, D):
        return ("date", v.isoformat())
    if isinstance(v, (bytes, bytearray)):
        return ("bytes", bytes(v).hex())
    if isinstance(v, (list, tuple)):
        return tuple(norm(x) for x in v)
    return (type(v).__name__, repr(v))


def value_ok(exp, g) -> bool:
    _, v, kind, _meta = exp
    if v is None or g is None:
        return v is None and g is None
    try:
        if kind == "str":
            return isinstance(g, str) and g == v
        if kind == "num":
            if isinstance(g, bool) or not isinstance(g, (int, Decimal, float)):
                return False
            return Decimal(repr(g) if isinstance(g, float) else g) == v
        if kind == "float":
            return not isinstance(g, bool) and isinstance(g, (int, Decimal, float)) and float(g) == v
        if kind == "bool":
            return isinstance(g, (bool, int)) and g in (0, 1) and bool(g) == v
        if kind == "bytes":
            return isinstance(g, (bytes, bytearray)) and bytes(g) == v
        if kind == "array":
            return isinstance(g, str) and json.loads(g) == v
        if kind in ("date", "ts", "date_or_ts"):
            want = v if isinstance(v, TS) else TS(v.year, v.month, v.day)
            if isinstance(g, TS):
                return _utc_naive(g) == want
            if isinstance(g, D):
                return TS(g.year, g.month, g.day) == want
            return False
    except (ValueError, decimal.InvalidOperation, TypeError):
        return False
    raise AssertionError(kind)


def type_ok(exp, g, desc) -> bool:
    """Python type family (+ description code / scale / precision when description is available).  Only for g not
    None: the type of a NULL result is not demanded."""
    _, v, kind, meta = exp
    if g is None:
        return True
    if kind == "array":
        return isinstance(g, str)
    if kind == "date_or_ts":
        return (type(g) is D) or (type(g) is TS and g.tzinfo is None)
    py = {
        "str": type(g) is str,
        "num": type(g) in (int, Decimal),
        "float": type(g) is float,
        "bool": type(g) is bool,
        "bytes": isinstance(g, (bytes, bytearray)),
        "date": type(g) is D,
        "ts": type(g) is TS and g.tzinfo is None,
    }[kind]
    if not py:
        return False
    if kind == "num" and "scale" in meta:
        # the connector hands out NUMBER(p,0) as int and NUMBER(p,s>0) as Decimal with s fractional digits
        if meta["scale"] == 0:
            if type(g) is not int:
                return False
        elif type(g) is not Decimal or -g.as_tuple().exponent != meta["scale"]:
            return False
    if desc is not None:
        code, prec, scale = desc
        if code != CODE[kind]:
            return False
        if kind == "num":
            if scale != meta.get("scale", 0) and "scale" in meta:
                return False
            if "precision" in meta and prec != meta["precision"]:
                return False
    return True


def verdicts(c, obs):
    """obs = ('ok', value, desc|None) | ('rej', stage, exception class).  Returns the list of violated clauses."""
    exp = c["exp"]
    if obs[0] == "rej":
        if exp[0] == "err" or c["rej_ok"]:
            return []
        return ["C10.supported"]
    g, desc = obs[1], obs[2]
    if exp[0] == "err":
        return ["C10.error"]
    bad = []
    if not value_ok(exp, g):
        bad.append("C10.value")
    if not type_ok(exp, g, desc):
        bad.append("C10.type")
    return bad


CLAUSES = ("C10.supported", "C10.value", "C10.type", "C10.error")


def applicable(c):
    """Which clauses a case can violate at all (membership for the homogeneity audit)."""
    if c["exp"][0] == "err":
        return ("C10.error",)
    if c["rej_ok"]:
        return ("C10.value", "C10.type")
    return ("C10.supported", "C10.value", "C10.type")


# ====================================================================================================================
# real side

_W: dict = {}

FIXTURE = [
    "create or replace table c10_one (k int)",
    "insert into c10_one values (1)",
    # SAMPLE / IDENTIFIER
    "create or replace table c10_t (id int, v varchar)",
    "insert into c10_t values " + ",".join(f"({i},'r{i}')" for i in range(1, 21)),
    # ARRAY_AGG: aggregated columns v, n have no NULLs; ordering key o has one
    "create or replace table c10_a (id int, g varchar, v varchar, n int, o int)",
    "insert into c10_a values (1,'x','b',2,30),(2,'x','a',1,NULL),(3,'y','c',3,10),(4,'y','d',2,20),(5,'x','a',1,40)",
    # alias in JOIN … ON
    "create or replace table c10_l (id int, col varchar)",
    "insert into c10_l values (1,'VARCHAR1'),(2,'VARCHAR2'),(3,'XCHAR1')",
    "create or replace table c10_r (rid int, rcol varchar, other varchar)",
    "insert into c10_r values (1,'CHAR1','J1'),(2,'CHAR9','J9')",
]
T_ROWS = [(i, f"r{i}") for i in range(1, 21)]
A_ROWS = [(1, "x", "b", 2, 30), (2, "x", "a", 1, None), (3, "y", "c", 3, 10), (4, "y", "d", 2, 20), (5, "x", "a", 1, 40)]
L_ROWS = [(1, "VARCHAR1"), (2, "VARCHAR2"), (3, "XCHAR1")]
R_ROWS = [(1, "CHAR1", "J1"), (2, "CHAR9", "J9")]


def _cur():
    if "cur" not in _W:
        import fakesnow.instance as inst

        fs = inst.FakeSnow()
        conn = fs.connect(database="db1", schema="s1")
        cur = conn.cursor()
        for s in FIXTURE:
            cur.execute(s)
        _W["fs"], _W["conn"], _W["cur"] = fs, conn, cur
    return _W["cur"]


def _exc(e):
    return type(e).__module__.split(".")[0] + "." + type(e).__name__


def run_sql(cur, sql, want_desc=True):
    """('ok', rows, desc|None) | ('rej', stage, exc)"""
    try:
        cur.execute(sql)
    except Exception as e:  # noqa: BLE001
        return ("rej", "execute", _exc(e))
    try:
        rows = cur.fetchall()
    except Exception as e:  # noqa: BLE001
        return ("rej", "fetch", _exc(e))
    desc = None
    if want_desc:
        try:
            desc = [(d.name, d.type_code, d.precision, d.scale) for d in cur.description]
        except Exception:  # noqa: BLE001  description is C06's business
            desc = None
    return ("ok", rows, desc)


def eval_exprs(cur, sqls):
    """Evaluate expressions; one SELECT list if possible, else one statement per expression."""
    n = len(sqls)
    stmts = 1
    r = run_sql(cur, "SELECT " + ", ".join(f"{s} AS x{i}" for i, s in enumerate(sqls)))
    if r[0] == "ok" and len(r[1]) == 1 and len(r[1][0]) == n:
        row, desc = r[1][0], r[2]
        return [("ok", row[i], tuple(desc[i][1:]) if desc and len(desc) == n else None) for i in range(n)], stmts
    out = []
    for s in sqls:
        stmts += 1
        r = run_sql(cur, f"SELECT {s} AS x0")
        if r[0] == "ok":
            if len(r[1]) != 1 or len(r[1][0]) != 1:
                out.append(("ok", ("<shape>", norm(r[1])), None))
            else:
                out.append(("ok", r[1][0][0], tuple(r[2][0][1:]) if r[2] and len(r[2]) == 1 else None))
        else:
            out.append(r)
    return out, stmts


def obs_repr(o):
    return (o[0], norm(o[1]) if o[0] == "ok" else o[1], o[2])


def report(acc, c, obs, tier, where="select"):
    bad = verdicts(c, obs)
    for cl in applicable(c):
        acc.member(cl, c["cls"], cl in bad)
    for cl in bad:
        acc.violation(
            cl,
            c["cls"],
            {"sql": c["sql"], "expected": _exp_repr(c["exp"]), "observed": obs_repr(obs), "rej_ok": c["rej_ok"]},
            {"kind": "expr", "fn": c["fn"], "sql": c["sql"], "tier": tier},
        )
    return bad


def _exp_repr(exp):
    if exp[0] == "err":
        return "documented error (must be rejected)"
    return {"value": norm(exp[1]), "kind": exp[2], "meta": exp[3]}


# ====================================================================================================================
# ALPHABETS and case generators (expression constructs).  Every list is the complete alphabet of its tier; the
# generators take the full product.  quick ⊂ thorough.

Q, T = "quick", "thorough"

# REJ_OK_TODAY — the complete list of forms that fakesnow does not support today: for these (and only these) a rejection
# (any exception) is accepted, as the property's last sentence says; a *value* must still be the documented one.
# Every other form of the alphabets is answered today and has to stay answered (clause C10.supported reports a form
# that goes from answered to rejected).  Each entry was observed to be rejected on the pinned tree, except
# TO_TIMESTAMP:int_of_ms_us_ns_magnitude whose smallest member is answered (wrongly: known finding C10.value).
REJ_OK_TODAY = {
    "REGEXP_REPLACE:position_occurrence_parameters": "NotImplementedError raised by transforms.regex_replace",
    "TO_DATE:non_iso_auto_format": "DD-MON-YYYY, MM/DD/YYYY and integer strings are handed to DuckDB's DATE cast as they are",
    "TO_TIMESTAMP:int_of_ms_us_ns_magnitude": "the magnitude rule for integers >= 31536000000 is not implemented",
    "TO_TIMESTAMP:date_or_timestamp_expression": "to_timestamp(DATE|TIMESTAMP) / strptime(DATE, …) do not exist in DuckDB",
    "TO_TIMESTAMP:varchar_column": "only string literals become casts; a column reaches to_timestamp(DOUBLE) (TO_TIMESTAMP_NTZ works)",
    "TO_TIMESTAMP:dollar_quoted_string": "a $$…$$ constant is not a string Literal for sqlglot: it reaches DuckDB's to_timestamp(DOUBLE)",
    "TO_TIMESTAMP_NTZ:dollar_quoted_string_not_in_strptime_format": "a $$…$$ constant goes to strptime(…, '%Y-%m-%d %H:%M:%S') instead of a cast",
    "TO_DATE:dollar_quoted_format": "sqlglot only converts a format given as a string Literal; $$DD/MM/YYYY$$ reaches strptime unconverted",
    "TO_TIMESTAMP:dollar_quoted_format": "same for TO_TIMESTAMP / TO_TIMESTAMP_NTZ with a $$…$$ format",
    "TO_TIMESTAMP:int_expression_with_scale": "a negative literal (unary minus) with a scale argument is not recognised as an epoch value",
    "TO_TIMESTAMP_NTZ:int_expression": "negative literal / integer column end up in strptime(<int>, …)",
    "TO_DECIMAL:format_argument": "NotImplementedError raised by transforms.to_decimal / try_to_decimal",
    "CAST:integer_to_timestamp": "DuckDB has no INTEGER -> TIMESTAMP cast",
    "DATE_PART:nanosecond": "DuckDB intervals and date_diff stop at microseconds",
    "SHA2:digest_size_other_than_256": "only SHA-256 exists in DuckDB",
    "NESTED:SHA2(SHA2_HEX)": "a call nested directly inside a call rewritten by the same transform pass is not rewritten",
    "NESTED:TO_DECIMAL(TO_DECIMAL)": "same",
    "NESTED:TO_DECIMAL(TO_NUMERIC)": "same",
    # nested family (ctx=nested_in=…): pairs that are rejected today.  sqlglot's transform() does not descend into a node the
    # callback replaced, so an inner call that needs the same transform pass as its parent reaches DuckDB as written.
    "NESTED:SHA2.msg(SHA2_HEX)": "SHA2_HEX inside a call replaced by transforms.sha256 is not rewritten",
    "NESTED:SHA2_HEX.msg(SHA2_HEX)": "same",
    "NESTED:SHA2_BINARY.msg(SHA2_HEX)": "same",
    "NESTED:TO_DECIMAL.arg(TO_DECIMAL)": "inner call inside a call replaced by transforms.to_decimal is not rewritten",
    "NESTED:TO_DECIMAL.arg(TO_NUMERIC)": "same",
    "NESTED:TO_NUMBER.arg(TO_DECIMAL)": "same",
    "NESTED:TO_NUMBER.arg(TO_NUMERIC)": "same",
    "NESTED:TRIM.characters(TRIM)": "only the operand of TRIM gets the implicit VARCHAR cast, a TRIM in the characters argument does not",
    "NESTED:TO_TIMESTAMP.arg(*)": "TO_TIMESTAMP of anything but a string / integer literal (see TO_TIMESTAMP:date_or_timestamp_expression)",
    "NESTED:TO_TIMESTAMP_NTZ.arg(*)": "TO_TIMESTAMP_NTZ of a function call ends up in strptime(<expr>, …) or is not rewritten",
    "RANDOM:seed_2^32_and_above": "setseed() refuses the scaled seed",
    "SAMPLE:ROW": "DuckDB parser does not know the ROW sampling method",
    "SAMPLE:BLOCK": "DuckDB parser does not know the BLOCK sampling method",
    "IDENTIFIER:quoted_name": "quotes inside the string are copied into the identifier",
    "VALUES:first_table_then_CROSS_or_INNER_JOIN_of_a_real_table": "checks.is_unqualified_table_expression raises AssertionError('Unexpected parent kind: CROSS') when the first real table of a SELECT is the right side of a CROSS / INNER JOIN (any derived table in front of it, not only VALUES)",
    "ALIAS_IN_JOIN:alias_on_the_right": "alias_in_join only handles `alias = expr` as the whole ON condition",
    "ALIAS_IN_JOIN:alias_in_and": "same",
}
_CTX_REJ_OK = {("nested", "SHA2_HEX"): "NESTED:SHA2(SHA2_HEX)", ("nested", "TO_DECIMAL"): "NESTED:TO_DECIMAL(TO_DECIMAL)",
               ("nested", "TO_NUMERIC"): "NESTED:TO_DECIMAL(TO_NUMERIC)"}


def rej(form, cond=True):
    """rej_ok marking of a case: True only for a form listed in REJ_OK_TODAY."""
    assert form in REJ_OK_TODAY, form
    return bool(cond)


def _t(tier, quick, extra):
    return list(quick) + (list(extra) if tier == T else [])


def _col(expr_with_c: str, value_sql: str) -> str:
    """The same call with the argument coming from a column instead of a literal (scalar subquery)."""
    return f"(SELECT {expr_with_c} FROM (SELECT {value_sql} AS c))"


def _collapsed(p, alt, thunk):
    """Feature of a pattern holding an escaped backslash: what would come out if every pair of backslashes in the
    pattern were collapsed into one (so that the regex a\\\\b, "a, backslash, b", becomes a\\b, "a at a word boundary")?
    ``alt(pp)`` evaluates the call with plain Python re on the collapsed pattern.  -> invalid | differs | same"""
    import re as _re

    pp = p.replace("\\\\", "\\")
    try:
        _re.compile(pp)
    except _re.error:
        return "invalid"
    try:
        return "differs" if alt(pp) != thunk() else "same"
    except sf.NotDemanded:
        return "same"


def _py_substr(pp, s, pos, occ, par, grp):
    import re as _re

    ms = list(_re.compile(pp, _re.I if "i" in par else 0).finditer(s[pos - 1 :]))
    if occ > len(ms):
        return None
    g = grp if grp is not None else (1 if "e" in par else 0)
    return ms[occ - 1].group(g) if g <= ms[occ - 1].re.groups else None


def _py_sub(pp, repl, s):
    import re as _re

    return _re.sub(pp, repl, s)


# ---- REGEXP_SUBSTR --------------------------------------------------------------------------------------------------
RS_SUBJECTS = {Q: ["abc abd abe", "ABC abd", "a\\b ab", None], T: ["a.b axb", "aab1 b22", "xyz"]}
RS_PATTERNS = {
    Q: ["ab.", "a(b)(.)", "B", "a\\\\b", None],
    T: ["b", "[a-c]+", "ab?d", "(a|x)(b)", "a\\.b", "\\d+", "(ab)+", "^a", "e$"],
}
RS_OCC = {Q: [1, 3], T: [2]}
RS_PARAMS = {Q: ["c", "i", "e", "ie"], T: ["ci"]}
RS_GROUPS = [1, 2]


def rs_positions(tier, subject):
    n = len(subject) if subject is not None else 3
    return [1, 5, n + 1] if tier == Q else list(range(1, n + 2))


def gen_regexp_substr(tier, out, stats):
    fn = "REGEXP_SUBSTR"
    for s in _t(tier, RS_SUBJECTS[Q], RS_SUBJECTS[T]):
        for p in _t(tier, RS_PATTERNS[Q], RS_PATTERNS[T]):
            ng = sf.n_groups(p) if p is not None else 0
            forms = [()]
            poss = sorted(set(x for x in rs_positions(tier, s) if x <= (len(s) if s is not None else 3) + 1))
            occs = _t(tier, RS_OCC[Q], RS_OCC[T])
            if s is None or p is None:  # a NULL argument: one representative per arity
                poss, occs = [1], [1]
            pars = _t(tier, RS_PARAMS[Q], RS_PARAMS[T])
            forms += [(a,) for a in poss]
            forms += [(a, o) for a in poss for o in occs]
            forms += [(a, o, r) for a in poss for o in occs for r in pars]
            forms += [(a, o, r, g) for a in poss for o in occs for r in pars for g in RS_GROUPS if g <= ng]
            for f in forms:
                args = [q(s), q(p)] + [str(x) if isinstance(x, int) else q(x) for x in f]
                sql = f"REGEXP_SUBSTR({', '.join(args)})"
                pos = f[0] if len(f) > 0 else 1
                occ = f[1] if len(f) > 1 else 1
                par = f[2] if len(f) > 2 else "c"
                grp = f[3] if len(f) > 3 else None
                thunk = lambda s=s, p=p, pos=pos, occ=occ, par=par, grp=grp: sf.regexp_substr(s, p, pos, occ, par, grp)  # noqa: E731
                cls = f"fn={fn}"
                if s is None:
                    cls += ",subject=NULL"
                elif p is None:
                    cls += ",pattern=NULL"
                elif "\\\\" in p:
                    cls += ",pattern=escaped_backslash,if_pair_collapsed=" + _collapsed(p, lambda pp: _py_substr(pp, s, pos, occ, par, grp), thunk)
                elif "e" in par and grp is None:
                    try:
                        whole = sf.regexp_substr(s, p, pos, occ, par.replace("e", "") or "c", None)
                        differs = whole != thunk()
                    except sf.NotDemanded:
                        differs = False
                    cls += f",params=e,group=omitted,group1_differs_from_match={'yes' if differs else 'no'}"
                else:
                    cls += f",arity={2 + len(f)}" + (f",params={par}" if len(f) > 2 else "")
                case(fn, sql, thunk, "str", cls, ctx=(len(f) in (0, 4) and pos == 1 and occ == 1), out=out, stats=stats)


# ---- REGEXP_REPLACE -------------------------------------------------------------------------------------------------
RR_SUBJECTS = {Q: ["abcabc", "a.b.c", None], T: ["ABC abc", "a1 b22", "a\\b a\\b", ""]}
# (pattern, replacement) — replacement None = argument omitted
RR_PAIRS = {
    Q: [("b", None), ("b", "X"), ("\\.", "-"), ("(a)(b)", "\\2\\1"), ("a\\\\b", "X")],
    T: [("B", "X"), (".", "x"), ("[a-c]+", "#"), ("(a|x)b", "<\\1>"), ("b+c", ""), ("\\d+", "N")],
}
# extra arguments (position, occurrence, parameters): fakesnow raises NotImplementedError -> rej_ok
RR_EXTRA = {Q: [(1, 0), (1, 2)], T: [(3,), (3, 1), (1, 0, "i")]}


def gen_regexp_replace(tier, out, stats):
    fn = "REGEXP_REPLACE"
    for s in _t(tier, RR_SUBJECTS[Q], RR_SUBJECTS[T]):
        for p, r in _t(tier, RR_PAIRS[Q], RR_PAIRS[T]):
            args = [q(s), q(p)] + ([q(r)] if r is not None else [])
            thunk = lambda s=s, p=p, r=r: sf.regexp_replace(s, p, "" if r is None else r)  # noqa: E731
            feat = ",subject=NULL" if s is None else ""
            if "\\\\" in p and s is not None:
                feat = ",pattern=escaped_backslash,if_pair_collapsed=" + _collapsed(p, lambda pp: _py_sub(pp, "" if r is None else r, s), thunk)
            case(fn, f"REGEXP_REPLACE({', '.join(args)})", thunk, "str", f"fn={fn},arity={len(args)}{feat}", ctx=(r == "X"), out=out, stats=stats)
            if r is not None:
                for ex in _t(tier, RR_EXTRA[Q], RR_EXTRA[T]):
                    a2 = args + [str(x) if isinstance(x, int) else q(x) for x in ex]
                    th = lambda s=s, p=p, r=r, ex=ex: sf.regexp_replace(s, p, r, *ex)  # noqa: E731
                    case(fn, f"REGEXP_REPLACE({', '.join(a2)})", th, "str", f"fn={fn},arity={len(a2)}{feat}", rej_ok=rej("REGEXP_REPLACE:position_occurrence_parameters"), out=out, stats=stats)
    # NULL pattern / NULL replacement, pattern and subject from a column
    for s in ["abcabc"]:
        case(fn, f"REGEXP_REPLACE({q(s)}, NULL, {q('X')})", lambda: None, "str", f"fn={fn},pattern=NULL", out=out, stats=stats)
        case(fn, f"REGEXP_REPLACE({q(s)}, {q('b')}, NULL)", lambda: None, "str", f"fn={fn},replacement=NULL", out=out, stats=stats)
        for p in _t(tier, ["b"], ["[a-c]"]):
            n = len(sf.regexp_replace(s, p, "X").split("X")) - 1
            case(fn, _col(f"REGEXP_REPLACE({q(s)}, c, {q('X')})", q(p)), lambda s=s, p=p: sf.regexp_replace(s, p, "X"), "str",
                 f"fn={fn},pattern=column,matches={'many' if n > 1 else 'one'}", out=out, stats=stats)
            case(fn, _col(f"REGEXP_REPLACE(c, {q(p)}, {q('X')})", q(s)), lambda s=s, p=p: sf.regexp_replace(s, p, "X"), "str",
                 f"fn={fn},subject=column", out=out, stats=stats)
        case(fn, _col(f"REGEXP_REPLACE({q('abcabc')}, c, {q('X')})", q("c")), lambda: sf.regexp_replace("abcabc", "c", "X"), "str",
             f"fn={fn},pattern=column,matches=many", out=out, stats=stats)
        case(fn, _col(f"REGEXP_REPLACE({q('abcabc')}, c, {q('X')})", q("bca")), lambda: sf.regexp_replace("abcabc", "bca", "X"), "str",
             f"fn={fn},pattern=column,matches=one", out=out, stats=stats)


# ---- SPLIT ----------------------------------------------------------------------------------------------------------
# Not demanded: SPLIT('' , sep) (the page does not say whether the result is [""] or []); the type code of the ARRAY.
SP_STRINGS = {Q: ["a,b,c", "a,b,,c", None], T: [",a,", "abc", "a.b", "a||b||c", "a b"]}
SP_SEPS = {Q: [",", "", None], T: [".", "||", "bc", " "]}


def gen_split(tier, out, stats):
    fn = "SPLIT"
    for s in _t(tier, SP_STRINGS[Q], SP_STRINGS[T]):
        for sep in _t(tier, SP_SEPS[Q], SP_SEPS[T]):
            shape = "string=NULL" if s is None else "separator=NULL" if sep is None else "separator=empty" if sep == "" else "separator=text"
            case(fn, f"SPLIT({q(s)}, {q(sep)})", lambda s=s, sep=sep: sf.split(s, sep), "array", f"fn={fn},{shape}", out=out, stats=stats)


# ---- TRIM / LTRIM / RTRIM -------------------------------------------------------------------------------------------
# Not demanded: an empty or NULL <characters> argument, whitespace other than the blank, non-integer numbers as input.
TR_SUBJECTS = {Q: ["  a  ", "xxaxx", None], T: ["xyaxy", " a b ", "abc", "", " xax "]}
TR_CHARS = {Q: [None, "x"], T: ["xy", " ", "a", " x"]}  # None = argument omitted
TR_FUNCS = {"TRIM": sf.trim, "LTRIM": sf.ltrim, "RTRIM": sf.rtrim}


def gen_trim(tier, out, stats):
    for name, ref in TR_FUNCS.items():
        for s in _t(tier, TR_SUBJECTS[Q], TR_SUBJECTS[T]):
            for ch in _t(tier, TR_CHARS[Q], TR_CHARS[T]):
                sql = f"{name}({q(s)})" if ch is None else f"{name}({q(s)}, {q(ch)})"
                th = (lambda s=s, ref=ref: ref(s)) if ch is None else (lambda s=s, ch=ch, ref=ref: ref(s, ch))
                if s is None:
                    cls = "fn=TRIM_FAMILY,subject=NULL"
                elif ch is not None:
                    # would a TRIM that ignores <characters> and the side (blank trim of both sides) give something else?
                    cls = f"fn=TRIM_FAMILY,chars=given,differs_from_blank_trim_of_both_sides={'yes' if th() != sf.trim(s) else 'no'}"
                elif name == "TRIM":
                    cls = "fn=TRIM,chars=omitted"
                else:
                    cls = f"fn=LTRIM_RTRIM,chars=omitted,differs_from_both_sides={'yes' if th() != sf.trim(s) else 'no'}"
                case(name, sql, th, "str", cls, ctx=(s == "xxaxx"), out=out, stats=stats)
        # non-string input is cast to VARCHAR; argument from a column
        case(name, f"{name}(123)", lambda ref=ref: ref(123), "str", "fn=TRIM_FAMILY,subject=number", out=out, stats=stats)
        case(name, _col(f"{name}(c)", q("  a  ")), lambda ref=ref: ref("  a  "), "str",
             "fn=TRIM,chars=omitted" if name == "TRIM" else f"fn=LTRIM_RTRIM,chars=omitted,differs_from_both_sides={'yes' if ref('  a  ') != 'a' else 'no'}", out=out, stats=stats)


# ---- TO_DATE --------------------------------------------------------------------------------------------------------
# Not demanded: AUTO formats other than ISO and explicit formats (fakesnow hands those to DuckDB as they are; the right
# value or a rejection is accepted), '' as input, TRY_TO_DATE (not named by the property).
TD_STRINGS = {
    Q: ["2024-02-29", "1970-01-01", "2024-02-29 12:13:14", "2024-02-30", "abc"],
    T: ["1969-12-31", "2023-12-31", "9999-12-31", "2024-02-29T23:59:59", "2024-02-29 23:59:59.999", "2023-02-29", "2024-13-01"],
}
# forms fakesnow makes no attempt at (other AUTO formats, integer strings) or passes to strptime: right value or rejected
TD_REJ_OK = {  # (arguments, value)
    Q: [(("31-Dec-2020",), D(2020, 12, 31)), (("29/02/2024", "DD/MM/YYYY"), D(2024, 2, 29))],
    T: [(("02/29/2024",), D(2024, 2, 29)), (("1700000000",), D(2023, 11, 14)), (("2024.02.29", "YYYY.MM.DD"), D(2024, 2, 29)),
        (("2024-02-29", "YYYY-MM-DD"), D(2024, 2, 29))],
}


def gen_to_date(tier, out, stats):
    for name in ["TO_DATE"]:
        for s in _t(tier, TD_STRINGS[Q], TD_STRINGS[T]):
            shape = "arg=date_string" if len(s) == 10 and s[4] == "-" else "arg=timestamp_string" if s[0].isdigit() else "arg=garbage"
            c = case(name, f"{name}({q(s)})", lambda s=s: sf.to_date(s), "date", f"fn={name},{shape}{dq()}", ctx=(s == "2024-02-29 12:13:14"), stats=stats)
            if c["exp"][0] == "err":
                c["cls"] += ",invalid=yes"
            out.append(c)
        case(name, f"{name}(NULL)", lambda: None, "date", f"fn={name},arg=NULL", out=out, stats=stats)
        case(name, f"{name}('2024-02-29'::DATE)", lambda: D(2024, 2, 29), "date", f"fn={name},arg=date", out=out, stats=stats)
        case(name, f"{name}('2024-02-29 23:59:59'::TIMESTAMP_NTZ)", lambda: D(2024, 2, 29), "date", f"fn={name},arg=timestamp", ctx=True, out=out, stats=stats)
        case(name, f"{name}(TO_TIMESTAMP(86399))", lambda: D(1970, 1, 1), "date", f"fn={name},arg=timestamp", out=out, stats=stats)
        case(name, _col(f"{name}(c)", q("2024-02-29")), lambda: D(2024, 2, 29), "date", f"fn={name},arg=string_column", out=out, stats=stats)
    for targs, v in _t(tier, TD_REJ_OK[Q], TD_REJ_OK[T]):
        sql = f"TO_DATE({', '.join(q(x) for x in targs)})"
        fmt = len(targs) > 1  # an explicit format is answered today (strptime) and must stay answered
        case("TO_DATE", sql, lambda v=v: v, "date", ("fn=TO_DATE,format=given" if fmt else "fn=TO_DATE,arg=other_auto_format") + dq(),
             rej_ok=rej("TO_DATE:non_iso_auto_format", not fmt) or rej("TO_DATE:dollar_quoted_format", fmt and _STYLE[0] == "dollar"), out=out, stats=stats)


# ---- TO_TIMESTAMP / TO_TIMESTAMP_NTZ --------------------------------------------------------------------------------
# Integers of millisecond / microsecond / nanosecond magnitude without a scale: fakesnow does not implement the documented
# magnitude rule, so these are rej_ok (right value or rejected, an OverflowError while fetching counts as rejected).
# Not demanded: sub-microsecond digits, zoned strings, FLOAT arguments.
TT_STRINGS = {
    Q: ["2024-02-29", "2024-02-29 12:13:14", "2024-02-29T12:13:14.123456", "1700000000"],
    T: ["1969-12-31 23:59:59", "2024-02-29 12:13:14.5", "0", "2024-02-30 00:00:00", "abc"],
}
TT_INTS = {Q: [0, -1, 1700000000, 31536000000, 1700000000000], T: [1, 86399, 31535999999, 1700000000123456, 1700000000123456000, -86400]}
TT_SCALED = {Q: [(1700000000, 0), (1700000000123, 3), (-1500, 3)], T: [(1700000000123456, 6), (1700000000123456000, 9), (31536000000, 0)]}


def _int_shape(n):
    a = abs(n)
    unit = "seconds" if a < 31536000000 else "milliseconds" if a < 31536000000000 else "microseconds" if a < 31536000000000000 else "nanoseconds"
    s = f"arg=int,unit={unit}" + (",negative=yes" if n < 0 else "")
    if unit != "seconds":
        # does the same integer read as seconds still fit a Python datetime?  (year <= 9999)
        s += f",as_seconds_in_range={'yes' if a <= 253402300799 else 'no'}"
    return s


def gen_to_timestamp(tier, out, stats):
    for name in ["TO_TIMESTAMP", "TO_TIMESTAMP_NTZ"]:
        for s in _t(tier, TT_STRINGS[Q], TT_STRINGS[T]):
            shape = "arg=int_string" if s.lstrip("-").isdigit() else "arg=date_string" if len(s) == 10 else "arg=timestamp_string" if s[0].isdigit() else "arg=garbage"
            # a dollar-quoted constant is not a Literal for sqlglot, so the TO_TIMESTAMP rewrites treat it like an
            # expression: the quoting is part of the input shape here even though the characters are the same
            dollar = _STYLE[0] == "dollar"
            plain_ts = re.fullmatch(r"\d{4}-\d\d-\d\d \d\d:\d\d:\d\d", s) is not None
            rj = dollar and (rej("TO_TIMESTAMP:dollar_quoted_string", name == "TO_TIMESTAMP")
                             or rej("TO_TIMESTAMP_NTZ:dollar_quoted_string_not_in_strptime_format", name == "TO_TIMESTAMP_NTZ" and not plain_ts))
            c = case(name, f"{name}({q(s)})", lambda s=s: sf.to_timestamp(s), "ts", f"fn={name},{shape}" + (",quoting=dollar" if dollar else ""),
                     rej_ok=rj, ctx=(s == "2024-02-29 12:13:14"), stats=stats)
            if c["exp"][0] == "err":
                c["cls"] += ",invalid=yes"
            out.append(c)
        for n in _t(tier, TT_INTS[Q], TT_INTS[T]):
            shape = _int_shape(n)
            # a negative literal is an expression (unary minus), not a literal: fakesnow treats the two differently
            cls = f"fn={name},arg=int_expression" if n < 0 else f"fn=TO_TIMESTAMP[_NTZ],{shape}"
            case(name, f"{name}({n})", lambda n=n: sf.to_timestamp(n), "ts", cls,
                 rej_ok=rej("TO_TIMESTAMP:int_of_ms_us_ns_magnitude", "unit=seconds" not in shape) or (n < 0 and rej("TO_TIMESTAMP_NTZ:int_expression", name == "TO_TIMESTAMP_NTZ")),
                 ctx=(n == 1700000000), out=out, stats=stats)
        for n, sc in _t(tier, TT_SCALED[Q], TT_SCALED[T]):
            case(name, f"{name}({n}, {sc})", lambda n=n, sc=sc: sf.to_timestamp(n, sc), "ts",
                 "fn=TO_TIMESTAMP[_NTZ],arg=int_expression,scale=given" if n < 0 else f"fn=TO_TIMESTAMP[_NTZ],arg=int,scale={sc}",
                 rej_ok=rej("TO_TIMESTAMP:int_expression_with_scale", n < 0), out=out, stats=stats)
        case(name, f"{name}(NULL)", lambda: None, "ts", f"fn={name},arg=NULL", out=out, stats=stats)
        case(name, f"{name}('2024-02-29'::DATE)", lambda: TS(2024, 2, 29), "ts", "fn=TO_TIMESTAMP[_NTZ],arg=date_or_timestamp_expression",
             rej_ok=rej("TO_TIMESTAMP:date_or_timestamp_expression"), out=out, stats=stats)
        case(name, f"{name}('2024-02-29 01:02:03'::TIMESTAMP_NTZ)", lambda: TS(2024, 2, 29, 1, 2, 3), "ts", "fn=TO_TIMESTAMP[_NTZ],arg=date_or_timestamp_expression",
             rej_ok=rej("TO_TIMESTAMP:date_or_timestamp_expression"), out=out, stats=stats)
        case(name, _col(f"{name}(c)", q("2024-02-29 12:13:14")), lambda: TS(2024, 2, 29, 12, 13, 14), "ts", f"fn={name},arg=string_column",
             rej_ok=rej("TO_TIMESTAMP:varchar_column", name == "TO_TIMESTAMP"), out=out, stats=stats)
        case(name, _col(f"{name}(c)", "1700000000"), lambda: sf.to_timestamp(1700000000), "ts", f"fn={name},arg=int_expression",
             rej_ok=rej("TO_TIMESTAMP_NTZ:int_expression", name == "TO_TIMESTAMP_NTZ"), out=out, stats=stats)
        case(name, f"{name}({q('29/02/2024 12:13:14')}, {q('DD/MM/YYYY HH24:MI:SS')})", lambda: TS(2024, 2, 29, 12, 13, 14), "ts",
             f"fn={name},format=given{dq()}", rej_ok=rej("TO_TIMESTAMP:dollar_quoted_format", _STYLE[0] == "dollar"), out=out, stats=stats)


# ---- TO_DECIMAL / TO_NUMBER / TO_NUMERIC and TRY_ forms -------------------------------------------------------------
# Not demanded: padded / blank strings, '+1', '.5', thousands separators, FLOAT input exactly at a binary-exact midpoint,
# TRY_ forms with non-string input (the TRY_ pages ask for a string expression).
DEC_NAMES = ["TO_DECIMAL", "TO_NUMBER", "TO_NUMERIC"]
DEC_STRINGS = {
    Q: ["1.5", "-2.5", "12.345", "12.3449", "99999.5", "123456", "abc"],
    T: ["0", "-1", "0.5", "-0.5", "2.5", "-1.5", "0.4999", "12.355", "-12.345", "99999", "99999.4", "-99999.5", "1e3", "1.5e1", "12.5.1"],
}
# decimal literals (fixed-point source); written as SQL numeric literals
DEC_LITERALS = {Q: ["2.5", "-2.5", "1.45", "1.44", "12"], T: ["0.5", "-0.5", "3.5", "1.55", "1.46", "12.345", "-12.345", "12.355", "99.95", "0"]}
DEC_PS = {Q: [None, (10, 2), (5, 0)], T: [(10,), (2, 1), (38, 0), (38, 3)]}  # None = both omitted


def _trunc(v: Decimal, scale: int) -> Decimal:
    return v.quantize(Decimal(1).scaleb(-scale), rounding=decimal.ROUND_DOWN)


def _dec_features(x, ps, exp):
    """Input-shape features of a conversion to NUMBER(p,s): is rounding away from zero needed, does it overflow."""
    p, s = (ps + (0,))[:2] if ps else (38, 0)
    if exp[0] == "err":
        try:
            v = Decimal(x)
        except decimal.InvalidOperation:
            return "input=not_a_number"
        fits_truncated = abs(_trunc(v, s)) < Decimal(10) ** (p - s)
        return "overflow=by_rounding" if fits_truncated else "overflow=integer_digits"
    v = exp[1]
    if v is None:
        return "result=NULL"
    src = Decimal(x)
    if src == v:
        return "rounding=exact"
    return "rounding=away_from_zero" if v != _trunc(src, s) else "rounding=toward_zero"


def gen_to_decimal(tier, out, stats):
    for tr in ("", "TRY_"):
        ref = sf.try_to_decimal if tr else sf.to_decimal
        for base in DEC_NAMES if tier == T or not tr else ["TO_DECIMAL", "TO_NUMBER"]:
            name = tr + base
            for ps in _t(tier, DEC_PS[Q], DEC_PS[T]):
                a = "" if ps is None else ", " + ", ".join(map(str, ps))
                pr = ps or ()
                meta = {"precision": pr[0] if pr else 38, "scale": pr[1] if len(pr) > 1 else 0}
                for s in _t(tier, DEC_STRINGS[Q], DEC_STRINGS[T]):
                    c = case(name, f"{name}({q(s)}{a})", lambda s=s, pr=pr, ref=ref: ref(s, *pr), "num", "", meta=meta, ctx=(s == "12.345" and pr != (38, 3)), stats=stats)
                    if c is None:
                        continue
                    plain = sf.to_decimal  # features are those of the plain conversion
                    try:
                        pexp = ("val", plain(s, *pr), "num", meta)
                    except sf.SfError:
                        pexp = ("err",)
                    c["cls"] = f"fn={tr}TO_DECIMAL,src=string,{_dec_features(s, pr, pexp)}"
                    out.append(c)
                if not tr:
                    for x in _t(tier, DEC_LITERALS[Q], DEC_LITERALS[T]):
                        c = case(name, f"{name}({x}{a})", lambda x=x, pr=pr: sf.to_decimal(Decimal(x), *pr), "num", "", meta=meta, stats=stats)
                        c["cls"] = f"fn=TO_DECIMAL,src={'integer' if '.' not in x else 'decimal'}_literal,{_dec_features(x, pr, c['exp'])}"
                        out.append(c)
                case(name, f"{name}(NULL{a})", lambda: None, "num", f"fn={tr}TO_DECIMAL,src=NULL", meta=meta, out=out, stats=stats)
            # format argument: NotImplementedError in fakesnow -> right value or rejected
            case(name, f"{name}({q('12.345')}, {q('99.999')}, 10, 2)", lambda: Decimal("12.35"), "num", f"fn={tr}TO_DECIMAL,format=given",
                 meta={"precision": 10, "scale": 2}, rej_ok=rej("TO_DECIMAL:format_argument"), out=out, stats=stats)
            # from a column, from a FLOAT away from midpoints
            c = case(name, _col(f"{name}(c, 10, 1)", q("12.35")), lambda ref=ref: ref("12.35", 10, 1), "num", f"fn={tr}TO_DECIMAL,src=string_column",
                     meta={"precision": 10, "scale": 1}, out=out, stats=stats)
            if not tr:
                case(name, f"{name}(1.26::FLOAT, 10, 1)", lambda: sf.to_decimal(1.26, 10, 1), "num", "fn=TO_DECIMAL,src=float",
                     meta={"precision": 10, "scale": 1}, out=out, stats=stats)


# ---- casts to NUMBER(p,s) / INT / FLOAT / TIMESTAMP_NTZ -------------------------------------------------------------
# (target spelling, precision, scale); the integer names are documented synonyms of NUMBER(38,0)
CAST_NUM_TARGETS = {
    Q: [("NUMBER(10,2)", 10, 2), ("NUMBER(2,1)", 2, 1), ("INT", 38, 0), ("NUMBER", 38, 0), ("NUMBER(5,0)", 5, 0)],
    T: [("INTEGER", 38, 0), ("BIGINT", 38, 0), ("SMALLINT", 38, 0), ("DECIMAL(10,2)", 10, 2), ("NUMERIC(5,0)", 5, 0), ("NUMBER(38,3)", 38, 3)],
}
CAST_NUM_SOURCES = {
    Q: [("dec", "2.5"), ("dec", "-2.5"), ("dec", "1.45"), ("dec", "1.44"), ("dec", "99999.5"), ("int", "12"), ("str", "1.45"), ("str", "-2.5")],
    T: [("dec", "0.5"), ("dec", "-0.5"), ("dec", "3.5"), ("dec", "1.55"), ("dec", "12.345"), ("dec", "-12.345"), ("dec", "123456"),
        ("int", "0"), ("int", "-7"), ("str", "2.5"), ("str", "12.3449"), ("str", "abc")],
}
CAST_FLOAT_TARGETS = {Q: ["FLOAT", "DOUBLE"], T: ["REAL", "FLOAT8", "DOUBLE PRECISION"]}
CAST_FLOAT_SOURCES = {Q: [("str", "1.5"), ("int", "1"), ("dec", "0.1")], T: [("str", "1e2"), ("str", "-0.25"), ("dec", "-2.5"), ("int", "0")]}
CAST_TS_TARGETS = {Q: ["TIMESTAMP_NTZ", "TIMESTAMP"], T: ["DATETIME", "TIMESTAMP_NTZ(9)"]}
CAST_TS_STRINGS = {Q: ["2020-01-01", "2020-01-01 01:02:03", "1969-12-31 23:59:59.5"], T: ["2024-02-29T01:02:03.123456", "2024-02-30 00:00:00"]}


def _src_sql(kind, text, form):
    x = q(text) if kind == "str" else f"({text})" if text.startswith("-") else text
    return f"CAST({x} AS {form[5:]})" if form.startswith("CAST:") else f"{x}::{form}"


def gen_casts(tier, out, stats):
    for tgt, p, s in _t(tier, CAST_NUM_TARGETS[Q], CAST_NUM_TARGETS[T]):
        meta = {"precision": p, "scale": s}
        for kind, text in _t(tier, CAST_NUM_SOURCES[Q], CAST_NUM_SOURCES[T]):
            for form in [tgt] + (["CAST:" + tgt] if tier == T or tgt in ("NUMBER(10,2)", "INT") else []):
                x = text if kind == "str" else Decimal(text)
                c = case("CAST_NUMBER", _src_sql(kind, text, form), lambda x=x, p=p, s=s: sf.cast_number(x, p, s), "num", "", meta=meta,
                         ctx=(text == "1.44" and form == tgt), stats=stats)
                if c is None:
                    continue
                src = {"dec": "decimal_literal", "int": "integer_literal", "str": "string"}[kind]
                tk = "integer_type" if "(" not in tgt and tgt != "NUMBER" else "number"
                c["cls"] = f"fn=CAST,target={tk},src={src},{_dec_features(text, (p, s), c['exp'])}"
                out.append(c)
        case("CAST_NUMBER", f"NULL::{tgt}", lambda: None, "num", "fn=CAST,target=number,src=NULL", meta=meta, out=out, stats=stats)
    case("CAST_NUMBER", "1.26::FLOAT::NUMBER(3,1)", lambda: sf.cast_number(1.26, 3, 1), "num", "fn=CAST,target=number,src=float", meta={"precision": 3, "scale": 1}, out=out, stats=stats)
    for tgt in _t(tier, CAST_FLOAT_TARGETS[Q], CAST_FLOAT_TARGETS[T]):
        for kind, text in _t(tier, CAST_FLOAT_SOURCES[Q], CAST_FLOAT_SOURCES[T]):
            x = text if kind == "str" else Decimal(text)
            case("CAST_FLOAT", _src_sql(kind, text, tgt), lambda x=x: sf.cast_float(x), "float", f"fn=CAST,target=float,src={kind}", ctx=(text == "1.5"), out=out, stats=stats)
        case("CAST_FLOAT", f"NULL::{tgt}", lambda: None, "float", "fn=CAST,target=float,src=NULL", out=out, stats=stats)
    for tgt in _t(tier, CAST_TS_TARGETS[Q], CAST_TS_TARGETS[T]):
        for s in _t(tier, CAST_TS_STRINGS[Q], CAST_TS_STRINGS[T]):
            for form in [tgt, "CAST:" + tgt]:
                c = case("CAST_TIMESTAMP", _src_sql("str", s, form), lambda s=s: sf.to_timestamp(s), "ts", "fn=CAST,target=timestamp_ntz,src=string",
                         ctx=(s == "2020-01-01 01:02:03" and form == tgt), stats=stats)
                if c["exp"][0] == "err":
                    c["cls"] += ",invalid=yes"
                out.append(c)
        case("CAST_TIMESTAMP", f"'2020-01-01'::DATE::{tgt}", lambda: TS(2020, 1, 1), "ts", "fn=CAST,target=timestamp_ntz,src=date", out=out, stats=stats)
        case("CAST_TIMESTAMP", f"NULL::{tgt}", lambda: None, "ts", "fn=CAST,target=timestamp_ntz,src=NULL", out=out, stats=stats)
        # integer -> timestamp (seconds since the epoch): DuckDB has no such cast -> right value or rejected
        case("CAST_TIMESTAMP", f"1700000000::{tgt}", lambda: sf.to_timestamp(1700000000), "ts", "fn=CAST,target=timestamp_ntz,src=integer", rej_ok=rej("CAST:integer_to_timestamp"), out=out, stats=stats)


# ---- DATEADD --------------------------------------------------------------------------------------------------------
# Result type rule (DATEADD page): DATE + part of day or larger -> DATE; DATE + smaller part -> TIMESTAMP_NTZ; timestamp ->
# timestamp.  String literals are implicitly cast to TIMESTAMP; for a date-only string with a part of day or larger a DATE
# is accepted as well (kind date_or_ts).  nanosecond is rej_ok (no sub-microsecond arithmetic in DuckDB intervals).
# Not demanded: fractional amounts, TIME inputs.
PARTS = ["year", "quarter", "month", "week", "day", "hour", "minute", "second", "millisecond", "microsecond", "nanosecond"]
PART_ALIASES = ["yy", "qtr", "mon", "wk", "dd", "hh", "mi", "sec", "ms", "us", "ns", "'month'", "YEARS"]  # thorough only
DA_AMOUNTS = {Q: [-13, -1, 0, 1, 3, 13], T: [n for n in range(-13, 14) if n not in (-13, -1, 0, 1, 3, 13)]}
DA_DATES = {Q: ["2024-02-29", "2023-12-31", "1970-01-01"], T: ["2024-01-31", "2023-02-28", "2024-03-31", "2023-11-30", "1969-12-31"]}
DA_TIMESTAMPS = {Q: ["2024-02-29 12:30:45", "1970-01-01 00:00:00"], T: ["2023-12-31 23:59:59", "2024-01-31 00:00:00.123456"]}
DA_STRINGS = {Q: ["2024-02-29", "2023-12-31 23:59:59"], T: ["1970-01-01"]}
# other spellings of a DATE / TIMESTAMP source, taken with a reduced (part, amount) alphabet
DA_ALT_PARTS = ["year", "month", "day", "hour"]
DA_ALT_AMOUNTS = [-1, 1]


def _part_name(p):
    return sf.part(p.strip("'"))


def _da_cls(p, src, n, value, extra=""):
    """src: date | timestamp (string literals are implicitly cast to TIMESTAMP) | date_column | …"""
    cp = _part_name(p)
    size = "quarter" if cp == "quarter" else "day_or_larger" if cp in sf.DAY_OR_LARGER else "nanosecond" if cp == "nanosecond" else "sub_day"
    cls = f"fn=DATEADD,part={size},src={src}{extra}"
    if cp == "quarter" and value is not None and n is not None:
        base = value if isinstance(value, TS) else TS(value.year, value.month, value.day)
        want = sf.dateadd("quarter", n, base)
        cls += f",equals_90_days_per_quarter={'yes' if want == base + dt.timedelta(days=90 * n) else 'no'}"
    return cls


def gen_dateadd(tier, out, stats):
    parts = _t(tier, PARTS, PART_ALIASES)
    amounts = _t(tier, DA_AMOUNTS[Q], DA_AMOUNTS[T])
    for p in parts:
        rj = rej("DATE_PART:nanosecond", _part_name(p) == "nanosecond")
        for n in amounts:
            nn = n * 1000 if rj else n
            for d in _t(tier, DA_DATES[Q], DA_DATES[T]):
                v = D.fromisoformat(d)
                kind = "date" if _part_name(p) in sf.DAY_OR_LARGER else "ts"
                case("DATEADD", f"DATEADD({p}, {nn}, {q(d)}::DATE)", lambda p=p, nn=nn, v=v: sf.dateadd(p.strip("'"), nn, v), kind,
                     _da_cls(p, "date", nn, v), rej_ok=rj, ctx=(n == 1 and d == "2024-02-29" and p in ("month", "hour")), out=out, stats=stats)
            for t in _t(tier, DA_TIMESTAMPS[Q], DA_TIMESTAMPS[T]):
                v = TS.fromisoformat(t)
                case("DATEADD", f"DATEADD({p}, {nn}, {q(t)}::TIMESTAMP_NTZ)", lambda p=p, nn=nn, v=v: sf.dateadd(p.strip("'"), nn, v), "ts",
                     _da_cls(p, "timestamp", nn, v), rej_ok=rj, ctx=(n == 1 and t == "2024-02-29 12:30:45" and p == "month"), out=out, stats=stats)
            for s in _t(tier, DA_STRINGS[Q], DA_STRINGS[T]):
                v = sf.to_timestamp(s)
                dateonly = len(s) == 10
                kind = "date_or_ts" if dateonly and _part_name(p) in sf.DAY_OR_LARGER else "ts"
                case("DATEADD", f"DATEADD({p}, {nn}, {q(s)})", lambda p=p, nn=nn, v=v: sf.dateadd(p.strip("'"), nn, v), kind,
                     _da_cls(p, "timestamp", nn, v), rej_ok=rj, out=out, stats=stats)
    for p in DA_ALT_PARTS:
        kind = "date" if p in sf.DAY_OR_LARGER else "ts"
        for n in DA_ALT_AMOUNTS:
            v = D(2024, 2, 29)
            th = lambda p=p, n=n, v=v: sf.dateadd(p, n, v)  # noqa: E731
            case("DATEADD", f"DATEADD({p}, {n}, CAST('2024-02-29' AS DATE))", th, kind, _da_cls(p, "date", n, v, ",spelling=CAST"), out=out, stats=stats)
            case("DATEADD", f"DATEADD({p}, {n}, TO_DATE({q('2024-02-29')}))", th, kind, _da_cls(p, "date", n, v, ",spelling=TO_DATE" + dq()), out=out, stats=stats)
            case("DATEADD", _col(f"DATEADD({p}, {n}, c)", "'2024-02-29'::DATE"), th, kind, _da_cls(p, "date_column", n, v), out=out, stats=stats)
            case("TIMESTAMPADD", f"TIMESTAMPADD({p}, {n}, '2024-02-29'::DATE)", th, kind, _da_cls(p, "date", n, v, ",name=TIMESTAMPADD"), out=out, stats=stats)
            tv = TS(2024, 2, 29, 12, 30, 45)
            tt = lambda p=p, n=n, tv=tv: sf.dateadd(p, n, tv)  # noqa: E731
            case("DATEADD", _col(f"DATEADD({p}, {n}, c)", "'2024-02-29 12:30:45'::TIMESTAMP_NTZ"), tt, "ts", _da_cls(p, "timestamp_column", n, tv), out=out, stats=stats)
            case("DATEADD", f"DATEADD({p}, {n}, TO_TIMESTAMP('2024-02-29 12:30:45'))", tt, "ts", _da_cls(p, "timestamp", n, tv, ",spelling=TO_TIMESTAMP"), out=out, stats=stats)
    case("DATEADD", "DATEADD(day, NULL, '2024-02-29'::DATE)", lambda: None, "date", "fn=DATEADD,amount=NULL", out=out, stats=stats)
    case("DATEADD", "DATEADD(day, 1, NULL::DATE)", lambda: None, "date", "fn=DATEADD,src=NULL", out=out, stats=stats)
    case("DATEADD", "DATEADD(hour, 1, NULL::TIMESTAMP_NTZ)", lambda: None, "ts", "fn=DATEADD,src=NULL", out=out, stats=stats)


# ---- DATEDIFF -------------------------------------------------------------------------------------------------------
DD_DATE_PAIRS = {
    Q: [("2023-12-31", "2024-01-01"), ("2024-01-31", "2024-02-01"), ("2024-01-06", "2024-01-08"), ("1969-12-28", "1970-01-05"), ("2024-02-28", "2024-03-01")],
    T: [("2024-01-08", "2024-01-14"), ("2024-03-31", "2024-04-01"), ("2023-02-28", "2024-02-29"), ("2024-02-29", "2024-02-29"), ("1969-12-31", "1970-01-01"),
        ("1968-01-01", "1969-06-30"), ("2020-01-01", "2024-12-31")],
}
DD_TS_PAIRS = {
    Q: [("2024-01-01 00:59:59", "2024-01-01 01:00:00"), ("2024-01-01 23:59:59.999999", "2024-01-02 00:00:00"), ("1969-12-31 23:59:59", "1970-01-01 00:00:00")],
    T: [("2024-01-01 00:00:59", "2024-01-01 00:01:00"), ("2024-01-01 00:00:00.999", "2024-01-01 00:00:01"), ("2024-01-01 00:00:00.000900", "2024-01-01 00:00:00.001"),
        ("2023-12-31 23:59:59", "2025-01-01 00:00:00"), ("1969-12-31 22:30:00", "1969-12-31 23:29:59.5"), ("2024-01-01 01:00:00", "2024-01-01 01:59:59")],
}
DD_MIXED = [("d", "2024-01-01", "t", "2024-01-02 12:00:00"), ("t", "2023-12-31 23:00:00", "d", "2024-01-01")]
DD_STR_PAIRS = {Q: [("2024-01-01", "2024-01-02 12:00:00"), ("2023-12-31 23:59:59", "2024-01-01")], T: [("2024-01-31", "2024-02-01")]}


def _dd_alt_trunc(cp, a, b):
    """DATEDIFF as it comes out if unit numbers are obtained by dividing the distance from 1970-01-01 with truncation
    toward zero instead of flooring (only differs when one operand is before 1970)."""
    a, b = (x if isinstance(x, TS) else TS(x.year, x.month, x.day) for x in (a, b))

    def tdiv(x, u):
        return -((-x) // u) if x < 0 else x // u

    def us(t):
        d = t - TS(1970, 1, 1)
        return (d.days * 86400 + d.seconds) * 10**6 + d.microseconds

    if cp == "week":
        def monday(x):
            return x.date().toordinal() - x.weekday() - D(1970, 1, 1).toordinal()
        return tdiv(monday(b), 7) - tdiv(monday(a), 7)
    unit = {"hour": 3600 * 10**6, "minute": 60 * 10**6, "second": 10**6, "millisecond": 1000}[cp]
    return tdiv(us(b), unit) - tdiv(us(a), unit)


def _dd_cls(p, args, a, b):
    cp = _part_name(p)
    cls = f"fn=DATEDIFF,part={cp},args={args}"
    if cp in ("week", "hour", "minute", "second", "millisecond") and a is not None and b is not None:
        cls = f"fn=DATEDIFF,part={'week' if cp == 'week' else 'sub_day'},differs_if_units_truncate_toward_1970={'yes' if _dd_alt_trunc(cp, a, b) != sf.datediff(cp, a, b) else 'no'}"
    return cls


def gen_datediff(tier, out, stats):
    for p in _t(tier, PARTS, PART_ALIASES):
        rj = rej("DATE_PART:nanosecond", _part_name(p) == "nanosecond")
        pairs = []
        for a, b in _t(tier, DD_DATE_PAIRS[Q], DD_DATE_PAIRS[T]):
            pairs.append(("date", f"{q(a)}::DATE", D.fromisoformat(a), f"{q(b)}::DATE", D.fromisoformat(b)))
        for a, b in _t(tier, DD_TS_PAIRS[Q], DD_TS_PAIRS[T]):
            pairs.append(("timestamp", f"{q(a)}::TIMESTAMP_NTZ", TS.fromisoformat(a), f"{q(b)}::TIMESTAMP_NTZ", TS.fromisoformat(b)))
        for ka, a, kb, b in DD_MIXED:
            f = lambda k, x: (f"{q(x)}::DATE", D.fromisoformat(x)) if k == "d" else (f"{q(x)}::TIMESTAMP_NTZ", TS.fromisoformat(x))  # noqa: E731
            pairs.append(("mixed",) + f(ka, a) + f(kb, b))
        for a, b in _t(tier, DD_STR_PAIRS[Q], DD_STR_PAIRS[T]):
            pairs.append(("string", q(a), sf.to_timestamp(a), q(b), sf.to_timestamp(b)))
        for args, sa, va, sb, vb in pairs:
            for (s1, v1, s2, v2) in ((sa, va, sb, vb), (sb, vb, sa, va)):
                case("DATEDIFF", f"DATEDIFF({p}, {s1}, {s2})", lambda p=p, v1=v1, v2=v2: sf.datediff(p.strip("'"), v1, v2), "num",
                     _dd_cls(p, args, v1, v2), meta={"scale": 0}, rej_ok=rj,
                     ctx=(p in ("month", "hour") and s1.startswith("'2023-12-31'::DATE")), out=out, stats=stats)
    case("DATEDIFF", "DATEDIFF(day, NULL, '2024-01-01'::DATE)", lambda: None, "num", "fn=DATEDIFF,arg=NULL", out=out, stats=stats)
    case("DATEDIFF", "DATEDIFF(day, '2024-01-01'::DATE, NULL::DATE)", lambda: None, "num", "fn=DATEDIFF,arg=NULL", out=out, stats=stats)
    for alias in ("TIMESTAMPDIFF", "TIMEDIFF"):
        case(alias, f"{alias}(day, '2023-12-31'::DATE, '2024-01-01'::DATE)", lambda: 1, "num", f"fn={alias}", meta={"scale": 0}, out=out, stats=stats)
    case("DATEDIFF", _col("DATEDIFF(month, c, '2024-02-01'::DATE)", "'2024-01-31'::DATE"), lambda: 1, "num", "fn=DATEDIFF,part=month,args=date_column", meta={"scale": 0}, out=out, stats=stats)


# ---- SHA2 / SHA2_HEX / SHA2_BINARY ----------------------------------------------------------------------------------
SHA_MSGS = {Q: ["abc", "", None], T: ["The quick brown fox", "é"]}
SHA_BITS = {Q: [None, 256, 512], T: [224, 384]}  # None = omitted


def gen_sha2(tier, out, stats):
    for name, ref, kind in (("SHA2", sf.sha2_hex, "str"), ("SHA2_HEX", sf.sha2_hex, "str"), ("SHA2_BINARY", sf.sha2_binary, "bytes")):
        for m in _t(tier, SHA_MSGS[Q], SHA_MSGS[T]):
            for b in _t(tier, SHA_BITS[Q], SHA_BITS[T]):
                sql = f"{name}({q(m)})" if b is None else f"{name}({q(m)}, {b})"
                cls = f"fn={name},digest_size={'omitted' if b is None else b}" + (",msg=NULL" if m is None else "")
                # only SHA-256 exists in DuckDB; other documented sizes: right digest or rejected
                case(name, sql, lambda m=m, b=b, ref=ref: ref(m, b or 256), kind, cls, rej_ok=rej("SHA2:digest_size_other_than_256", b not in (None, 256)), ctx=(m == "abc" and b is None), out=out, stats=stats)
        case(name, _col(f"{name}(c)", q("abc")), lambda ref=ref: ref("abc"), kind, f"fn={name},msg=column", out=out, stats=stats)
        case(name, f"{name}({q('abc')}, 100)", lambda ref=ref: ref("abc", 100), kind, f"fn={name},digest_size=invalid", out=out, stats=stats)


# ---- EQUAL_NULL -----------------------------------------------------------------------------------------------------
EN_VALUES = {Q: [("NULL", None), ("1", 1), ("2", 2), ("'a'", "a"), ("'b'", "b")], T: [("'2024-01-01'::DATE", D(2024, 1, 1)), ("TRUE", True), ("1.0", Decimal("1.0"))]}


def gen_equal_null(tier, out, stats):
    vals = _t(tier, EN_VALUES[Q], EN_VALUES[T])
    for sa, a in vals:
        for sb, b in vals:
            ta, tb = (type(x) if x is not None else None for x in (a, b))
            fam = lambda t: "num" if t in (int, Decimal) else t  # noqa: E731
            if ta is not None and tb is not None and fam(ta) != fam(tb):
                continue  # comparisons across type families are not what EQUAL_NULL documents
            nulls = (a is None) + (b is None)
            case("EQUAL_NULL", f"EQUAL_NULL({sa}, {sb})", lambda a=a, b=b: sf.equal_null(a, b), "bool", f"fn=EQUAL_NULL,nulls={nulls}", ctx=(sa in ("1", "NULL") and sb in ("1", "2", "NULL")), out=out, stats=stats)
    case("EQUAL_NULL", _col("EQUAL_NULL(c, NULL)", "NULL::INT"), lambda: True, "bool", "fn=EQUAL_NULL,arg=column", out=out, stats=stats)


# ---- nesting: every rewritten function inside every argument position of every rewritten function -------------------
# Context family  ctx=nested_in=<outer fn>,arg=<argument>,inner=<inner fn> .  The inner calls (NEST_INNERS) are taken from
# the alphabets above and chosen so that a call that is *not* rewritten (handed to DuckDB as written) answers differently:
# a pattern matching more than once (DuckDB replaces the first match only), an omitted replacement, functions DuckDB does
# not have (REGEXP_SUBSTR, TO_DATE, TO_DECIMAL, SHA2_HEX …), the quarter part, a FLOAT that is not exact in 32 bits.
# The outer templates (NEST_OUTERS) fix their other arguments.  Expectation = outer reference applied to the inner
# reference value.  An inner value is offered to an argument when its type tag is accepted there:
#   s = any string, sd = string holding an ISO date/timestamp, sn = string holding a number, n = fixed-point number,
#   i = integer, d = DATE, t = TIMESTAMP_NTZ, b = BOOLEAN, f = FLOAT


def nest_inners(tier):
    """(inner fn, sql, reference value, type tags)"""
    ins = [
        ("REGEXP_REPLACE", f"REGEXP_REPLACE({q('a-b-c')}, {q('-')}, {q('+')})", sf.regexp_replace("a-b-c", "-", "+"), "s"),
        ("REGEXP_REPLACE", f"REGEXP_REPLACE({q('2024x02x29')}, {q('x')}, {q('-')})", sf.regexp_replace("2024x02x29", "x", "-"), "s sd"),
        ("REGEXP_REPLACE", f"REGEXP_REPLACE({q('1x2x.x5')}, {q('x')})", sf.regexp_replace("1x2x.x5", "x"), "s sn"),
        ("REGEXP_SUBSTR", f"REGEXP_SUBSTR({q('abc abd')}, {q('ab.')}, 1, 2)", sf.regexp_substr("abc abd", "ab.", 1, 2), "s"),
        ("REGEXP_SUBSTR", f"REGEXP_SUBSTR({q('on 2024-02-29 12:13:14 sharp')}, {q('[0-9]+-[0-9]+-[0-9]+ [0-9]+')}, 4)",
         sf.regexp_substr("on 2024-02-29 12:13:14 sharp", "[0-9]+-[0-9]+-[0-9]+ [0-9]+", 4) and "2024-02-29 12", "s"),
        ("TRIM", "TRIM(12)", sf.trim(12), "s sn"),
        ("LTRIM", f"LTRIM({q('xxaxx')}, {q('x')})", sf.ltrim("xxaxx", "x"), "s"),
        ("SHA2_HEX", f"SHA2_HEX({q('abc')})", sf.sha2_hex("abc"), "s"),
        ("TO_DECIMAL", f"TO_DECIMAL({q('12.345')}, 10, 2)", sf.to_decimal("12.345", 10, 2), "n"),
        ("TO_NUMBER", f"TO_NUMBER({q('12.345')}, 10, 1)", sf.to_decimal("12.345", 10, 1), "n"),
        ("TRY_TO_DECIMAL", f"TRY_TO_DECIMAL({q('7.55')}, 10, 1)", sf.try_to_decimal("7.55", 10, 1), "n"),
        ("CAST_NUMBER", f"{q('1.45')}::NUMBER(2,1)", sf.cast_number("1.45", 2, 1), "n"),
        ("DATEDIFF", f"DATEDIFF(day, {q('2024-01-01')}, {q('2024-03-01')})", sf.datediff("day", D(2024, 1, 1), D(2024, 3, 1)), "n i"),
        ("TO_DATE", f"TO_DATE({q('2024-02-29 12:13:14')})", sf.to_date("2024-02-29 12:13:14"), "d"),
        ("DATEADD[date]", f"DATEADD(quarter, 1, {q('2023-11-30')}::DATE)", sf.dateadd("quarter", 1, D(2023, 11, 30)), "d"),
        ("TO_TIMESTAMP", f"TO_TIMESTAMP({q('2024-02-29 12:13:14')})", sf.to_timestamp("2024-02-29 12:13:14"), "t"),
        ("TO_TIMESTAMP_NTZ", f"TO_TIMESTAMP_NTZ({q('2024-02-29 12:13:14')})", sf.to_timestamp("2024-02-29 12:13:14"), "t"),
        ("TO_TIMESTAMP", "TO_TIMESTAMP(1700000000)", sf.to_timestamp(1700000000), "t"),
        ("DATEADD[timestamp]", f"DATEADD(hour, 1, {q('2024-02-29')}::DATE)", sf.dateadd("hour", 1, D(2024, 2, 29)), "t"),
        ("CAST_TIMESTAMP", f"{q('2020-01-01 01:02:03')}::TIMESTAMP_NTZ", sf.to_timestamp("2020-01-01 01:02:03"), "t"),
        ("EQUAL_NULL", "EQUAL_NULL(1, NULL)", sf.equal_null(1, None), "b"),
        ("CAST_FLOAT", f"{q('0.1')}::FLOAT", sf.cast_float("0.1"), "f"),
    ]
    if tier == T:
        ins += [
            ("RTRIM", f"RTRIM({q('  a  ')})", sf.rtrim("  a  "), "s"),
            ("SHA2", f"SHA2({q('abc')})", sf.sha2_hex("abc"), "s"),
            ("TO_NUMERIC", f"TO_NUMERIC({q('12.345')}, 10, 1)", sf.to_decimal("12.345", 10, 1), "n"),
            ("DATEADD[date]", f"DATEADD(month, 1, {q('2024-01-31')}::DATE)", sf.dateadd("month", 1, D(2024, 1, 31)), "d"),
            ("TO_DATE", f"TO_DATE({q('2024-02-29 23:59:59')}::TIMESTAMP_NTZ)", D(2024, 2, 29), "d"),
            ("DATEDIFF", f"DATEDIFF(month, {q('2024-01-31')}::DATE, {q('2024-02-01')}::DATE)", 1, "n i"),
        ]
    return ins + compound_inners()


def compound_inners():
    """Compound expressions as arguments, written without parentheses of their own (the call's parentheses delimit them):
    OR / AND / NOT / comparison / IS NULL / IN / BETWEEN, + - * and unary minus, ||, CASE, DATE + integer.  A rewrite that
    replaces the call by an operator expression has to keep each argument together.  Same tuple shape as nest_inners; the
    numbers are exact at scale 2 (no rounding question in the outer conversion)."""
    return [
        ("COMPOUND[or]", "FALSE OR TRUE", True, "b"),
        ("COMPOUND[or]", "FALSE OR FALSE", False, "b"),
        ("COMPOUND[and]", "TRUE AND FALSE", False, "b"),
        ("COMPOUND[and]", "TRUE AND TRUE", True, "b"),
        ("COMPOUND[not]", "NOT TRUE", False, "b"),
        ("COMPOUND[comparison]", "1 = 2", False, "b"),
        ("COMPOUND[comparison]", "1 < 2", True, "b"),
        ("COMPOUND[comparison]", "2 <> 2", False, "b"),
        ("COMPOUND[is_null]", "1 IS NULL", False, "b"),
        ("COMPOUND[is_null]", "1 IS NOT NULL", True, "b"),
        ("COMPOUND[in]", "1 IN (1, 2)", True, "b"),
        ("COMPOUND[in]", "3 NOT IN (1, 2)", True, "b"),
        ("COMPOUND[between]", "3 BETWEEN 1 AND 2", False, "b"),
        ("COMPOUND[sum]", "10 + 2.25", Decimal("12.25"), "n"),
        ("COMPOUND[sum]", "60 - 1", 59, "n i"),
        ("COMPOUND[sum]", "60 - 1 - 1", 58, "n i"),
        ("COMPOUND[product]", "2 * 30", 60, "n i"),
        ("COMPOUND[product]", "2 + 2 * 30", 62, "n i"),
        ("COMPOUND[unary_minus]", "-60", -60, "n i"),
        ("COMPOUND[concat]", f"{q('a-b')} || {q('-c')}", "a-b-c", "s"),
        ("COMPOUND[concat]", f"{q('2024-02')} || {q('-29')}", "2024-02-29", "s sd"),
        ("COMPOUND[concat]", f"{q('12')} || {q('.25')}", "12.25", "s sn"),
        ("COMPOUND[case]", f"CASE WHEN 1 = 1 THEN {q('a-b-c')} ELSE {q('z')} END", "a-b-c", "s"),
        ("COMPOUND[case]", "CASE WHEN 1 = 2 THEN 0 ELSE 12.25 END", Decimal("12.25"), "n"),
        ("COMPOUND[case]", "CASE WHEN 1 = 2 THEN 0 ELSE 59 END", 59, "n i"),
        ("COMPOUND[case]", "CASE WHEN 1 = 1 THEN FALSE ELSE TRUE END", False, "b"),
        ("COMPOUND[case]", f"CASE WHEN 1 = 1 THEN {q('2024-02-29')}::DATE END", D(2024, 2, 29), "d"),
        ("COMPOUND[date_plus_days]", f"{q('2024-02-28')}::DATE + 1", D(2024, 2, 29), "d"),
    ]


def nest_outers():
    """(outer fn, argument name, accepted type tags, sql template with {x}, reference of the outer call as a function of the
    inner value, result kind, meta)"""
    return [
        ("REGEXP_REPLACE", "subject", "s", f"REGEXP_REPLACE({{x}}, {q('b')}, {q('B')})", lambda v: sf.regexp_replace(v, "b", "B"), "str", None),
        ("REGEXP_REPLACE", "pattern", "s", f"REGEXP_REPLACE({q('aabbc 12 abd 12.5')}, {{x}}, {q('#')})", lambda v: sf.regexp_replace("aabbc 12 abd 12.5", v, "#"), "str", None),
        ("REGEXP_REPLACE", "replacement", "s", f"REGEXP_REPLACE({q('x-y-z')}, {q('-')}, {{x}})", lambda v: sf.regexp_replace("x-y-z", "-", v), "str", None),
        ("REGEXP_SUBSTR", "subject", "s", f"REGEXP_SUBSTR({{x}}, {q('[a-z0-9]+')}, 1, 2)", lambda v: sf.regexp_substr(v, "[a-z0-9]+", 1, 2), "str", None),
        ("SPLIT", "string", "s", f"SPLIT({{x}}, {q('b')})", lambda v: sf.split(v, "b"), "array", None),
        ("SPLIT", "separator", "s", f"SPLIT({q('x12yabdz')}, {{x}})", lambda v: sf.split("x12yabdz", v), "array", None),
        ("TRIM", "subject", "s", f"TRIM({{x}}, {q('a1c5')})", lambda v: sf.trim(v, "a1c5"), "str", None),
        ("LTRIM", "subject", "s", "LTRIM({x})", lambda v: sf.ltrim(v), "str", None),
        ("TRIM", "characters", "s", f"TRIM({q('12a21')}, {{x}})", lambda v: sf.trim("12a21", v), "str", None),
        ("SHA2", "msg", "s", "SHA2({x})", lambda v: sf.sha2_hex(v), "str", None),
        ("SHA2_HEX", "msg", "s", "SHA2_HEX({x})", lambda v: sf.sha2_hex(v), "str", None),
        ("SHA2_BINARY", "msg", "s", "SHA2_BINARY({x})", lambda v: sf.sha2_binary(v), "bytes", None),
        ("TO_DATE", "arg", "sd d t", "TO_DATE({x})", lambda v: sf.to_date(v), "date", None),
        ("TO_TIMESTAMP", "arg", "sd d t", "TO_TIMESTAMP({x})", lambda v: sf.to_timestamp(v), "ts", None),
        ("TO_TIMESTAMP_NTZ", "arg", "sd d t", "TO_TIMESTAMP_NTZ({x})", lambda v: sf.to_timestamp(v), "ts", None),
        ("TO_DECIMAL", "arg", "sn n", "TO_DECIMAL({x}, 38, 2)", lambda v: sf.to_decimal(v, 38, 2), "num", {"precision": 38, "scale": 2}),
        ("TO_NUMBER", "arg", "sn n", "TO_NUMBER({x}, 38, 2)", lambda v: sf.to_decimal(v, 38, 2), "num", {"precision": 38, "scale": 2}),
        ("TRY_TO_DECIMAL", "arg", "sn", "TRY_TO_DECIMAL({x}, 38, 2)", lambda v: sf.try_to_decimal(v, 38, 2), "num", {"precision": 38, "scale": 2}),
        ("CAST_NUMBER", "arg", "sn n", "({x})::NUMBER(20,2)", lambda v: sf.cast_number(v, 20, 2), "num", {"precision": 20, "scale": 2}),
        ("CAST_FLOAT", "arg", "sn n f", "({x})::FLOAT", lambda v: sf.cast_float(v), "float", None),
        ("CAST_TIMESTAMP", "arg", "sd d t", "({x})::TIMESTAMP_NTZ", lambda v: sf.to_timestamp(v), "ts", None),
        ("DATEADD", "date", "d t", "DATEADD(day, 1, {x})", lambda v: sf.dateadd("day", 1, v), None, None),
        ("DATEADD", "amount", "i", f"DATEADD(day, {{x}}, {q('2024-01-01')}::DATE)", lambda v: sf.dateadd("day", int(v), D(2024, 1, 1)), "date", None),
        ("DATEDIFF", "first", "d t", f"DATEDIFF(day, {{x}}, {q('2024-03-01')}::DATE)", lambda v: sf.datediff("day", v, D(2024, 3, 1)), "num", {"scale": 0}),
        ("DATEDIFF", "second", "d t", f"DATEDIFF(month, {q('2023-12-31')}::DATE, {{x}})", lambda v: sf.datediff("month", D(2023, 12, 31), v), "num", {"scale": 0}),
        # EQUAL_NULL: the inner call as either operand; the other operand is the documented inner value, a different value
        # of the same type, or NULL (the documented truth table: equal -> TRUE, different -> FALSE, one NULL -> FALSE)
        ("EQUAL_NULL", "first", "s n d t b", None, None, "bool", None),
        ("EQUAL_NULL", "second", "s n d t b", None, None, "bool", None),
    ]


def gen_nested(tier, out, stats):
    if _STYLE[0] != "single":
        return  # the constant syntax is an independent dimension, covered by every other generator
    for ifn, isql, ival, itags in nest_inners(tier):
        tags = set(itags.split())
        for ofn, arg, accept, tpl, oref, kind, meta in nest_outers():
            if not tags & set(accept.split()):
                continue
            if tpl is None:  # EQUAL_NULL(<inner>, <other>) / EQUAL_NULL(<other>, <inner>)
                for other in (ival, sf.different(ival), None):
                    sql = f"EQUAL_NULL({isql}, {lit(other)})" if arg == "first" else f"EQUAL_NULL({lit(other)}, {isql})"
                    case("NESTED", sql, lambda ival=ival, other=other: sf.equal_null(ival, other), "bool",
                         f"ctx=nested_in={ofn},arg={arg},inner={ifn}", out=out, stats=stats)
                continue
            sql = tpl.format(x=isql)
            k = kind or ("ts" if isinstance(ival, TS) else "date")
            form = f"NESTED:{ofn}.{arg}({ifn})"
            case("NESTED", sql, lambda oref=oref, ival=ival: oref(ival), k, f"ctx=nested_in={ofn},arg={arg},inner={ifn}", meta=meta,
                 rej_ok=form in REJ_OK_TODAY or f"NESTED:{ofn}.{arg}(*)" in REJ_OK_TODAY, out=out, stats=stats)


# ---- precision boundaries of the numeric conversions ---------------------------------------------------------------------
# Precisions where representations change (1, 2, 4, 9/10: 32-bit, 18/19/20: 64-bit, 37/38: 128-bit) x scales 0, 1, p-1;
# per (p, s), with m = p - s integer digits: ±(10**m - 1) and (s > 0) ±(10**p - 1)/10**s — the largest that fit —,
# ±10**m — the smallest that does not fit: error, NULL for TRY_ —, and the machine-word boundaries 2**7, 2**15, 2**31,
# 2**63, 2**64, each also minus one and plus one, with both signs, as far as they fit the precision.
# Sources: a string constant and a numeric literal; functions: TO_DECIMAL / TO_NUMBER / TO_NUMERIC, TRY_ forms, ::NUMBER(p,s).
# The cases near 2**63 / 2**64 and the largest fitting values are also fetched through every fetch path (work_fetch_paths).
PB_PRECISIONS = {Q: [18, 19, 20, 38], T: [1, 2, 4, 9, 10, 37]}
PB_POWERS = {Q: [63, 64], T: [7, 15, 31]}
PB_FUNCS = {Q: ["TO_DECIMAL", "TRY_TO_NUMBER"], T: ["TO_NUMBER", "TO_NUMERIC", "TRY_TO_DECIMAL", "TRY_TO_NUMERIC"]}


def pb_values(tier, p, s):
    """[(label, Decimal)] for NUMBER(p, s)"""
    m = p - s
    vals = [("largest_integer_that_fits", Decimal(10**m - 1)), ("smallest_that_does_not_fit", Decimal(10**m))]
    if s > 0:
        vals.append(("largest_that_fits", Decimal("9" * m + "." + "9" * s)))  # written out: no context rounding
    for k in _t(tier, PB_POWERS[Q], PB_POWERS[T]):
        for off, name in ((-1, f"2^{k}-1"), (0, f"2^{k}"), (1, f"2^{k}+1")):
            v = 2**k + off
            if v < 10**m:
                vals.append((name, Decimal(v)))
    out = []
    for label, v in vals:
        out.append((label, v))
        out.append(("minus_" + label, -v))
    return out


def gen_precision_boundaries(tier, out, stats):
    if _STYLE[0] != "single":
        return  # constant syntax is an independent dimension
    for p in _t(tier, PB_PRECISIONS[Q], PB_PRECISIONS[T]):
        for s in sorted({0, 1, p - 1} & set(range(0, p))):
            meta = {"precision": p, "scale": s}
            sl = "0" if s == 0 else "1" if s == 1 else "p-1"
            for label, v in pb_values(tier, p, s):
                text = format(v, "f")
                watch = label.removeprefix("minus_").startswith(("2^63", "2^64", "largest"))
                # class: kind of boundary (sign and the ±1 neighbours folded) and whether the value fits a signed 64-bit word
                base = label.removeprefix("minus_")
                vk = "near_" + base.split("-")[0].split("+")[0] if base.startswith("2^") else base
                label = f"{vk},int64={'within' if -(2**63) <= v.to_integral_value() <= 2**63 - 1 else 'beyond'}"
                for name in _t(tier, PB_FUNCS[Q], PB_FUNCS[T]):
                    ref = sf.try_to_decimal if name.startswith("TRY_") else sf.to_decimal
                    grp = "TRY_TO_DECIMAL" if name.startswith("TRY_") else "TO_DECIMAL"
                    c = case(name, f"{name}({q(text)}, {p}, {s})", lambda text=text, p=p, s=s, ref=ref: ref(text, p, s), "num",
                             f"fn={grp},boundary,p={p},s={sl},value={label},src=string", meta=meta, out=out, stats=stats)
                    if c is not None and watch and c["exp"][0] == "val":
                        c["fetch"] = True
                    if not name.startswith("TRY_"):
                        lit_sql = f"({text})" if text.startswith("-") else text
                        case(name, f"{name}({lit_sql}, {p}, {s})", lambda v=v, p=p, s=s: sf.to_decimal(v, p, s), "num",
                             f"fn={grp},boundary,p={p},s={sl},value={label},src=literal", meta=meta, out=out, stats=stats)
                for src, x in (("string", q(text)), ("literal", f"({text})" if text.startswith("-") else text)):
                    c = case("CAST_NUMBER", f"{x}::NUMBER({p},{s})", lambda v=v, p=p, s=s: sf.cast_number(v, p, s), "num",
                             f"fn=CAST,boundary,p={p},s={sl},value={label},src={src}", meta=meta, out=out, stats=stats)
                    if c is not None and watch and c["exp"][0] == "val":
                        c["fetch"] = True


GENERATORS = [
    gen_precision_boundaries, gen_regexp_substr, gen_regexp_replace, gen_split, gen_trim, gen_to_date, gen_to_timestamp, gen_to_decimal, gen_casts,
    gen_dateadd, gen_datediff, gen_sha2, gen_equal_null, gen_nested,
]
_CASES: dict = {}


def expr_cases(tier):
    """All expression cases of a tier (deterministic order), with statistics."""
    if tier not in _CASES:
        out, stats = [], {}
        for style in QUOTING:
            _STYLE[0] = style
            try:
                for g in GENERATORS:
                    g(tier, out, stats)
            finally:
                _STYLE[0] = "single"
        seen = set()
        uniq = []
        for c in out:  # the same SQL text is produced twice when a case has no string constant (or by overlapping alphabets): keep one
            if c["sql"] not in seen:
                seen.add(c["sql"])
                qf = c.pop("quoting")
                if "quoting=dollar" not in c["cls"]:
                    c["cls"] += qf
                uniq.append(c)
        _CASES[tier] = (uniq, stats)
    return _CASES[tier]


# ====================================================================================================================
# expression batches (select-list context)


def work_exprs(item, acc: core.Acc, tier):
    """item = (lo, hi): evaluate cases[lo:hi] in one SELECT list (fallback: one statement each)."""
    lo, hi = item
    cases, _ = expr_cases(tier)
    chunk = cases[lo:hi]
    cur = _cur()
    obs, stmts = eval_exprs(cur, [c["sql"] for c in chunk])
    acc.count("statements", stmts)
    nbad = 0
    for c, o in zip(chunk, obs):
        acc.count("evaluations")
        acc.count("expr_cases")
        acc.obs((c["sql"], obs_repr(o)))
        acc.outcome((c["fn"], o[0], type(o[1]).__name__ if o[0] == "ok" else o[2]))
        if c["exp"][0] == "err" or c["exp"][1] is not None:
            acc.nontrivial(c["sql"])
        if report(acc, c, o, tier):
            nbad += 1
    if lo == 0:
        for c, o in list(zip(chunk, obs))[:3]:
            acc.sample({"sql": c["sql"], "expected": _exp_repr(c["exp"]), "observed": obs_repr(o), "class": c["cls"]})
    return nbad


# ====================================================================================================================
# contexts: the same expression in WHERE, nested in another rewritten function, CTE, view, INSERT … SELECT, UPDATE SET

CONTEXTS = ("where", "nested", "cte", "view", "insert_select", "update_set")


def _coltype(exp):
    _, v, kind, meta = exp
    if kind == "num":
        sc = meta.get("scale", -v.as_tuple().exponent if isinstance(v, Decimal) else 0) if v is not None else meta.get("scale", 0)
        return f"NUMBER(38,{sc})"
    return {"str": "VARCHAR", "float": "FLOAT", "date": "DATE", "ts": "TIMESTAMP_NTZ", "bool": "BOOLEAN"}.get(kind)


def _nested(exp, e):
    """(sql, expected exp) of the expression wrapped in another function fakesnow rewrites."""
    _, v, kind, _meta = exp
    if kind == "str":
        return f"SHA2({e})", ("val", sf.sha2_hex(v), "str", {})
    if kind == "num":
        r = None if v is None else sf.to_decimal(Decimal(v), 38, 6)
        return f"TO_DECIMAL({e}, 38, 6)", ("val", r, "num", {"scale": 6, "precision": 38})
    if kind == "date":
        return f"DATEDIFF(day, '1970-01-01'::DATE, {e})", ("val", sf.datediff("day", D(1970, 1, 1), v), "num", {"scale": 0})
    if kind == "ts":
        return f"DATEDIFF(microsecond, '1970-01-01'::TIMESTAMP_NTZ, {e})", ("val", sf.datediff("microsecond", TS(1970, 1, 1), v), "num", {"scale": 0})
    if kind == "bool":
        return f"EQUAL_NULL({e}, TRUE)", ("val", sf.equal_null(v, True), "bool", {})
    return None, None


def run_context(cur, ctxname, c):
    """Returns (observation, expectation) for case c in context ctxname, or None if the context does not apply.
    observation: ('ok', value, None) | ('rej', stage, exc)."""
    exp = c["exp"]
    _, v, kind, meta = exp
    e = c["sql"]
    one = lambda r: r if r[0] == "rej" else (("ok", r[1][0][0], None) if len(r[1]) == 1 and len(r[1][0]) == 1 else ("ok", ("<rows>", norm(r[1])), None))  # noqa: E731
    if ctxname == "where":
        if kind in ("bytes", "array", "date_or_ts"):
            return None
        pred = f"({e}) IS NULL" if v is None else f"({e}) = {lit(v)}"
        r = run_sql(cur, f"SELECT 'hit' FROM c10_one WHERE {pred}", want_desc=False)
        o = r if r[0] == "rej" else ("ok", "hit" if r[1] == [("hit",)] else ("miss", norm(r[1])), None)
        return o, ("val", "hit", "str", {})
    if ctxname == "nested":
        sql, nexp = _nested(exp, e)
        if sql is None:
            return None
        return one(run_sql(cur, f"SELECT {sql} AS x", want_desc=False)), nexp
    if ctxname == "cte":
        return one(run_sql(cur, f"WITH c AS (SELECT {e} AS x) SELECT x FROM c", want_desc=False)), exp
    if ctxname == "view":
        r = run_sql(cur, f"CREATE OR REPLACE VIEW c10_v AS SELECT {e} AS x", want_desc=False)
        if r[0] == "ok":
            r = run_sql(cur, "SELECT x FROM c10_v", want_desc=False)
        return one(r), exp
    ct = _coltype(exp)
    if ct is None:
        return None
    if ctxname == "insert_select":
        run_sql(cur, f"CREATE OR REPLACE TABLE c10_i (x {ct})", want_desc=False)
        r = run_sql(cur, f"INSERT INTO c10_i SELECT {e}", want_desc=False)
        if r[0] == "ok":
            r = run_sql(cur, "SELECT x FROM c10_i", want_desc=False)
        return one(r), exp
    if ctxname == "update_set":
        run_sql(cur, f"CREATE OR REPLACE TABLE c10_u (k INT, x {ct})", want_desc=False)
        run_sql(cur, "INSERT INTO c10_u (k) VALUES (1)", want_desc=False)
        r = run_sql(cur, f"UPDATE c10_u SET x = {e} WHERE k = 1", want_desc=False)
        if r[0] == "ok":
            r = run_sql(cur, "SELECT x FROM c10_u", want_desc=False)
        return one(r), exp
    raise AssertionError(ctxname)


def context_verdict(c, base_obs, ctxname, o, exp):
    """True = violation.  The value in the context must be the documented one; if the select-list evaluation of the
    same expression already deviates (reported under its own clause), a context that deviates in the same way is
    not reported a second time."""
    base_bad = bool(verdicts(c, base_obs))
    if o[0] == "rej":
        ok = c["rej_ok"] or (ctxname, c["fn"]) in _CTX_REJ_OK
    else:
        ok = value_ok(exp, o[1])
        if ok and ctxname in ("cte", "view", "nested"):
            ok = type_ok(exp, o[1], None)
    if ok:
        return False
    if base_bad:
        if o[0] == "rej" and base_obs[0] == "rej":
            return False
        if ctxname in ("where", "nested"):
            return False  # the wrapped value is not visible: cannot tell "same deviation" from a new one
        if o[0] == "ok" and base_obs[0] == "ok" and norm(o[1]) == norm(base_obs[1]):
            return False
        if o[0] == "ok" and base_obs[0] == "ok" and ctxname in ("insert_select", "update_set"):
            # the column type coerces: compare as values of the expected kind
            try:
                if value_ok(("val", base_obs[1], exp[2], exp[3]), o[1]):
                    return False
            except Exception:  # noqa: BLE001  (the select-list value is not of the expected kind)
                pass
    return True


FETCH_PATHS = ("tuple.fetchone", "tuple.fetchmany", "dict.fetchone", "dict.fetchmany", "dict.fetchall")


def work_fetch_paths(item, acc: core.Acc, tier):
    """item = index of a case flagged fetch: the value must be the documented one through every way of fetching it
    (fetchall of a tuple cursor is what work_exprs uses)."""
    from snowflake.connector.cursor import DictCursor

    cases, _ = expr_cases(tier)
    c = cases[item]
    _cur()
    conn = _W["conn"]
    nbad = 0
    for path in FETCH_PATHS:
        kind, meth = path.split(".")
        cur = conn.cursor(DictCursor) if kind == "dict" else conn.cursor()
        try:
            cur.execute(f"SELECT {c['sql']} AS x0")
            r = cur.fetchone() if meth == "fetchone" else cur.fetchmany(1)[0] if meth == "fetchmany" else cur.fetchall()[0]
            g = r["X0"] if kind == "dict" else r[0]
            o = ("ok", g, None)
        except Exception as e:  # noqa: BLE001
            o = ("rej", "execute/fetch", _exc(e))
        acc.count("evaluations")
        acc.count("fetch_path_cases")
        acc.obs((c["sql"], path, obs_repr(o)))
        acc.outcome(("fetch", path, o[0]))
        acc.nontrivial((path, c["sql"]))
        bad = verdicts(c, o)
        cls = f"fetch={path}," + c["cls"].split(",value=")[0]
        acc.member("C10.fetch", cls, bool(bad))
        if bad:
            nbad += 1
            acc.violation("C10.fetch", cls, {"sql": c["sql"], "path": path, "expected": _exp_repr(c["exp"]), "observed": obs_repr(o), "violated": bad},
                          {"kind": "fetch", "fn": c["fn"], "sql": c["sql"], "path": path, "tier": tier})
    return nbad


def work_contexts(item, acc: core.Acc, tier):
    """item = index of a case flagged ctx: evaluate it in the select list, then in every context."""
    cases, _ = expr_cases(tier)
    c = cases[item]
    cur = _cur()
    (base,), stmts = eval_exprs(cur, [c["sql"]])
    acc.count("statements", stmts)
    acc.obs((c["sql"], obs_repr(base)))
    nbad = 0
    for cx in CONTEXTS:
        r = run_context(cur, cx, c)
        if r is None:
            continue
        o, exp = r
        acc.count("evaluations")
        acc.count("context_cases")
        acc.obs((c["sql"], cx, obs_repr(o)))
        acc.outcome(("ctx", cx, c["fn"], o[0]))
        acc.nontrivial((cx, c["sql"]))
        cls = f"ctx={cx},fn={c['fn']}"
        bad = context_verdict(c, base, cx, o, exp)
        acc.member("C10.context", cls, bad)
        if bad:
            nbad += 1
            acc.violation(
                "C10.context",
                cls,
                {"sql": c["sql"], "context": cx, "expected": _exp_repr(exp), "observed": obs_repr(o), "select_list": obs_repr(base)},
                {"kind": "ctx", "fn": c["fn"], "sql": c["sql"], "context": cx, "tier": tier},
            )
    for s in ("DROP VIEW IF EXISTS c10_v", "DROP TABLE IF EXISTS c10_i", "DROP TABLE IF EXISTS c10_u"):
        run_sql(cur, s, want_desc=False)
    return nbad


# ====================================================================================================================
# operator contexts: the call as an operand.  A function call is atomic: standing to the left or the right of = <> < <= > >=,
# of AND / OR, under NOT, before IS [NOT] NULL, as subject or member of IN, as subject or bound of BETWEEN, in CASE, as an
# argument of COALESCE / IFF / NULLIF, as an operand of + - * and unary minus, of ||, and as the operand of a cast (:: and
# CAST) it has to contribute its documented value.  The table of positions and their expectations (three-valued logic etc.)
# is mc.ref.sf_functions.operator_contexts; it is applied to every case flagged ctx (every function of the table, both
# constant syntaxes).  Only the value is judged (the result type of an operator is not part of the property).
# Not demanded: anything when the select-list evaluation of the call itself already deviates or is rejected (reported under
# its own clause; the operand's value cannot be told apart from the operator's).


def opctx_cases(c):
    """[(family, sql, expectation)] for a flagged case."""
    _, v, kind, _meta = c["exp"]
    if kind not in ("str", "num", "float", "bool", "date", "ts"):
        return []
    try:
        table = sf.operator_contexts(v, kind)
        w = lit(sf.different(v)) if v is not None else "NULL"
    except (sf.NotDemanded, OverflowError):
        return []
    out = []
    for family, tpl, val, k in table:
        out.append((family, tpl.format(F=c["sql"], V=lit(v), W=w), ("val", val, k, {})))
    return out


def work_opctx(item, acc: core.Acc, tier):
    """item = index of a case flagged ctx."""
    cases, _ = expr_cases(tier)
    c = cases[item]
    cur = _cur()
    (base,), stmts = eval_exprs(cur, [c["sql"]])
    acc.obs((c["sql"], obs_repr(base)))
    if base[0] == "rej" or verdicts(c, base):
        acc.count("statements", stmts)
        acc.count("operator_context_skipped_base_deviates")
        return 0
    ocs = opctx_cases(c)
    nbad = 0
    for lo in range(0, len(ocs), BATCH):
        chunk = ocs[lo:lo + BATCH]
        obs, n = eval_exprs(cur, [sql for _f, sql, _e in chunk])
        stmts += n
        for (family, sql, exp), o in zip(chunk, obs):
            acc.count("evaluations")
            acc.count("operator_context_cases")
            acc.obs((sql, obs_repr(o)))
            acc.outcome(("opctx", family, c["fn"], o[0]))
            acc.nontrivial(("opctx", sql))
            cls = f"ctx=operator,op={family},fn={c['fn']}"
            bad = (not c["rej_ok"]) if o[0] == "rej" else not value_ok(exp, o[1])
            acc.member("C10.context", cls, bad)
            if bad:
                nbad += 1
                acc.violation("C10.context", cls, {"sql": sql, "call": c["sql"], "expected": _exp_repr(exp), "observed": obs_repr(o), "select_list": obs_repr(base)},
                              {"kind": "opctx", "fn": c["fn"], "sql": c["sql"], "op_sql": sql, "tier": tier})
    acc.count("statements", stmts)
    return nbad


# ====================================================================================================================
# statement-level constructs: RANDOM(seed), SAMPLE … SEED, IDENTIFIER(), VALUES columnN, ARRAY_AGG, alias in JOIN … ON
#
# A statement case is a dict {fn, cls, check, ...}; `check` names the oracle:
#   rows      sql -> expected rows (ordered or multiset), optional expected column names, cells that are JSON arrays
#   script    setup statements, then like rows
#   random_*  / sample_*   see the functions below

INT64 = (-(2**63), 2**63 - 1)


def _cell(x):
    if isinstance(x, Decimal) and x == x.to_integral_value():
        return int(x)
    return x


def _rows_equal(got, want, ordered, json_cols=(), unordered_json=()):
    def canon(r):
        out = []
        for i, x in enumerate(r):
            if i in json_cols:
                try:
                    x = json.loads(x) if isinstance(x, str) else ("<not json>", repr(x))
                except ValueError:
                    x = ("<not json>", x)
                if i in unordered_json and isinstance(x, list):
                    x = sorted(x, key=repr)
                x = json.dumps(x, sort_keys=True)
            out.append(_cell(x))
        return tuple(out)

    g = [canon(r) for r in got]
    w = [tuple(json.dumps(sorted(x, key=repr) if i in unordered_json else x, sort_keys=True) if i in json_cols else x for i, x in enumerate(r)) for r in want]
    if not ordered:
        g, w = sorted(g, key=repr), sorted(w, key=repr)
    return len(g) == len(w) and all(len(a) == len(b) and all(type(x) is type(y) and x == y for x, y in zip(a, b)) for a, b in zip(g, w))


RANDOM_SEEDS = {Q: [1, 420, -1, 4294967296], T: [0, 2, 2147483647, 2147483648]}


def _seed_shape(s):
    return "negative" if s < 0 else "below_2^31" if s < 2**31 else "2^31_to_2^32" if s < 2**32 else "2^32_and_above"


SAMPLE_FORMS = {
    # (form id, sql template with {p} {s}, rej_ok)
    Q: [("SAMPLE_SEED", "SELECT id, v FROM c10_t SAMPLE ({p}) SEED ({s})", False),
        ("SAMPLE_BERNOULLI_SEED", "SELECT id, v FROM c10_t SAMPLE BERNOULLI ({p}) SEED ({s})", False),
        ("alias_WHERE", "SELECT x.id, x.v FROM c10_t AS x SAMPLE ({p}) SEED ({s}) WHERE x.id > 0", False)],
    T: [("TABLESAMPLE_SEED", "SELECT id, v FROM c10_t TABLESAMPLE ({p}) SEED ({s})", False),
        ("SAMPLE_REPEATABLE", "SELECT id, v FROM c10_t SAMPLE ({p}) REPEATABLE ({s})", False),
        ("SAMPLE_ROW_SEED", "SELECT id, v FROM c10_t SAMPLE ROW ({p}) SEED ({s})", rej("SAMPLE:ROW")),
        ("SAMPLE_SYSTEM_SEED", "SELECT id, v FROM c10_t SAMPLE SYSTEM ({p}) SEED ({s})", False),
        ("SAMPLE_BLOCK_SEED", "SELECT id, v FROM c10_t SAMPLE BLOCK ({p}) SEED ({s})", rej("SAMPLE:BLOCK"))],
}
SAMPLE_P = {Q: [0, 50, 100], T: [10, 99.5]}
SAMPLE_SEEDS = {Q: [1, 420], T: [2]}
SAMPLE_ROWS = {Q: [3, 25], T: [0, 1, 20]}

_LJ = [(lc, lc[3:], next((o for _, rc, o in R_ROWS if rc == lc[3:]), None)) for _, lc in L_ROWS]  # left join on SUBSTR(col,4) = rcol
_IJ = [r for r in _LJ if r[2] is not None]


def _agg(col, key=None, rev=False, rows=A_ROWS, distinct=False):
    idx = {"id": 0, "g": 1, "v": 2, "n": 3, "o": 4}
    rs = list(rows)
    if key is not None:
        # Snowflake default: NULLs last ascending, first descending
        ks = [idx[k] for k in key]
        rs.sort(key=lambda r: tuple((r[k] is None, r[k] if r[k] is not None else 0) for k in ks), reverse=rev)
    out = [r[idx[col]] for r in rs]
    if distinct:
        seen = []
        for x in out:
            if x not in seen:
                seen.append(x)
        out = seen
    return out


def stmt_cases(tier):
    cs = []
    add = cs.append
    # ---- RANDOM(seed) ------------------------------------------------------------------------------------------------
    seeds = _t(tier, RANDOM_SEEDS[Q], RANDOM_SEEDS[T])
    for s in seeds:
        sh = _seed_shape(s)
        add({"fn": "RANDOM", "check": "random", "cls": f"fn=RANDOM,form=single,seed={sh}", "sql": f"SELECT RANDOM({s})", "n": 1,
             "rej_ok": rej("RANDOM:seed_2^32_and_above", sh == "2^32_and_above")})
        if sh != "below_2^31":
            continue  # the other forms are taken with the ordinary seeds only
        add({"fn": "RANDOM", "check": "random", "cls": "fn=RANDOM,form=twice_in_one_select", "sql": f"SELECT RANDOM({s}), RANDOM({s})", "n": 1, "same_in_row": True})
        add({"fn": "RANDOM", "check": "random", "cls": "fn=RANDOM,form=per_row", "sql": f"SELECT RANDOM({s}) FROM c10_t WHERE id <= 3", "n": 3})
        add({"fn": "RANDOM", "check": "random", "cls": "fn=RANDOM,form=in_expression", "sql": f"SELECT RANDOM({s}) + 0", "n": 1})
        add({"fn": "RANDOM", "check": "random", "cls": "fn=RANDOM,form=in_cte_or_subquery", "sql": f"WITH c AS (SELECT RANDOM({s}) AS r) SELECT r FROM c", "n": 1})
        add({"fn": "RANDOM", "check": "random", "cls": "fn=RANDOM,form=in_cte_or_subquery", "sql": f"SELECT r FROM (SELECT RANDOM({s}) AS r)", "n": 1})
    small = [s for s in seeds if 0 <= s < 2**31]
    for a in small:
        for b in small:
            if a < b:
                add({"fn": "RANDOM", "check": "random_pair", "cls": "fn=RANDOM,form=two_seeds,seed=below_2^31", "sql": f"SELECT RANDOM({a})", "sql2": f"SELECT RANDOM({b})"})
    # ---- SAMPLE … SEED -----------------------------------------------------------------------------------------------
    for form, tpl, rjk in _t(tier, SAMPLE_FORMS[Q], SAMPLE_FORMS[T]):
        for pct in _t(tier, SAMPLE_P[Q], SAMPLE_P[T]):
            for s in _t(tier, SAMPLE_SEEDS[Q], SAMPLE_SEEDS[T]):
                add({"fn": "SAMPLE", "check": "sample", "cls": f"fn=SAMPLE,form={form},p={'0' if pct == 0 else '100' if pct == 100 else 'between'}",
                     "sql": tpl.format(p=pct, s=s), "p": pct, "rej_ok": rjk})
    for n in _t(tier, SAMPLE_ROWS[Q], SAMPLE_ROWS[T]):
        add({"fn": "SAMPLE", "check": "sample", "cls": "fn=SAMPLE,form=SAMPLE_n_ROWS", "sql": f"SELECT id, v FROM c10_t SAMPLE ({n} ROWS)", "rows": n, "rej_ok": False, "repeat": False})
    # ---- IDENTIFIER() ------------------------------------------------------------------------------------------------
    two = [(1,), (2,)]
    ident = [
        ("table_and_column", "SELECT IDENTIFIER('id') FROM IDENTIFIER('c10_t') WHERE id <= 2 ORDER BY 1", two, False),
        ("upper_case", "SELECT IDENTIFIER('ID') FROM IDENTIFIER('C10_T') WHERE id <= 2 ORDER BY 1", two, False),
        ("in_where", "SELECT id FROM IDENTIFIER('c10_t') WHERE IDENTIFIER('id') <= 2 ORDER BY IDENTIFIER('id')", two, False),
        ("schema_qualified", "SELECT id FROM IDENTIFIER('s1.c10_t') WHERE id <= 2 ORDER BY 1", two, False),
        ("fully_qualified", "SELECT id FROM IDENTIFIER('db1.s1.c10_t') WHERE id <= 2 ORDER BY 1", two, False),
        ("in_cte", "WITH c AS (SELECT IDENTIFIER('v') AS x FROM IDENTIFIER('c10_t') WHERE id = 1) SELECT x FROM c", [("r1",)], False),
        ("in_subquery_join", "SELECT a.id FROM IDENTIFIER('c10_t') a JOIN (SELECT IDENTIFIER('id') AS i FROM c10_t) b ON a.id = b.i WHERE a.id <= 2 ORDER BY 1", two, False),
    ]
    if tier == T:
        ident += [
            ("qualified_column", "SELECT IDENTIFIER('c10_t.id') FROM c10_t WHERE id <= 2 ORDER BY 1", two, False),
            ("table_alias", "SELECT x.id FROM IDENTIFIER('c10_t') AS x WHERE x.id <= 2 ORDER BY 1", two, False),
            # quoted names inside the string: fakesnow makes no attempt -> right rows or rejected
            ("quoted_name", "SELECT id FROM IDENTIFIER('\"C10_T\"') WHERE id <= 2 ORDER BY 1", two, rej("IDENTIFIER:quoted_name")),
            ("quoted_column", "SELECT IDENTIFIER('\"ID\"') FROM c10_t WHERE id <= 2 ORDER BY 1", two, rej("IDENTIFIER:quoted_name")),
        ]
    for form, sql, rows, rjk in ident:
        add({"fn": "IDENTIFIER", "check": "rows", "cls": f"fn=IDENTIFIER,form={form}", "sql": sql, "rows": rows, "ordered": True, "rej_ok": rjk})
    add({"fn": "IDENTIFIER", "check": "script", "cls": "fn=IDENTIFIER,form=dml",
         "setup": ["CREATE OR REPLACE TABLE c10_d (id INT, v VARCHAR)", "INSERT INTO c10_d VALUES (1,'a'),(2,'b'),(3,'c')",
                   "INSERT INTO IDENTIFIER('c10_d') VALUES (9,'n')", "UPDATE IDENTIFIER('c10_d') SET v = 'z' WHERE IDENTIFIER('id') = 1",
                   "DELETE FROM IDENTIFIER('c10_d') WHERE IDENTIFIER('id') = 2"],
         "sql": "SELECT id, v FROM c10_d ORDER BY id", "rows": [(1, "z"), (3, "c"), (9, "n")], "ordered": True, "rej_ok": False, "cleanup": ["DROP TABLE IF EXISTS c10_d"]})
    add({"fn": "IDENTIFIER", "check": "script", "cls": "fn=IDENTIFIER,form=session_variable",
         "setup": ["SET c10_tn = 'c10_t'"], "sql": "SELECT id FROM IDENTIFIER($c10_tn) WHERE id <= 2 ORDER BY 1", "rows": two, "ordered": True, "rej_ok": False,
         "cleanup": ["UNSET c10_tn"]})
    # ---- VALUES columnN ----------------------------------------------------------------------------------------------
    ab = [(1, "a"), (2, "b")]
    vals = [
        ("bare", "SELECT column1, column2 FROM VALUES (1,'a'),(2,'b')", ab, ["COLUMN1", "COLUMN2"], False),
        ("star", "SELECT * FROM VALUES (1,'a'),(2,'b')", ab, ["COLUMN1", "COLUMN2"], False),
        ("parenthesised_star", "SELECT * FROM (VALUES (1,'a'),(2,'b'))", ab, ["COLUMN1", "COLUMN2"], False),
        ("where_order", "SELECT column2 FROM (VALUES (1,'a'),(2,'b'),(3,'c')) WHERE column1 > 1 ORDER BY column1 DESC", [("c",), ("b",)], ["COLUMN2"], False),
        ("in_cte", "WITH c AS (SELECT * FROM VALUES (1,'a'),(2,'b')) SELECT column2, column1 FROM c", [("a", 1), ("b", 2)], ["COLUMN2", "COLUMN1"], False),
        ("in_subquery", "SELECT column1 FROM (SELECT * FROM VALUES (5),(6))", [(5,), (6,)], ["COLUMN1"], False),
        ("three_columns_null", "SELECT column3, column1 FROM VALUES (1, 2, NULL), (4, 5, 'x')", [(None, 1), ("x", 4)], ["COLUMN3", "COLUMN1"], False),
        ("table_alias_star", "SELECT * FROM (VALUES (1,'a'),(2,'b')) AS v", ab, ["COLUMN1", "COLUMN2"], False),
        ("table_alias_column_list", "SELECT * FROM (VALUES (1,'a'),(2,'b')) AS v (x, y)", ab, ["X", "Y"], False),
        # column1 through a table alias (answered since values_columns keeps the alias name)
        ("table_alias_columnN", "SELECT column2 FROM (VALUES (1,'a'),(2,'b')) AS v", [("a",), ("b",)], ["COLUMN2"], False),
        ("table_alias_qualified_columnN", "SELECT v.column1 FROM (VALUES (1,'a'),(2,'b')) AS v", [(1,), (2,)], ["COLUMN1"], False),
    ]
    if tier == T:
        vals += [
            ("single_row", "SELECT column1 FROM VALUES (7)", [(7,)], ["COLUMN1"], False),
            ("aggregate", "SELECT SUM(column1) FROM VALUES (1),(2),(3)", [(6,)], None, False),
            ("join_two_values", "SELECT a.column1, b.column1 FROM (VALUES (1),(2)) a JOIN (VALUES (2),(3)) b ON a.column1 = b.column1", [(2, 2)], ["COLUMN1", "COLUMN1"], False),
            ("union", "SELECT column1 FROM VALUES (1) UNION ALL SELECT column1 FROM VALUES (2)", [(1,), (2,)], ["COLUMN1"], False),
        ]
    for form, sql, rows, names, rjk in vals:
        add({"fn": "VALUES", "check": "rows", "cls": f"fn=VALUES,form={form}", "sql": sql, "rows": rows, "ordered": "ORDER BY" in sql, "names": names, "rej_ok": rjk})
    add({"fn": "VALUES", "check": "script", "cls": "fn=VALUES,form=insert_select",
         "setup": ["CREATE OR REPLACE TABLE c10_d (id INT, v VARCHAR)", "INSERT INTO c10_d SELECT column1, column2 FROM VALUES (1,'a'),(2,'b') WHERE column1 > 1"],
         "sql": "SELECT id, v FROM c10_d", "rows": [(2, "b")], "ordered": False, "rej_ok": False, "cleanup": ["DROP TABLE IF EXISTS c10_d"]})
    # ---- ARRAY_AGG [DISTINCT] [WITHIN GROUP (ORDER BY …)] ------------------------------------------------------------
    aa = [
        ("plain", "SELECT ARRAY_AGG(v) FROM c10_a", [(_agg("v"),)], False, (0,), (0,)),
        ("within_group_asc", "SELECT ARRAY_AGG(v) WITHIN GROUP (ORDER BY id) FROM c10_a", [(_agg("v", ["id"]),)], True, (0,), ()),
        ("within_group_desc", "SELECT ARRAY_AGG(id) WITHIN GROUP (ORDER BY id DESC) FROM c10_a", [(_agg("id", ["id"], True),)], True, (0,), ()),
        ("within_group_nulls_asc", "SELECT ARRAY_AGG(id) WITHIN GROUP (ORDER BY o) FROM c10_a", [(_agg("id", ["o"]),)], True, (0,), ()),
        ("within_group_nulls_desc", "SELECT ARRAY_AGG(id) WITHIN GROUP (ORDER BY o DESC) FROM c10_a", [(_agg("id", ["o"], True),)], True, (0,), ()),
        ("distinct", "SELECT ARRAY_AGG(DISTINCT v) FROM c10_a", [(sorted(set(_agg("v"))),)], False, (0,), (0,)),
        ("distinct_within_group", "SELECT ARRAY_AGG(DISTINCT n) WITHIN GROUP (ORDER BY n) FROM c10_a", [(sorted(set(_agg("n"))),)], True, (0,), ()),
        ("group_by", "SELECT g, ARRAY_AGG(v) WITHIN GROUP (ORDER BY id DESC) FROM c10_a GROUP BY g ORDER BY g",
         [("x", ["a", "a", "b"]), ("y", ["d", "c"])], True, (1,), ()),
        ("two_in_one_select", "SELECT ARRAY_AGG(v) WITHIN GROUP (ORDER BY id), ARRAY_AGG(n) WITHIN GROUP (ORDER BY id DESC) FROM c10_a",
         [(_agg("v", ["id"]), _agg("n", ["id"], True))], True, (0, 1), ()),
    ]
    if tier == T:
        aa += [
            ("two_keys", "SELECT ARRAY_AGG(id) WITHIN GROUP (ORDER BY n DESC, id ASC) FROM c10_a", [([3, 1, 4, 2, 5],)], True, (0,), ()),
            ("expression", "SELECT ARRAY_AGG(id + 1) WITHIN GROUP (ORDER BY id) FROM c10_a", [([2, 3, 4, 5, 6],)], True, (0,), ()),
            ("window", "SELECT id, ARRAY_AGG(v) OVER (PARTITION BY g) FROM c10_a ORDER BY id",
             [(1, ["a", "a", "b"]), (2, ["a", "a", "b"]), (3, ["c", "d"]), (4, ["c", "d"]), (5, ["a", "a", "b"])], True, (1,), (1,)),
            ("in_cte", "WITH c AS (SELECT ARRAY_AGG(id) WITHIN GROUP (ORDER BY id DESC) AS a FROM c10_a) SELECT a FROM c", [([5, 4, 3, 2, 1],)], True, (0,), ()),
            ("filtered", "SELECT ARRAY_AGG(v) WITHIN GROUP (ORDER BY v) FROM c10_a WHERE g = 'y'", [(["c", "d"],)], True, (0,), ()),
        ]
    for form, sql, rows, ordered, jc, uj in aa:
        add({"fn": "ARRAY_AGG", "check": "rows", "cls": f"fn=ARRAY_AGG,form={form}", "sql": sql, "rows": rows, "ordered": True, "json_cols": jc, "unordered_json": uj, "rej_ok": False})
    # ---- alias reuse in JOIN … ON (the transform handles `alias = expr` only; the two other forms: right rows or rejected)
    aj = [
        ("left_join_alias_eq", "SELECT l.col, SUBSTR(l.col, 4) AS al, r.other FROM c10_l l LEFT JOIN c10_r r ON al = r.rcol ORDER BY 1", _LJ),
        ("inner_join_alias_eq", "SELECT l.col, SUBSTR(l.col, 4) AS al, r.other FROM c10_l l JOIN c10_r r ON al = r.rcol ORDER BY 1", _IJ),
        ("alias_on_the_right", "SELECT l.col, SUBSTR(l.col, 4) AS al, r.other FROM c10_l l JOIN c10_r r ON r.rcol = al ORDER BY 1", _IJ),
        ("alias_in_and", "SELECT l.col, SUBSTR(l.col, 4) AS al, r.other FROM c10_l l JOIN c10_r r ON al = r.rcol AND l.id > 0 ORDER BY 1", _IJ),
        ("alias_of_column", "SELECT l.id AS k, r.other FROM c10_l l JOIN c10_r r ON k = r.rid ORDER BY 1", [(1, "J1"), (2, "J9")]),
        ("alias_also_in_where", "SELECT l.col, SUBSTR(l.col, 4) AS al, r.other FROM c10_l l JOIN c10_r r ON al = r.rcol WHERE al <> 'zzz' ORDER BY 1", _IJ),
    ]
    for form, sql, rows in aj:
        add({"fn": "ALIAS_IN_JOIN", "check": "rows", "cls": f"fn=ALIAS_IN_JOIN,form={form}", "sql": sql, "rows": rows, "ordered": True,
             "rej_ok": f"ALIAS_IN_JOIN:{form}" in REJ_OK_TODAY})
    # ---- every statement-level construct again inside INSERT … SELECT, CREATE TABLE AS, a view, a top-level set operation
    # and UPDATE … SET = (subquery).  Oracles: rows mode = the stored / returned rows are the documented ones; random mode =
    # 64-bit integers and the same values when the same statements run again; sample mode = subset of the table and the
    # same sample when the same statements run again.  Not demanded: RANDOM(seed) through a view (the seed is in the view
    # body, not in the statement that is executed twice): only the type.
    for b in _ctx_bases(tier):
        for cx in STMT_CONTEXTS:
            w = _ctx_wrap(cx, b)
            if w is not None:
                form = f"{b['fn']}:{b['form']}:{cx}"
                add(dict(w, fn=b["fn"], check="stmt_ctx", mode=b["mode"], cls=f"fn={b['fn']},form={b['form']},ctx={cx}",
                         rej_ok=form in REJ_OK_TODAY, n=b.get("n"), ctx=cx))
    # ---- the table-like constructs (VALUES, IDENTIFIER('table'), SAMPLE) in every table position of a join ----------
    cs.extend(joined_cases(tier))
    return cs


# Table positions.  A table-like construct is not only met as the single table under FROM: it is the first or the second
# table of JOIN / LEFT JOIN / CROSS JOIN / a comma join, next to a real table or (VALUES) next to another VALUES table, and
# the joining SELECT stands alone, in a CTE, in a subquery in FROM, in a view, in CREATE TABLE AS and in INSERT … SELECT.
# Judged: the rows (reference join below), the column names (description and the keys of a DictCursor; SELECT * and
# aliased references), and that references to the construct's columns (v.column1, r.rid) resolve in the select list and in
# the join condition.  Not demanded: the order of rows; DictCursor keys when SELECT * yields a name twice; names of an
# INSERT target.
JOIN_PARTNERS = {
    "table": {"sql": "c10_l l", "key": "l.id", "val": "l.col", "cols": ["ID", "COL"], "types": ["INT", "VARCHAR"]},
    "values": {"sql": "(VALUES (1, 'VARCHAR1'), (2, 'VARCHAR2'), (3, 'XCHAR1')) l", "key": "l.column1", "val": "l.column2", "cols": ["COLUMN1", "COLUMN2"],
               "types": ["INT", "VARCHAR"]},
}
V_ROWS = [(1, "NL"), (3, "NO"), (7, "XX")]
_V_SQL = "VALUES (1, 'NL'), (3, 'NO'), (7, 'XX')"


def join_sources(tier):
    """(fn, form, partner, table expression, key reference, value reference, column names, column types, rows, key index, value index)"""
    vc, vt = ["COLUMN1", "COLUMN2"], ["INT", "VARCHAR"]
    rc, rt = ["RID", "RCOL", "OTHER"], ["INT", "VARCHAR", "VARCHAR"]
    src = [
        ("VALUES", "aliased", "table", f"({_V_SQL}) v", "v.column1", "v.column2", vc, vt, V_ROWS, 0, 1),
        ("VALUES", "aliased", "values", f"({_V_SQL}) v", "v.column1", "v.column2", vc, vt, V_ROWS, 0, 1),
        ("VALUES", "unaliased", "table", f"({_V_SQL})", "column1", "column2", vc, vt, V_ROWS, 0, 1),
        ("IDENTIFIER", "table_name", "table", "IDENTIFIER('c10_r') r", "r.rid", "r.other", rc, rt, R_ROWS, 0, 2),
        ("SAMPLE", "SAMPLE_SEED,p=100", "table", "c10_r r SAMPLE (100) SEED (1)", "r.rid", "r.other", rc, rt, R_ROWS, 0, 2),
    ]
    if tier == T:
        src += [
            ("VALUES", "aliased_AS", "table", f"({_V_SQL}) AS v", "v.column1", "v.column2", vc, vt, V_ROWS, 0, 1),
            ("VALUES", "aliased_unqualified_reference", "table", f"({_V_SQL}) v", "column1", "column2", vc, vt, V_ROWS, 0, 1),
            ("IDENTIFIER", "qualified_table_name", "table", "IDENTIFIER('db1.s1.c10_r') r", "r.rid", "r.other", rc, rt, R_ROWS, 0, 2),
            ("SAMPLE", "SAMPLE_BERNOULLI_SEED,p=100", "table", "c10_r r SAMPLE BERNOULLI (100) SEED (420)", "r.rid", "r.other", rc, rt, R_ROWS, 0, 2),
            ("SAMPLE", "SAMPLE_SEED,p=0", "table", "c10_r r SAMPLE (0) SEED (1)", "r.rid", "r.other", rc, rt, [], 0, 2),
        ]
    return src


# (position, construct is the first table, FROM clause template, where the condition goes, LEFT JOIN keeps unmatched rows of the first table)
JOIN_POSITIONS = {
    Q: [("first_of_join", True, "{a} JOIN {b} ON {cond}", False), ("second_of_join", False, "{a} JOIN {b} ON {cond}", False),
        ("second_of_left_join", False, "{a} LEFT JOIN {b} ON {cond}", True),
        ("first_of_cross_join", True, "{a} CROSS JOIN {b} WHERE {cond}", False), ("second_of_cross_join", False, "{a} CROSS JOIN {b} WHERE {cond}", False),
        ("first_of_comma_join", True, "{a}, {b} WHERE {cond}", False), ("second_of_comma_join", False, "{a}, {b} WHERE {cond}", False)],
    T: [("first_of_left_join", True, "{a} LEFT JOIN {b} ON {cond}", True), ("first_of_inner_join", True, "{a} INNER JOIN {b} ON {cond}", False),
        ("second_of_inner_join", False, "{a} INNER JOIN {b} ON {cond}", False)],
}
JOIN_SELECTS = ("refs", "star", "star_no_reference")
JOIN_WRAPS = ("select", "cte", "subquery", "view", "ctas", "insert_select")


def joined_cases(tier):
    cs = []
    drop = ["DROP VIEW IF EXISTS c10_xv", "DROP TABLE IF EXISTS c10_x"]
    for fn, form, pname, ssql, skey, sval, scols, stypes, srows, ki, vi in join_sources(tier):
        pt = JOIN_PARTNERS[pname]
        for pos, first, tpl, left in _t(tier, JOIN_POSITIONS[Q], JOIN_POSITIONS[T]):
            for selv in JOIN_SELECTS:
                cond = f"{pt['key']} = 1" if selv == "star_no_reference" else f"{pt['key']} = {skey}"
                a, b = (ssql, pt["sql"]) if first else (pt["sql"], ssql)
                frm = tpl.format(a=a, b=b, cond=cond)
                # reference join
                match = (lambda l, r: l[0] == 1) if selv == "star_no_reference" else (lambda l, r: l[0] == r[ki])  # noqa: E731,E741
                pairs = [(l, r) for l in L_ROWS for r in srows if match(l, r)]  # noqa: E741
                if left:
                    if first:
                        pairs += [(None, r) for r in srows if not any(match(l, r) for l in L_ROWS)]  # noqa: E741
                    else:
                        pairs += [(l, None) for l in L_ROWS if not any(match(l, r) for r in srows)]  # noqa: E741
                nl, nr = (None,) * len(pt["cols"]), (None,) * len(scols)
                if selv == "refs":
                    sel = f"SELECT {pt['val']} AS c, {sval} AS w FROM {frm}"
                    rows = [((l or nl)[1], (r or nr)[vi]) for l, r in pairs]  # noqa: E741
                    names, types = ["C", "W"], ["VARCHAR", "VARCHAR"]
                else:
                    sel = f"SELECT * FROM {frm}"
                    rows = [tuple(r or nr) + tuple(l or nl) if first else tuple(l or nl) + tuple(r or nr) for l, r in pairs]  # noqa: E741
                    names = scols + pt["cols"] if first else pt["cols"] + scols
                    types = stypes + pt["types"] if first else pt["types"] + stypes
                unique = len(set(names)) == len(names)
                for wrap in JOIN_WRAPS:
                    if wrap != "select" and not unique:
                        continue  # a derived table / view / table cannot hold the same column name twice
                    pre, read, wnames, cleanup = [], sel, names, []
                    if wrap == "cte":
                        read = f"WITH j AS ({sel}) SELECT * FROM j"
                    elif wrap == "subquery":
                        read = f"SELECT * FROM ({sel}) j"
                    elif wrap == "view":
                        pre, read, cleanup = [f"CREATE OR REPLACE VIEW c10_xv AS {sel}"], "SELECT * FROM c10_xv", drop
                    elif wrap == "ctas":
                        pre, read, cleanup = [f"CREATE OR REPLACE TABLE c10_x AS {sel}"], "SELECT * FROM c10_x", drop
                    elif wrap == "insert_select":
                        cols = ", ".join(f"k{i} {t}" for i, t in enumerate(types))
                        pre, read, wnames, cleanup = [f"CREATE OR REPLACE TABLE c10_x ({cols})", f"INSERT INTO c10_x {sel}"], "SELECT * FROM c10_x", None, drop
                    sql = pre[-1] if pre else read
                    # the executed statement is a SELECT whose first real table follows CROSS JOIN / INNER JOIN: rejected today
                    rjk = rej("VALUES:first_table_then_CROSS_or_INNER_JOIN_of_a_real_table",
                              fn == "VALUES" and pname == "table" and pos in ("first_of_cross_join", "first_of_inner_join") and wrap in ("select", "cte", "subquery"))
                    cs.append({"fn": fn, "check": "joined", "cls": f"fn={fn},form=joined:{form},partner={pname},pos={pos}", "select": selv, "wrap": wrap,
                               "pre": pre, "sql": sql, "read": read, "rows": rows, "names": wnames, "unique_names": unique, "cleanup": cleanup, "rej_ok": rjk})
    return cs


STMT_CONTEXTS = ("insert_select", "ctas", "view", "union_all", "update_subquery")


def _ctx_bases(tier):
    """Base SELECTs (no ORDER BY / WITH, every column aliased) of the statement-level constructs.
    sel: the select; cols: column definitions of a table that can hold it; rows: expected rows (rows mode);
    const: a constant SELECT of the same shape and its row (second branch of the set operation);
    scalar: (1x1 select, column type, expected value or None) for UPDATE … SET x = (subquery)."""
    bs = []
    for s in _t(tier, [1, 420], [0, 2147483647]):
        bs.append({"fn": "RANDOM", "form": "seeded", "mode": "random", "sel": f"SELECT RANDOM({s}) AS v", "cols": "v NUMBER(38,0)", "n": 1,
                   "const": ("SELECT 0", (0,)), "scalar": (f"SELECT RANDOM({s})", "NUMBER(38,0)", None)})
    bs.append({"fn": "RANDOM", "form": "seeded_per_row", "mode": "random", "sel": "SELECT RANDOM(7) AS v FROM c10_t WHERE id <= 3", "cols": "v NUMBER(38,0)", "n": 3,
               "const": ("SELECT 0", (0,)), "scalar": None})
    for pct in _t(tier, [50], [100, 0]):
        bs.append({"fn": "SAMPLE", "form": f"SAMPLE_SEED,p={'between' if 0 < pct < 100 else pct}", "mode": "sample", "p": pct,
                   "sel": f"SELECT id, v FROM c10_t SAMPLE ({pct}) SEED (1)", "cols": "id INT, v VARCHAR", "const": ("SELECT 0, 'z'", (0, "z")), "scalar": None})
    bs.append({"fn": "IDENTIFIER", "form": "table_and_column", "mode": "rows", "sel": "SELECT IDENTIFIER('id') AS i, IDENTIFIER('v') AS w FROM IDENTIFIER('c10_t') WHERE IDENTIFIER('id') <= 2",
               "cols": "i INT, w VARCHAR", "rows": [(1, "r1"), (2, "r2")], "const": ("SELECT 0, 'z'", (0, "z")),
               "scalar": ("SELECT IDENTIFIER('v') FROM IDENTIFIER('c10_t') WHERE id = 3", "VARCHAR", "r3")})
    bs.append({"fn": "VALUES", "form": "columnN", "mode": "rows", "sel": "SELECT column2 AS b, column1 AS a FROM VALUES (1,'a'),(2,'b') WHERE column1 > 0",
               "cols": "b VARCHAR, a INT", "rows": [("a", 1), ("b", 2)], "const": ("SELECT 'z', 0", ("z", 0)),
               "scalar": ("SELECT column2 FROM VALUES (1,'q') WHERE column1 = 1", "VARCHAR", "q")})
    bs.append({"fn": "VALUES", "form": "star", "mode": "rows", "sel": "SELECT * FROM VALUES (1,'a'),(2,'b')", "cols": "column1 INT, column2 VARCHAR",
               "rows": [(1, "a"), (2, "b")], "const": ("SELECT 0, 'z'", (0, "z")), "scalar": None, "names": ["COLUMN1", "COLUMN2"]})
    bs.append({"fn": "ARRAY_AGG", "form": "within_group", "mode": "rows", "sel": "SELECT ARRAY_AGG(id) WITHIN GROUP (ORDER BY id DESC) AS a FROM c10_a",
               "cols": "a ARRAY", "rows": [([5, 4, 3, 2, 1],)], "json_cols": (0,), "const": None,
               "scalar": ("SELECT ARRAY_AGG(v) WITHIN GROUP (ORDER BY id) FROM c10_a WHERE g = 'y'", "ARRAY", ["c", "d"])})
    if tier == T:
        bs.append({"fn": "ARRAY_AGG", "form": "distinct_group_by", "mode": "rows", "sel": "SELECT g, ARRAY_AGG(DISTINCT n) WITHIN GROUP (ORDER BY n) AS a FROM c10_a GROUP BY g",
                   "cols": "g VARCHAR, a ARRAY", "rows": [("x", [1, 2]), ("y", [2, 3])], "json_cols": (1,), "const": None, "scalar": None})
    bs.append({"fn": "ALIAS_IN_JOIN", "form": "alias_eq", "mode": "rows", "sel": "SELECT l.col AS c, SUBSTR(l.col, 4) AS al, r.other AS o FROM c10_l l JOIN c10_r r ON al = r.rcol",
               "cols": "c VARCHAR, al VARCHAR, o VARCHAR", "rows": _IJ, "const": ("SELECT 'z', 'z', 'z'", ("z", "z", "z")), "scalar": None})
    return bs


def _ctx_wrap(cx, b):
    sel = b["sel"]
    drop = ["DROP VIEW IF EXISTS c10_xv", "DROP TABLE IF EXISTS c10_x"]
    if cx == "insert_select":
        return {"pre": [f"CREATE OR REPLACE TABLE c10_x ({b['cols']})"], "stmt": [f"INSERT INTO c10_x {sel}"], "sql": f"INSERT INTO c10_x {sel}",
                "read": "SELECT * FROM c10_x", "rows": b.get("rows"), "cleanup": drop, "json_cols": b.get("json_cols", ()), "p": b.get("p")}
    if cx == "ctas":
        return {"pre": [], "stmt": [f"CREATE OR REPLACE TABLE c10_x AS {sel}"], "sql": f"CREATE OR REPLACE TABLE c10_x AS {sel}", "read": "SELECT * FROM c10_x",
                "rows": b.get("rows"), "cleanup": drop, "json_cols": b.get("json_cols", ()), "names": b.get("names"), "p": b.get("p")}
    if cx == "view":
        return {"pre": [], "stmt": [f"CREATE OR REPLACE VIEW c10_xv AS {sel}"], "sql": f"CREATE OR REPLACE VIEW c10_xv AS {sel}", "read": "SELECT * FROM c10_xv",
                "rows": b.get("rows"), "cleanup": drop, "json_cols": b.get("json_cols", ()), "names": b.get("names"), "p": b.get("p"),
                "repeat": b["mode"] != "random"}
    if cx == "union_all":
        if b["const"] is None:
            return None
        csel, crow = b["const"]
        return {"pre": [], "stmt": [], "sql": f"{sel} UNION ALL {csel}", "read": f"{sel} UNION ALL {csel}", "rows": (b["rows"] + [crow]) if b.get("rows") is not None else None,
                "extra_row": crow, "cleanup": [], "json_cols": b.get("json_cols", ()), "p": b.get("p")}
    if cx == "update_subquery":
        if b["scalar"] is None:
            return None
        ssel, ctype, val = b["scalar"]
        return {"pre": [f"CREATE OR REPLACE TABLE c10_x (k INT, x {ctype})", "INSERT INTO c10_x (k) VALUES (1)"], "stmt": [f"UPDATE c10_x SET x = ({ssel}) WHERE k = 1"],
                "sql": f"UPDATE c10_x SET x = ({ssel}) WHERE k = 1", "read": "SELECT x FROM c10_x", "rows": [(val,)] if b["mode"] == "rows" else None, "cleanup": drop,
                "json_cols": (0,) if isinstance(val, list) else (), "n_override": 1}
    raise AssertionError(cx)


def _stmt_violation(acc, c, tier, idx, failed, detail):
    acc.member("C10.stmt", c["cls"], failed)
    if failed:
        acc.violation("C10.stmt", c["cls"], dict(detail, sql=c["sql"], **{k: c[k] for k in ("select", "wrap") if k in c}), {"kind": "stmt", "fn": c["fn"], "sql": c["sql"], "index": idx, "tier": tier})


def check_stmt(cur, c):
    """Returns (failed, detail, observation for the determinism fingerprint)."""
    k = c["check"]
    if k in ("rows", "script"):
        for s in c.get("setup", []):
            r = run_sql(cur, s, want_desc=False)
            if r[0] == "rej":
                for z in c.get("cleanup", []):
                    run_sql(cur, z, want_desc=False)
                return (not c["rej_ok"]), {"problem": "rejected", "statement": s, "exception": r[2]}, ("rej", s, r[2])
        r = run_sql(cur, c["sql"])
        for z in c.get("cleanup", []):
            run_sql(cur, z, want_desc=False)
        if r[0] == "rej":
            return (not c["rej_ok"]), {"problem": "rejected", "exception": r[2]}, ("rej", r[2])
        ob = ("ok", norm(r[1]), [d[0] for d in r[2]] if r[2] else None)
        if not _rows_equal(r[1], c["rows"], c["ordered"], c.get("json_cols", ()), c.get("unordered_json", ())):
            return True, {"problem": "rows", "expected": norm(c["rows"]), "observed": norm(r[1])}, ob
        if c.get("names") and r[2] is not None and [d[0] for d in r[2]] != c["names"]:
            return True, {"problem": "column names", "expected": c["names"], "observed": [d[0] for d in r[2]]}, ob
        return False, {}, ob
    if k == "joined":
        from snowflake.connector.cursor import DictCursor

        def fin(res):
            for z in c.get("cleanup", []):
                run_sql(cur, z, want_desc=False)
            return res

        for st in c["pre"]:
            r = run_sql(cur, st, want_desc=False)
            if r[0] == "rej":
                return fin(((not c["rej_ok"]), {"problem": "rejected", "statement": st, "exception": r[2]}, ("rej", st, r[2])))
        r = run_sql(cur, c["read"])
        if r[0] == "rej":
            return fin(((not c["rej_ok"]), {"problem": "rejected", "statement": c["read"], "exception": r[2]}, ("rej", c["read"], r[2])))
        got_names = [d[0] for d in r[2]] if r[2] else None
        dcur = _W["conn"].cursor(DictCursor)
        try:
            dcur.execute(c["read"])
            drows = dcur.fetchall()
            dobs = ("ok", sorted((tuple(d.keys()), norm(tuple(d.values()))) for d in drows))
        except Exception as e:  # noqa: BLE001
            drows, dobs = None, ("rej", _exc(e))
        ob = ("ok", sorted(norm(x) for x in r[1]), got_names, dobs)
        fin(None)
        if not _rows_equal(r[1], c["rows"], False):
            return True, {"problem": "rows", "expected": norm(c["rows"]), "observed": norm(r[1])}, ob
        if c["names"] is not None:
            if got_names is not None and got_names != c["names"]:
                return True, {"problem": "column names (description)", "expected": c["names"], "observed": got_names}, ob
            if c["unique_names"]:
                if drows is None:
                    return (not c["rej_ok"]), {"problem": "rejected through a DictCursor", "exception": dobs[1]}, ob
                for d in drows:
                    if list(d.keys()) != c["names"]:
                        return True, {"problem": "column names (DictCursor keys)", "expected": c["names"], "observed": list(d.keys())}, ob
                if not _rows_equal([tuple(d.values()) for d in drows], c["rows"], False):
                    return True, {"problem": "rows through a DictCursor", "expected": norm(c["rows"]), "observed": norm([tuple(d.values()) for d in drows])}, ob
        return False, {}, ob
    if k == "random":
        # Demanded: the same statement text with the same seed gives the same values when it is executed again (the
        # seeding contract the property anchors: transforms.random + setseed in cursor._execute, pinned by the repo's
        # test_random); unseeded draws are made in between so that the generator has moved on.
        # Not demanded: the values themselves, equality between different statement texts.
        r1 = run_sql(cur, c["sql"], want_desc=False)
        run_sql(cur, "SELECT RANDOM(), RANDOM()", want_desc=False)
        r2 = run_sql(cur, c["sql"], want_desc=False)
        if r1[0] == "rej" or r2[0] == "rej":
            rr = r1 if r1[0] == "rej" else r2
            return (not c.get("rej_ok", False)), {"problem": "rejected", "exception": rr[2]}, ("rej", rr[2])
        cells = [x for row in r1[1] for x in row]
        if len(r1[1]) != c["n"] or not all(type(x) is int and INT64[0] <= x <= INT64[1] for x in cells):
            return True, {"problem": "not n rows of 64-bit integers", "observed": norm(r1[1])}, ("ok", "shape")
        if c.get("same_in_row") and any(len(set(row)) != 1 for row in r1[1]):
            return True, {"problem": "two calls with one seed in one row differ"}, ("ok", "row_differs")
        if r1[1] != r2[1]:
            return True, {"problem": "same statement, same seed: different values on the second execution"}, ("ok", "not_repeatable")
        return False, {}, ("ok", "int64, repeatable")
    if k == "stmt_ctx":
        def once():
            for st in c["pre"] + c["stmt"]:
                r = run_sql(cur, st, want_desc=False)
                if r[0] == "rej":
                    return ("rej", st, r[2])
            return run_sql(cur, c["read"])

        r1 = once()
        if c["mode"] != "rows":
            run_sql(cur, "SELECT RANDOM(), RANDOM()", want_desc=False)
        r2 = once() if c["mode"] != "rows" else r1
        for z in c.get("cleanup", []):
            run_sql(cur, z, want_desc=False)
        if r1[0] == "rej" or r2[0] == "rej":
            rr = r1 if r1[0] == "rej" else r2
            return (not c["rej_ok"]), {"problem": "rejected", "statement": rr[1], "exception": rr[2]}, ("rej", rr[2])
        extra = [c["extra_row"]] if c.get("extra_row") is not None else []
        if c["mode"] == "rows":
            ob = ("ok", norm(r1[1]), [d[0] for d in r1[2]] if r1[2] else None)
            if not _rows_equal(r1[1], c["rows"], False, c.get("json_cols", ())):
                return True, {"problem": "rows", "expected": norm(c["rows"]), "observed": norm(r1[1])}, ob
            if c.get("names") and r1[2] is not None and [d[0] for d in r1[2]] != c["names"]:
                return True, {"problem": "column names", "expected": c["names"], "observed": [d[0] for d in r1[2]]}, ob
            return False, {}, ob
        rows1 = [tuple(_cell(x) for x in r) for r in r1[1]]
        rows2 = [tuple(_cell(x) for x in r) for r in r2[1]]
        for e in extra:
            for rows in (rows1, rows2):
                if e in rows:
                    rows.remove(e)
                else:
                    return True, {"problem": "the constant branch of the set operation is missing", "observed": norm(rows)}, ("ok", "shape")
        if c["mode"] == "random":
            n = c.get("n_override") or c["n"]
            if len(rows1) != n or not all(len(r) == 1 and type(r[0]) is int and INT64[0] <= r[0] <= INT64[1] for r in rows1):
                return True, {"problem": "not n rows of 64-bit integers", "observed": norm(rows1)}, ("ok", "shape")
            if c.get("repeat", True) and sorted(rows1) != sorted(rows2):
                return True, {"problem": "same statements, same seed: different values when run again"}, ("ok", "not_repeatable")
            return False, {}, ("ok", "int64" + (", repeatable" if c.get("repeat", True) else ""))
        # sample
        ob = ("ok", len(rows1))
        if len(set(rows1)) != len(rows1) or not set(rows1) <= set(T_ROWS):
            return True, {"problem": "not a subset of the table's rows", "observed": norm(rows1)}, ob
        if c.get("p") == 0 and rows1:
            return True, {"problem": "p=0 returned rows"}, ob
        if c.get("p") == 100 and len(rows1) != len(T_ROWS):
            return True, {"problem": "p=100 did not return every row", "observed": len(rows1)}, ob
        if sorted(rows1) != sorted(rows2):
            return True, {"problem": "same seed: different sample when the same statements run again"}, ob
        return False, {}, ob
    if k == "random_pair":
        r1 = run_sql(cur, c["sql"], want_desc=False)
        r2 = run_sql(cur, c["sql2"], want_desc=False)
        if r1[0] == "rej" or r2[0] == "rej":
            return True, {"problem": "rejected"}, ("rej",)
        if r1[1] == r2[1]:
            return True, {"problem": "different seeds, same value", "sql2": c["sql2"]}, ("ok", "equal")
        return False, {}, ("ok", "different")
    if k == "sample":
        r1 = run_sql(cur, c["sql"], want_desc=False)
        r2 = run_sql(cur, c["sql"], want_desc=False)
        if r1[0] == "rej" or r2[0] == "rej":
            return (not c["rej_ok"]), {"problem": "rejected", "exception": (r1 if r1[0] == "rej" else r2)[2]}, ("rej", (r1 if r1[0] == "rej" else r2)[2])
        rows = [tuple(_cell(x) for x in r) for r in r1[1]]
        ob = ("ok", len(rows) if c.get("repeat", True) else "n")
        if len(set(rows)) != len(rows) or not set(rows) <= set(T_ROWS):
            return True, {"problem": "not a subset of the table's rows", "observed": norm(rows)}, ob
        if "rows" in c:
            if len(rows) != min(c["rows"], len(T_ROWS)):
                return True, {"problem": f"expected exactly {min(c['rows'], len(T_ROWS))} rows", "observed": len(rows)}, ob
            return False, {}, ob
        if c["p"] == 0 and rows:
            return True, {"problem": "p=0 returned rows"}, ob
        if c["p"] == 100 and len(rows) != len(T_ROWS):
            return True, {"problem": "p=100 did not return every row", "observed": len(rows)}, ob
        if sorted(rows) != sorted(tuple(_cell(x) for x in r) for r in r2[1]):
            return True, {"problem": "same seed: different sample on the second execution"}, ob
        return False, {}, ob
    raise AssertionError(k)


def work_stmts(item, acc: core.Acc, tier):
    c = stmt_cases(tier)[item]
    cur = _cur()
    failed, detail, ob = check_stmt(cur, c)
    acc.count("evaluations")
    acc.count("stmt_cases")
    acc.obs((c["sql"], ob))
    acc.outcome(("stmt", c["fn"], ob[0], failed))
    acc.nontrivial(("stmt", c["sql"], c.get("sql2")))
    _stmt_violation(acc, c, tier, item, failed, detail)
    return failed


# ====================================================================================================================
# driver


def run(ctx: core.Ctx):
    tier = ctx.tier
    cases, stats = expr_cases(tier)
    ctx.rule = (
        "complete product of the written-out argument alphabets of every construct (module section ALPHABETS); each "
        "expression evaluated by the real fakesnow in a SELECT list (batches of 16, failing batches re-run one expression "
        "per statement) and compared with mc/ref/sf_functions.py; flagged expressions additionally in 6 statement contexts "
        "and in every operand position of sf.operator_contexts; "
        "statement-level constructs as scripted cases; non-trivial = expectation is a non-NULL value or a documented error"
    )
    ctx.assumptions = [
        "session TIMEZONE/TZ is UTC and TIMESTAMP_TYPE_MAPPING is TIMESTAMP_NTZ (Snowflake defaults used by the reference)",
        "regex patterns are taken from the subset where POSIX ERE and Python re agree (mc.ref.sf_functions.check_pattern)",
        "WEEK_START = 0 (Monday) for DATEDIFF(week)",
        "the connector's value for NUMBER(p,0) may be int or Decimal (type mapping is property C01)",
    ]
    items = [(lo, min(lo + BATCH, len(cases))) for lo in range(0, len(cases), BATCH)]
    ctx.pmap(work_exprs, items)
    ctx.pmap(work_contexts, [i for i, c in enumerate(cases) if c["ctx"]])
    ctx.pmap(work_opctx, [i for i, c in enumerate(cases) if c["ctx"]])
    ctx.pmap(work_fetch_paths, [i for i, c in enumerate(cases) if c["fetch"]])
    ctx.pmap(work_stmts, list(range(len(stmt_cases(tier)))))
    ctx.exhaustive = True
    ctx.extra["bound"] = f"full product of the {tier} alphabets"
    ctx.extra["expression_cases"] = len(cases)
    ctx.extra["context_cases_flagged"] = sum(1 for c in cases if c["ctx"])
    ctx.extra["fetch_path_cases_flagged"] = sum(1 for c in cases if c["fetch"])
    ctx.extra["statement_cases"] = len(stmt_cases(tier))
    ctx.extra["joined_table_position_cases"] = sum(1 for c in stmt_cases(tier) if c["check"] == "joined")
    ctx.extra["not_demanded_dropped"] = stats.get("not_demanded", 0)
    ctx.extra["cases_per_construct"] = {}
    for c in cases:
        ctx.extra["cases_per_construct"][c["fn"]] = ctx.extra["cases_per_construct"].get(c["fn"], 0) + 1
    for c in stmt_cases(tier):
        ctx.extra["cases_per_construct"][c["fn"]] = ctx.extra["cases_per_construct"].get(c["fn"], 0) + 1


def replay(payload):
    r = payload["replay"]
    tier = r.get("tier", "thorough")
    cur = _cur()
    if r["kind"] == "stmt":
        cs = stmt_cases(tier)
        c = cs[r["index"]]
        assert c["sql"] == r["sql"], "statement alphabet changed since the replay file was written"
        failed, detail, ob = check_stmt(cur, c)
        print("statement:", c["sql"])
        print("class:", c["cls"])
        print("observed:", ob, "detail:", detail)
        print("verdict:", "VIOLATION" if failed else "ok")
        return failed
    cases, _ = expr_cases(tier)
    c = next((x for x in cases if x["sql"] == r["sql"]), None)
    assert c is not None, "expression alphabet changed since the replay file was written"
    (base,), _n = eval_exprs(cur, [c["sql"]])
    print("expression:", c["sql"])
    print("class:", c["cls"], "rej_ok:", c["rej_ok"])
    print("expected:", _exp_repr(c["exp"]))
    print("observed (select list):", obs_repr(base))
    if r["kind"] == "fetch":
        acc = core.Acc()
        work_fetch_paths(cases.index(c), acc, tier)
        for (cl, k), v in sorted(acc.viol.items()):
            print("violation:", cl, k, v["detail"]["observed"])
        print("verdict:", "VIOLATION" if acc.viol else "ok")
        return bool(acc.viol)
    if r["kind"] == "opctx":
        bad = False
        for family, sql, exp in opctx_cases(c):
            if sql == r["op_sql"]:
                (o,), _n = eval_exprs(cur, [sql])
                bad = (not c["rej_ok"]) if o[0] == "rej" else not value_ok(exp, o[1])
                print(f"operator context {family}: {sql}\n  expected", _exp_repr(exp), "observed", obs_repr(o))
        print("verdict:", "VIOLATION" if bad else "ok")
        return bad
    if r["kind"] == "expr":
        bad = verdicts(c, base)
        print("verdict:", bad or "ok")
        return bool(bad)
    o, exp = run_context(cur, r["context"], c)
    print(f"context {r['context']}: expected", _exp_repr(exp), "observed", obs_repr(o))
    bad = context_verdict(c, base, r["context"], o, exp)
    print("verdict:", "VIOLATION" if bad else "ok")
    return bad
