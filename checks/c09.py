"""C09 — metadata views always describe exactly the current user objects.

E1: BFS over DDL histories (CREATE [OR REPLACE] TABLE/VIEW, CTAS, CLONE, ALTER TABLE add/drop/rename column, rename
table, set comment, COMMENT ON, DROP, re-CREATE, over two schemas and two databases, with no-op statements in
between). States are deduplicated on the raw-DuckDB catalog *including fakesnow's side tables* (so hidden stale
metadata makes a different state). For every distinct (ground truth, model) state the full reporting sweep is run:
information_schema.tables/columns/views/databases, DESCRIBE TABLE/VIEW, SHOW TABLES/OBJECTS/SCHEMAS (account, database,
schema scope, TERSE), SHOW PRIMARY KEYS and the description of SELECT *, all compared with a dict model updated from
the operations, and with each other.

The histories also move the session context (USE SCHEMA / USE DATABASE, in the same and into another database, and back):
unqualified names of the operations and of the reporters resolve against the model's current database / schema, and once
a history contains a USE the reporters that name no database (SHOW TABLES|OBJECTS IN DATABASE, IN SCHEMA <unqualified>,
SHOW SCHEMAS, SHOW PRIMARY KEYS, DESCRIBE <unqualified>) are asked on a cursor made just now, on the cursor that executed
the history, on a cursor idle since connect, on a cursor made right after the first USE (stepwise) and from a second
connection - all must describe the then-current database. Table comments are replaced through COMMENT ON and ALTER .. SET
COMMENT by every member of the comment alphabet: '' (falsy), a value equal to the old one, fresh values, one with a quote.
A statement that raises declares nothing: the model follows acceptance (expand() reports the statement once).

Not demanded: whether an empty comment reads back as '' or NULL; views while the current schema is not the one they were
created in, and USE while a view exists (fakesnow resolves a view's body at query time against the current schema - seen,
outside this property); created_on and owner columns; rows of information_schema.tables that belong to INFORMATION_SCHEMA itself
(except that none may be a fakesnow-internal `_fs_` object); numeric precision of FLOAT; whether CLONE copies the
comment; internal_size in description.
"""
from __future__ import annotations

import copy

from mc import core, observe
from mc.util import exc_info

PID = "C09"
LEVEL = "model_checking"

# column specs: name -> (sql type, sf data_type, precision, scale, length, nullable, describe type, type_code)
COLS = {
    "A": ("INT", "NUMBER", 38, 0, None, True, "NUMBER(38,0)", 0),
    "B": ("VARCHAR(10)", "TEXT", None, None, 10, True, "VARCHAR(10)", 2),
    "C": ("VARCHAR", "TEXT", None, None, 16777216, True, "VARCHAR(16777216)", 2),
    "D": ("NUMBER(10,2) NOT NULL", "NUMBER", 10, 2, None, False, "NUMBER(10,2)", 0),
    "E": ("FLOAT", "FLOAT", None, None, None, True, "FLOAT", 1),
    "F": ("TIMESTAMP_NTZ", "TIMESTAMP_NTZ", None, None, None, True, "TIMESTAMP_NTZ(9)", 8),
    "G": ("VARIANT", "VARIANT", None, None, None, True, "VARIANT", 5),
    "H": ("VARCHAR(3)", "TEXT", None, None, 3, True, "VARCHAR(3)", 2),
    "B20": ("VARCHAR(20)", "TEXT", None, None, 20, True, "VARCHAR(20)", 2),
}


def col(name, spec=None):
    s = COLS[spec or name]
    return {"name": name, "dt": s[1], "prec": s[2], "scale": s[3], "len": s[4], "null": s[5], "desc": s[6], "code": s[7], "origin": "declared"}


def ddl_cols(names):
    return ", ".join(f"{n if n != 'B20' else 'B'} {COLS[n][0]}" for n in names)


class Model:
    def __init__(self):
        # cat[db][schema][name] = {"kind": "TABLE"|"VIEW", "cols": [...], "comment": str|None}
        self.cat = {"DB1": {"S1": {}}}
        # the session's current database / schema (schema None after USE DATABASE: neither database of the alphabet has a
        # PUBLIC schema); unqualified names of the operations and of the reporters resolve against it
        self.ctx = ["DB1", "S1"]
        self.ctx_changed = False  # a USE statement was part of the history (cursors made before it have outlived it)

    def key(self):
        return repr((self.ctx, self.ctx_changed)) + repr(sorted((d, sorted((s, sorted((n, o["kind"], o.get("comment"), [tuple(sorted((k, v) for k, v in c.items() if k != "origin")) for c in o["cols"]]) for n, o in objs.items())) for s, objs in sch.items())) for d, sch in self.cat.items()))

    def cs(self):
        """objects of the current schema"""
        return self.cat[self.ctx[0]][self.ctx[1]]

    def use(self, db, schema):
        self.ctx = [db, schema]
        self.ctx_changed = True


# ---- operations: id -> (sql, enabled(model) -> bool, apply(model)) ----------------------------------------------------------
def _has(m, n, kind="TABLE", sch=None):
    sch = sch or tuple(m.ctx)
    if sch[1] is None:  # no current schema: an unqualified name does not resolve
        return False
    o = m.cat.get(sch[0], {}).get(sch[1], {}).get(n)
    return o is not None and o["kind"] == kind


def _free(m, n, sch=None):
    sch = sch or tuple(m.ctx)
    return sch[1] is not None and sch[0] in m.cat and sch[1] in m.cat[sch[0]] and n not in m.cat[sch[0]][sch[1]]


def _create(m, n, cols, comment=None, sch=None):
    sch = sch or tuple(m.ctx)
    m.cat[sch[0]][sch[1]][n] = {"kind": "TABLE", "cols": cols, "comment": comment}


def _tcols(m, n):
    return m.cs()[n]["cols"]


def _copy(cols, origin):
    """columns derived from other columns: remember how (used only to name the class of a deviation)"""
    out = copy.deepcopy(cols)
    for c in out:
        c["origin"] = origin
    return out


def _colnames(m, n):
    return [c["name"] for c in _tcols(m, n)]


def _s2(m):
    """`s2.<name>` = schema S2 of the current database"""
    return (m.ctx[0], "S2")


def _views_on(m, n):
    return [v for v, o in m.cs().items() if o["kind"] == "VIEW" and o.get("on") == n]


OPS = {}


def op(oid, sql, enabled, apply):
    OPS[oid] = (sql, enabled, apply)


op("create_T", f"create table t ({ddl_cols(['A', 'B', 'C'])})", lambda m: _free(m, "T"), lambda m: _create(m, "T", [col("A"), col("B"), col("C")]))
op("create_T_comment", f"create table t ({ddl_cols(['A', 'B', 'H'])}) comment = 'c1'", lambda m: _free(m, "T"), lambda m: _create(m, "T", [col("A"), col("B"), col("H")], "c1"))
op("create_T_other", f"create table t ({ddl_cols(['D', 'E', 'F', 'G'])})", lambda m: _free(m, "T"), lambda m: _create(m, "T", [col("D"), col("E"), col("F"), col("G")]))
op("replace_T", f"create or replace table t ({ddl_cols(['B20', 'D'])}) comment = 'c2'", lambda m: (_free(m, "T") or _has(m, "T")) and not _views_on(m, "T"), lambda m: _create(m, "T", [col("B", "B20"), col("D")], "c2"))
op("replace_T_plain", f"create or replace table t ({ddl_cols(['A', 'C'])})", lambda m: (_free(m, "T") or _has(m, "T")) and not _views_on(m, "T"), lambda m: _create(m, "T", [col("A"), col("C")]))
op("ctas_U_plain", "create table u as select b from t", lambda m: _free(m, "U") and _has(m, "T") and "B" in _colnames(m, "T"), lambda m: _create(m, "U", _copy([c for c in _tcols(m, "T") if c["name"] == "B"], "ctas_plain")))
op("ctas_U_cast", "create table u as select cast(a as varchar(7)) as x, b from t", lambda m: _free(m, "U") and _has(m, "T") and {"A", "B"} <= set(_colnames(m, "T")), lambda m: _create(m, "U", [dict(col("X", "B"), len=7, desc="VARCHAR(7)", origin="ctas_cast")] + _copy([c for c in _tcols(m, "T") if c["name"] == "B"], "ctas_plain")))
op("clone_U", "create table u clone t", lambda m: _free(m, "U") and _has(m, "T"), lambda m: m.cs().__setitem__("U", {"kind": "TABLE", "cols": _copy(_tcols(m, "T"), "clone"), "comment": ("?", m.cs()["T"]["comment"])}))
# (views are created only while the session is in its home schema DB1.S1: fakesnow resolves the unqualified names of a view's
#  body against the schema that is current when the view is QUERIED - a query-semantics matter, not explored here)
op("view_V", "create view v as select a, b from t", lambda m: m.ctx == ["DB1", "S1"] and _free(m, "V") and _has(m, "T") and {"A", "B"} <= set(_colnames(m, "T")), lambda m: m.cs().__setitem__("V", {"kind": "VIEW", "on": "T", "cols": _copy([c for c in _tcols(m, "T") if c["name"] in ("A", "B")], "view"), "comment": None}))
op("replace_view_V", "create or replace view v as select b from t", lambda m: m.ctx == ["DB1", "S1"] and (_free(m, "V") or _has(m, "V", "VIEW")) and _has(m, "T") and "B" in _colnames(m, "T"), lambda m: m.cs().__setitem__("V", {"kind": "VIEW", "on": "T", "cols": _copy([c for c in _tcols(m, "T") if c["name"] == "B"], "view"), "comment": None}))
op("add_E", "alter table t add column e float", lambda m: _has(m, "T") and "E" not in _colnames(m, "T"), lambda m: _tcols(m, "T").append(col("E")))
op("add_H", "alter table t add column h varchar(3)", lambda m: _has(m, "T") and "H" not in _colnames(m, "T"), lambda m: _tcols(m, "T").append(col("H")))
op("drop_B", "alter table t drop column b", lambda m: _has(m, "T") and "B" in _colnames(m, "T") and len(_colnames(m, "T")) > 1 and not _views_on(m, "T"), lambda m: m.cs()["T"].__setitem__("cols", [c for c in _tcols(m, "T") if c["name"] != "B"]))
op("readd_B", "alter table t add column b varchar", lambda m: _has(m, "T") and "B" not in _colnames(m, "T"), lambda m: _tcols(m, "T").append(col("B", "C")))
op("rename_col_B", "alter table t rename column b to b2", lambda m: _has(m, "T") and "B" in _colnames(m, "T") and "B2" not in _colnames(m, "T") and not _views_on(m, "T"), lambda m: [c.update(name="B2", origin="renamed_column") for c in _tcols(m, "T") if c["name"] == "B"])
op("rename_T_U", "alter table t rename to u", lambda m: _has(m, "T") and _free(m, "U") and not _views_on(m, "T"), lambda m: m.cs().__setitem__("U", dict(m.cs().pop("T"), renamed=True)))
op("rename_U_T", "alter table u rename to t", lambda m: _has(m, "U") and _free(m, "T"), lambda m: m.cs().__setitem__("T", dict(m.cs().pop("U"), renamed=True)))
op("set_comment", "alter table t set comment = 'c3'", lambda m: _has(m, "T"), lambda m: m.cs()["T"].__setitem__("comment", "c3"))
op("comment_on", "comment on table t is 'c4'", lambda m: _has(m, "T"), lambda m: m.cs()["T"].__setitem__("comment", "c4"))
# replacing an EXISTING (or absent) comment by every member of the comment alphabet through both routes: the empty string
# (the alphabet's falsy member), a value equal to the one create_T_comment declared ('c1'), fresh values ('c3', 'c4' above)
# and one with an escaped quote
op("comment_on_empty", "comment on table t is ''", lambda m: _has(m, "T"), lambda m: m.cs()["T"].__setitem__("comment", ""))
op("set_comment_empty", "alter table t set comment = ''", lambda m: _has(m, "T"), lambda m: m.cs()["T"].__setitem__("comment", ""))
op("comment_on_same", "comment on table t is 'c1'", lambda m: _has(m, "T"), lambda m: m.cs()["T"].__setitem__("comment", "c1"))
op("set_comment_same", "alter table t set comment = 'c1'", lambda m: _has(m, "T"), lambda m: m.cs()["T"].__setitem__("comment", "c1"))
op("comment_on_quote", "comment on table t is 'it''s'", lambda m: _has(m, "T"), lambda m: m.cs()["T"].__setitem__("comment", "it's"))
op("replace_T_empty_comment", f"create or replace table t ({ddl_cols(['A', 'B'])}) comment = ''", lambda m: (_free(m, "T") or _has(m, "T")) and not _views_on(m, "T"), lambda m: _create(m, "T", [col("A"), col("B")], ""))
op("drop_T", "drop table t", lambda m: _has(m, "T") and not _views_on(m, "T"), lambda m: m.cs().pop("T"))
op("drop_U", "drop table u", lambda m: _has(m, "U"), lambda m: m.cs().pop("U"))
op("drop_V", "drop view v", lambda m: _has(m, "V", "VIEW"), lambda m: m.cs().pop("V"))
op("create_S2", "create schema s2", lambda m: "S2" not in m.cat[m.ctx[0]], lambda m: m.cat[m.ctx[0]].__setitem__("S2", {}))
op("create_S2_T", f"create table s2.t ({ddl_cols(['A', 'H'])}) comment = 's2c'", lambda m: _free(m, "T", _s2(m)), lambda m: _create(m, "T", [col("A"), col("H")], "s2c", _s2(m)))
# a clone placed in ANOTHER schema, source named without a schema (= the current schema), with and without a same-named
# table of other columns already present in the target schema
op("clone_into_S2", "create table s2.u clone t", lambda m: _free(m, "U", _s2(m)) and _has(m, "T"), lambda m: m.cat[m.ctx[0]]["S2"].__setitem__("U", {"kind": "TABLE", "cols": _copy(_tcols(m, "T"), "clone"), "comment": ("?", m.cs()["T"]["comment"])}))
op("drop_S2", "drop schema s2", lambda m: "S2" in m.cat[m.ctx[0]] and m.ctx[1] != "S2", lambda m: m.cat[m.ctx[0]].pop("S2"))
op("create_DB2", "create database db2", lambda m: "DB2" not in m.cat, lambda m: m.cat.__setitem__("DB2", {}))
op("create_DB2_S1", "create schema db2.s1", lambda m: "DB2" in m.cat and "S1" not in m.cat["DB2"], lambda m: m.cat["DB2"].__setitem__("S1", {}))
op("create_DB2_T", f"create table db2.s1.t ({ddl_cols(['C', 'D'])}) comment = 'db2c'", lambda m: _free(m, "T", ("DB2", "S1")), lambda m: _create(m, "T", [col("C"), col("D")], "db2c", ("DB2", "S1")))
# changes of the session context (the reporters without an explicit database / schema follow it, whatever cursor asks)
def _no_views(m):
    """(see view_V: a view's body is resolved against the schema current at query time, so no USE while a view exists)"""
    return not any(o["kind"] == "VIEW" for sch in m.cat.values() for objs in sch.values() for o in objs.values())


op("use_S2", "use schema s2", lambda m: _no_views(m) and "S2" in m.cat[m.ctx[0]] and m.ctx[1] != "S2", lambda m: m.use(m.ctx[0], "S2"))
op("use_DB2", "use database db2", lambda m: _no_views(m) and "DB2" in m.cat and m.ctx[0] != "DB2", lambda m: m.use("DB2", None))
op("use_DB2_S1", "use schema db2.s1", lambda m: _no_views(m) and "S1" in m.cat.get("DB2", {}) and m.ctx != ["DB2", "S1"], lambda m: m.use("DB2", "S1"))
op("use_back", "use schema db1.s1", lambda m: _no_views(m) and m.ctx != ["DB1", "S1"], lambda m: m.use("DB1", "S1"))
# statements that must FAIL and change nothing (a rejected CREATE must not touch the metadata of the existing table)
FAILING = {"dup_create_T", "dup_create_T_ctas", "replace_U_from_missing", "dup_create_V", "add_existing_col"}
op("dup_create_T", "create table t (other int, z varchar(2)) comment = 'dup'", lambda m: _has(m, "T"), lambda m: None)
op("dup_create_T_ctas", "create table t as select 1 as one", lambda m: _has(m, "T"), lambda m: None)
op("replace_U_from_missing", "create or replace table u as select * from table_that_is_missing", lambda m: _has(m, "U"), lambda m: None)
op("dup_create_V", "create view v as select 1 as one", lambda m: _has(m, "V", "VIEW"), lambda m: None)
op("add_existing_col", "alter table t add column a varchar(9)", lambda m: _has(m, "T") and "A" in _colnames(m, "T"), lambda m: None)
op("nop_set", "set some_var = 1", lambda m: True, lambda m: None)
op("nop_tag", "alter table t set tag k = 'v'", lambda m: _has(m, "T"), lambda m: None)
op("create_PK", "create table p (id int primary key, n varchar(4))", lambda m: _free(m, "P"), lambda m: _create(m, "P", [dict(col("ID", "A"), null=False), dict(col("N", "H"), len=4, desc="VARCHAR(4)")]))

QUICK_OPS = [
    "create_T", "create_T_comment", "replace_T", "ctas_U_plain", "ctas_U_cast", "clone_U", "view_V", "add_H", "drop_B", "readd_B",
    "rename_col_B", "rename_T_U", "set_comment", "comment_on", "drop_T", "drop_U", "create_S2", "create_S2_T", "create_DB2", "nop_tag",
    "dup_create_T", "replace_U_from_missing", "clone_into_S2",
    "comment_on_empty", "set_comment_empty", "comment_on_same", "set_comment_same",
    "use_S2", "use_DB2", "use_DB2_S1", "use_back",
]
# explicit deeper histories (name collisions across time, schemas and databases) explored in both tiers
COLLISIONS = [
    ["create_T_comment", "drop_T", "create_T"],
    ["create_T_comment", "drop_T", "create_T_other"],
    ["create_T_comment", "rename_T_U", "create_T"],
    ["create_T_comment", "rename_T_U", "drop_U", "create_T"],
    ["create_T_comment", "clone_U", "drop_T", "create_T_other"],
    ["create_T", "rename_col_B", "readd_B"],
    ["create_T", "drop_B", "readd_B"],
    ["create_T_comment", "replace_T_plain"],
    ["create_T_comment", "create_S2", "create_S2_T", "drop_T"],
    ["create_S2", "create_S2_T", "drop_S2", "create_S2", "create_T"],
    ["create_S2", "create_S2_T", "create_T"],
    ["create_DB2", "create_DB2_S1", "create_DB2_T", "create_T"],
    ["create_DB2", "create_DB2_S1", "create_DB2_T", "create_T_comment", "drop_T"],
    ["create_T_comment", "nop_tag", "nop_set", "comment_on", "nop_tag"],
    ["create_T", "view_V", "replace_view_V", "drop_V", "drop_T"],
    ["create_PK", "create_T_comment", "set_comment"],
    ["create_T_comment", "ctas_U_plain", "drop_U", "ctas_U_cast"],
    ["create_T_comment", "dup_create_T", "dup_create_T_ctas", "add_existing_col"],
    ["create_T_comment", "clone_U", "replace_U_from_missing"],
    ["create_T", "view_V", "dup_create_V"],
    ["create_S2", "create_S2_T", "create_T_comment"],  # same table name with different columns in two schemas
    ["create_T_comment", "create_S2", "clone_into_S2"],
    ["create_T", "create_S2", "create_S2_T", "clone_into_S2"],
    # a comment set through the no-op path, then changed by another route, then statements that are answered by the
    # shared no-op statement (SET / SET TAG): the shared object must not carry the old comment along
    ["create_T", "comment_on", "replace_T", "nop_set", "nop_tag"],
    ["create_T", "set_comment", "replace_T", "nop_tag", "nop_set"],
    ["create_T_comment", "comment_on", "create_S2", "create_S2_T", "nop_set"],
    # renaming onto a name whose earlier table was dropped (its metadata must not come back)
    ["create_T_comment", "ctas_U_plain", "drop_T", "rename_U_T"],
    ["create_T_comment", "ctas_U_cast", "drop_T", "rename_U_T", "nop_set"],
    ["create_T_comment", "rename_T_U", "create_T", "drop_T", "rename_U_T"],
    # an existing comment replaced by each member of the comment alphabet (and a first comment that is the empty one)
    ["create_T", "comment_on_empty", "comment_on", "set_comment_empty", "set_comment"],
    ["create_T", "comment_on", "comment_on_same", "set_comment_same", "comment_on_quote", "comment_on_empty"],
    ["create_T_comment", "rename_T_U", "rename_U_T", "set_comment_empty"],
    ["create_T_comment", "replace_T_empty_comment", "comment_on", "replace_T_empty_comment"],
    ["create_T_comment", "comment_on_empty", "drop_T", "create_T"],
    ["create_DB2", "create_DB2_S1", "create_DB2_T", "use_DB2_S1", "comment_on_empty", "use_back"],
    # the session context moves (USE DATABASE: no current schema; USE SCHEMA in the same / another database; and back) while
    # both databases hold same-named objects, keys and comments
    ["create_T_comment", "create_PK", "create_DB2", "create_DB2_S1", "create_DB2_T", "use_DB2", "use_back"],
    ["create_T_comment", "create_DB2", "create_DB2_S1", "use_DB2_S1", "create_PK", "create_T_other", "use_back", "drop_T"],
    ["create_T", "create_S2", "use_S2", "create_T_comment", "create_PK", "use_back", "view_V", "drop_V", "drop_T"],
    ["create_DB2", "use_DB2", "create_DB2_S1", "create_DB2_T", "use_DB2_S1", "set_comment", "create_S2", "create_S2_T"],
]


# ---- real side -------------------------------------------------------------------------------------------------------------
def build(hist):
    import fakesnow.instance as inst

    fs = inst.FakeSnow()
    conn = fs.connect(database="db1", schema="s1")
    m = Model()
    cur, idle = long_lived(conn)
    for oid in hist:
        sql, _en, ap = OPS[oid]
        try:
            cur.execute(sql)
            ap(m)
        except Exception:  # noqa: BLE001  a statement that raises declares nothing (expand() reports it once)
            pass
    conn._c09_cursors = {"ran_the_history": cur, "idle_since_connect": idle}
    return fs, conn, m


def long_lived(conn):
    """two cursors made BEFORE the history starts: the one that executes it, and one that stays idle meanwhile"""
    from snowflake.connector.cursor import DictCursor

    return conn.cursor(DictCursor), conn.cursor(DictCursor)


def truth(fs):
    """ground truth for state identity: catalog + side tables (no user data)"""
    c = observe.catalog(fs, views=True, data=True)
    side = tuple(kv for kv in c["data"] if "._fs_" in kv[0] and "_fs_users" not in kv[0])
    return core.h((c["dbs"], c["schemas"], c["tables"], c["views"], side))


def q(cur, sql):
    try:
        cur.execute(sql)
        return cur.fetchall()
    except Exception as e:  # noqa: BLE001
        return exc_info(e)


def sweep(conn, m: Model, acc, rp, last, keep=None, fs=None):
    """Run every metadata reporter and compare with the model. Returns number of reporters run.
    keep: dict living as long as the session (stepwise mode): one dedicated cursor per object that executes nothing but
    `select * from <object>` - re-executed after every step while the catalog changes through other cursors."""
    cur = conn.cursor()
    from snowflake.connector.cursor import DictCursor

    dcur = conn.cursor(DictCursor)
    n = 0
    cdb, csch = m.ctx

    def bad(clause, cls, detail):
        acc.violation(clause, cls, dict(detail, after=last), rp)

    def isexc(r):
        return isinstance(r, tuple) and r and r[0] == "err"

    user_tables = [(d, s, n_, o) for d, sch in m.cat.items() for s, objs in sch.items() for n_, o in objs.items()]
    # -- information_schema.tables, per database (Snowflake's information_schema is per database)
    for d in sorted(m.cat):
        r = q(dcur, f"select * from {d}.information_schema.tables")
        n += 1
        if isexc(r):
            bad("C09.info_tables", f"db={d},raises", {"got": r})
            continue
        internal = sorted({x["table_name"] for x in r if str(x["table_name"]).lower().startswith("_fs_")})
        if internal:
            bad("C09.internal_objects_hidden", "reporter=information_schema.tables", {"listed": internal})
        got = sorted((x["table_catalog"], x["table_schema"], x["table_name"], x["table_type"], x.get("comment", x.get("COMMENT"))) for x in r if x["table_schema"] not in ("information_schema", "main"))
        want = []
        flex = set()
        for dd, s, n_, o in user_tables:
            if dd == d:
                cm = o["comment"]
                if isinstance(cm, tuple):  # CLONE: comment not demanded
                    flex.add((dd, s, n_))
                    cm = None
                want.append((dd, s, n_, "BASE TABLE" if o["kind"] == "TABLE" else "VIEW", cm))
        # not demanded: whether a declared EMPTY comment reads back as '' or as NULL
        empty = {w[:3] for w in want if w[4] == ""}
        got_cmp = sorted(g[:4] + (None,) if (g[0], g[1], g[2]) in flex else (g[:4] + ("",) if g[:3] in empty and g[4] is None else g) for g in got)
        if got_cmp != sorted(want):
            names_ok = sorted(g[:4] for g in got) == sorted(w[:4] for w in want)
            if names_ok:
                for g, w in zip(got_cmp, sorted(want)):
                    if g != w:
                        o = m.cat[g[0]][g[1]][g[2]]
                        how = "renamed_table" if o.get("renamed") else "declared_or_set"
                        bad("C09.comment", f"reporter=information_schema.tables,db={'current' if d == cdb else 'other'},{explain_comment(w[4], g[4])},table={how}", {"table": g[:3], "expected": w[4], "got": g[4]})
            else:
                bad("C09.info_tables", f"db={'current' if d == cdb else 'other'},objects", {"expected": sorted(w[:4] for w in want), "got": sorted(g[:4] for g in got)})
    # -- information_schema.columns
    for d in sorted(m.cat):
        r = q(dcur, f"select * from {d}.information_schema.columns")
        n += 1
        if isexc(r):
            bad("C09.info_columns", f"db={d},raises", {"got": r})
            continue
        internal = sorted({x["table_name"] for x in r if str(x["table_name"]).lower().startswith("_fs_")})
        if internal:
            bad("C09.internal_objects_hidden", "reporter=information_schema.columns", {"listed": internal})
        got = {}
        for x in r:
            if x["table_schema"] in ("information_schema", "main"):
                continue
            got.setdefault((x["table_schema"], x["table_name"]), []).append(x)
        want_keys = sorted((s, n_) for dd, s, n_, o in user_tables if dd == d)
        if sorted(got) != want_keys:
            bad("C09.info_columns", "objects", {"expected": want_keys, "got": sorted(got)})
        for dd, s, n_, o in user_tables:
            if dd != d or (s, n_) not in got:
                continue
            rows = sorted(got[(s, n_)], key=lambda x: x["ordinal_position"])
            check_columns(acc, rp, last, "information_schema.columns", f"{d}.{s}.{n_}", o, [
                {"name": x["column_name"], "dt": x["data_type"], "len": x["character_maximum_length"], "prec": x["numeric_precision"], "scale": x["numeric_scale"], "null": x["is_nullable"] == "YES"}
                for x in rows
            ])
    # -- information_schema.views / databases
    r = q(dcur, "select * from information_schema.views")
    n += 1
    if isexc(r):
        bad("C09.info_views", "raises", {"got": r})
    else:
        got = sorted((x["table_catalog"], x["table_schema"], x["table_name"]) for x in r)
        want = sorted((d, s, n_) for d, s, n_, o in user_tables if o["kind"] == "VIEW" and d == cdb)
        if got != want:
            bad("C09.info_views", "objects", {"expected": want, "got": got})
    r = q(dcur, "select * from information_schema.databases")
    n += 1
    if isexc(r):
        bad("C09.info_databases", "raises", {"got": r})
    else:
        got = sorted(x["database_name"] for x in r)
        if got != sorted(m.cat):
            bad("C09.info_databases", "names", {"expected": sorted(m.cat), "got": got})
    # -- DESCRIBE TABLE / VIEW and description of SELECT *
    for d, s, n_, o in user_tables:
        fq = f"{d}.{s}.{n_}"
        names = [fq] + ([n_] if (d, s) == (cdb, csch) else [])
        for nm in names:
            r = q(dcur, f"describe {'table' if o['kind'] == 'TABLE' else 'view'} {nm}")
            n += 1
            if isexc(r):
                bad("C09.describe", f"kind={o['kind']},{'qualified' if nm == fq else 'unqualified'},raises", {"object": nm, "got": r})
                continue
            check_columns(acc, rp, last, f"describe_{o['kind'].lower()}", fq, o, [
                {"name": x["name"], "desc": x["type"], "null": x["null?"] == "Y"} for x in r
            ])
        cur2 = conn.cursor() if keep is None else keep.setdefault(("select*", fq), conn.cursor())
        try:
            cur2.execute(f"select * from {fq}")
            desc = cur2.description
            check_columns(acc, rp, last, "description_select_star", fq, o, [
                {"name": c.name, "code": c.type_code, "prec": c.precision if c.type_code == 0 else None, "scale": c.scale if c.type_code == 0 else None} for c in desc
            ])
        except Exception as e:  # noqa: BLE001
            bad("C09.description", f"kind={o['kind']},raises", {"object": fq, "got": exc_info(e)})
        n += 1
    # -- the same unqualified statement text in every schema that has a table of that name, on ONE connection and ONE
    #    cursor (state keyed by statement text, e.g. a description cache, must not leak between contexts)
    same_name = [(d, s) for d, s, n_, o in user_tables if n_ == "T" and o["kind"] == "TABLE"]
    if len(same_name) > 1:
        ucur = conn.cursor()
        for d, s in sorted(same_name) + sorted(same_name)[:1]:
            o = m.cat[d][s]["T"]
            try:
                ucur.execute(f"use schema {d}.{s}")
                ucur.execute("select * from t")
                desc = ucur.description
                check_columns(acc, rp, last, "description_unqualified_after_use_schema", f"{d}.{s}.T", o, [
                    {"name": c.name, "code": c.type_code, "prec": c.precision if c.type_code == 0 else None, "scale": c.scale if c.type_code == 0 else None} for c in desc
                ])
                r = q(dcur, "describe table t")
                n += 2
                if not isexc(r):
                    check_columns(acc, rp, last, "describe_unqualified_after_use_schema", f"{d}.{s}.T", o, [{"name": x["name"], "desc": x["type"], "null": x["null?"] == "Y"} for x in r])
            except Exception as e:  # noqa: BLE001
                bad("C09.description", "unqualified_after_use_schema,raises", {"schema": f"{d}.{s}", "got": exc_info(e)})
        cur.execute(f"use schema {cdb}.{csch}" if csch else f"use database {cdb}")
    # -- SHOW TABLES / OBJECTS / SCHEMAS in every scope
    shows = [
        ("show tables", "TABLE", None, None),
        ("show terse tables", "TABLE", None, None),
        ("show tables in database db1", "TABLE", "DB1", None),
        ("show tables in schema db1.s1", "TABLE", "DB1", "S1"),
        ("show objects", None, None, None),
        ("show terse objects in schema db1.s1", None, "DB1", "S1"),
        ("show objects in database db1", None, "DB1", None),
    ]
    if "S2" in m.cat["DB1"]:
        shows.append(("show tables in schema db1.s2", "TABLE", "DB1", "S2"))
    if "DB2" in m.cat:
        shows.append(("show tables in database db2", "TABLE", "DB2", None))
    for sql, kind, sd, ss in shows:
        r = q(dcur, sql)
        n += 1
        scope = "account" if sd is None else ("database" if ss is None else "schema")
        what = sql.split()[1] if "terse" not in sql else "terse_" + sql.split()[2]
        if isexc(r):
            bad("C09.show", f"{what},scope={scope},raises", {"sql": sql, "got": r})
            continue
        internal = sorted({x["name"] for x in r if str(x["name"]).lower().startswith("_fs_") or str(x.get("database_name", "")).lower() == "_fs_global"})
        if internal:
            bad("C09.internal_objects_hidden", f"reporter=show_{what}", {"sql": sql, "listed": internal})
        got = sorted((x["database_name"], x["schema_name"], x["name"], x["kind"]) for x in r if not str(x["name"]).lower().startswith("_fs_") and x["schema_name"] not in ("information_schema",))
        want = sorted((d, s, n_, o["kind"]) for d, s, n_, o in user_tables if (kind is None or o["kind"] == kind) and (sd is None or d == sd) and (ss is None or s == ss))
        if got != want:
            bad("C09.show", f"{what},scope={scope},objects", {"sql": sql, "expected": want, "got": got})
        if "terse" not in sql and r and "comment" in r[0]:
            for x in r:
                key = (x["database_name"], x["schema_name"], x["name"])
                o = m.cat.get(key[0], {}).get(key[1], {}).get(key[2])
                if o and not isinstance(o["comment"], tuple) and (x["comment"] or None) != (o["comment"] or None):
                    bad("C09.comment", f"reporter=show_{what},{explain_comment(o['comment'], x['comment'])}", {"object": key, "expected": o["comment"], "got": x["comment"]})
    # -- the reporters that name no database (or no schema's database): they describe the CURRENT database, whichever cursor
    #    of whichever connection asks - one made just now, and (once the history has changed the session context) the two
    #    cursors made before the history, one made right after the first change, and one of a second connection
    n += ctx_reporters(dcur, m, acc, rp, last, "new")
    if m.ctx_changed:
        olds = dict(getattr(conn, "_c09_cursors", {}))
        if keep is not None:
            olds["made_after_first_context_change"] = keep.setdefault(("cursor", "midway"), conn.cursor(DictCursor))
        for who in sorted(olds):
            n += ctx_reporters(olds[who], m, acc, rp, last, who)
        if fs is not None:
            conn2 = fs.connect(database=cdb.lower(), **({"schema": csch.lower()} if csch else {}))
            n += ctx_reporters(conn2.cursor(DictCursor), m, acc, rp, last, "second_connection")
    return n


def ctx_reporters(dc, m: Model, acc, rp, last, who):
    """SHOW TABLES|OBJECTS IN DATABASE (unnamed), IN SCHEMA <unqualified>, SHOW SCHEMAS, SHOW PRIMARY KEYS and DESCRIBE of an
    unqualified name, on the DictCursor dc (who = how dc came to be) against the model's current database / schema."""
    cdb, csch = m.ctx
    n = 0

    def bad(clause, cls, detail):
        acc.violation(clause, cls, dict(detail, after=last, cursor=who, current=list(m.ctx)), rp)

    def isexc(r):
        return isinstance(r, tuple) and r and r[0] == "err"

    objs = [(s, n_, o) for s, sch in m.cat[cdb].items() for n_, o in sch.items()]
    stmts = [("show terse tables in database", "TABLE", None), ("show objects in database", None, None)]
    stmts += [(f"show tables in schema {s.lower()}", "TABLE", s) for s in sorted(m.cat[cdb])]
    for sql, kind, ss in stmts:
        r = q(dc, sql)
        n += 1
        what = sql.split()[1] if "terse" not in sql else "terse_" + sql.split()[2]
        scope = "current_database" if ss is None else "schema_of_current_database"
        if isexc(r):
            bad("C09.show", f"{what},scope={scope},cursor={who},raises", {"sql": sql, "got": r})
            continue
        got = sorted((x["database_name"], x["schema_name"], x["name"], x["kind"]) for x in r if not str(x["name"]).lower().startswith("_fs_") and x["schema_name"] not in ("information_schema",))
        want = sorted((cdb, s, n_, o["kind"]) for s, n_, o in objs if (kind is None or o["kind"] == kind) and (ss is None or s == ss))
        if got != want:
            bad("C09.show", f"{what},scope={scope},cursor={who},objects", {"sql": sql, "expected": want, "got": got})
    r = q(dc, "show schemas")
    n += 1
    if isexc(r):
        bad("C09.show", f"schemas,cursor={who},raises", {"got": r})
    else:
        got = sorted((x["database_name"], x["name"]) for x in r if x["name"] not in ("information_schema", "INFORMATION_SCHEMA"))
        want = sorted((cdb, s) for s in m.cat[cdb])
        if got != want:
            bad("C09.show", f"schemas,cursor={who},objects", {"expected": want, "got": got})
    r = q(dc, "show primary keys")
    n += 1
    if isexc(r):
        bad("C09.show", f"primary_keys,cursor={who},raises", {"got": r})
    else:
        got = sorted((x["database_name"], x["schema_name"], x["table_name"], x["column_name"]) for x in r)
        want = sorted((cdb, s, "P", "ID") for s, n_, o in objs if n_ == "P")
        if got != want:
            bad("C09.show", f"primary_keys,cursor={who},objects", {"expected": want, "got": got})
    if who != "new" and csch is not None:  # (the new cursor's DESCRIBE of unqualified names is part of the main sweep)
        for n_, o in sorted(m.cat[cdb][csch].items()):
            r = q(dc, f"describe {'table' if o['kind'] == 'TABLE' else 'view'} {n_}")
            n += 1
            if isexc(r):
                bad("C09.describe", f"kind={o['kind']},unqualified,cursor={who},raises", {"object": n_, "got": r})
            else:  # names and order only: types, lengths and nullability are compared on the new cursor
                check_columns(acc, rp, last, f"describe_unqualified,cursor={who}", f"{cdb}.{csch}.{n_}", o, [{"name": x["name"]} for x in r])
    return n


def explain_comment(want, got):
    if want is None and got is not None:
        return "stale_comment_shown"
    if want == "" and got not in (None, ""):
        return "comment_not_replaced_by_empty"
    if want is not None and got in (None, ""):
        return "comment_missing"
    return "comment_other"


def check_columns(acc, rp, last, reporter, obj, o, got_cols):
    want = o["cols"]

    def bad(clause, cls, detail):
        acc.violation(clause, cls, dict(detail, object=obj, after=last), rp)

    def org(w):
        return "renamed_table" if o.get("renamed") and w["origin"] == "declared" else w["origin"]

    if [c["name"] for c in got_cols] != [c["name"] for c in want]:
        bad("C09.columns", f"reporter={reporter},names_or_order", {"expected": [c["name"] for c in want], "got": [c["name"] for c in got_cols]})
        return
    for w, g in zip(want, got_cols):
        for attr in ("dt", "desc", "code", "null"):
            if attr in g and g[attr] != w[attr]:
                if attr == "desc" and w["dt"] == "TEXT" and str(g[attr]).startswith("VARCHAR("):
                    bad("C09.varchar_length", f"reporter={reporter},{explain_len(w['len'], g[attr])},column={org(w)}", {"column": w["name"], "expected": w["desc"], "got": g[attr]})
                else:
                    bad("C09.column_type", f"reporter={reporter},attr={attr},type={w['dt']},column={org(w)}", {"column": w["name"], "expected": w[attr], "got": g[attr]})
        if "len" in g and w["dt"] == "TEXT" and g["len"] != w["len"]:
            bad("C09.varchar_length", f"reporter={reporter},{explain_len(w['len'], g['len'])},column={org(w)}", {"column": w["name"], "expected": w["len"], "got": g["len"]})
        if "prec" in g and w["dt"] == "NUMBER" and (g["prec"], g["scale"]) != (w["prec"], w["scale"]):
            bad("C09.column_type", f"reporter={reporter},attr=precision_scale", {"column": w["name"], "expected": (w["prec"], w["scale"]), "got": (g["prec"], g["scale"])})


def explain_len(want, got):
    if got is None:
        return "length_missing"
    g = int(str(got).replace("VARCHAR(", "").replace(")", "")) if not isinstance(got, int) else got
    if g == 16777216 and want != 16777216:
        return "length_defaulted"
    return "length_stale_or_other"


# ---- exploration ------------------------------------------------------------------------------------------------------------
def expand(item, acc: core.Acc, tier):
    """item = (history, op id, do_sweep_if_new). Apply op after replaying history; return (truth key, model key)."""
    hist, oid = item
    fs, conn, m = build(hist)
    try:
        sql, _en, ap = OPS[oid]
        ap(m)
        cur = conn.cursor()
        try:
            cur.execute(sql)
            got = ("ok",)
        except Exception as e:  # noqa: BLE001
            got = exc_info(e)
        t = truth(fs)
    finally:
        fs.duck_conn.close()
    acc.count("evaluations")
    acc.count("transitions")
    acc.count("traces")
    acc.obs((hist, oid, got, t))
    acc.outcome((oid, got[0], got[1:3] if got[0] == "err" else None))
    if oid in FAILING:
        if got[0] == "ok":
            acc.violation("C09.must_fail", f"op={oid}", {"sql": sql}, {"history": hist, "op": oid})
            return None
        # the state after a rejected statement is swept like any other (the model did not change)
        return (t, m.key() + "|after_rejected:" + oid)
    if got[0] != "ok":
        acc.violation("C09.statement_works", f"op={oid},exc={got[1].split('.')[-1]}", {"sql": sql, "got": got}, {"history": hist, "op": oid})
        return None
    return (t, m.key())


def sweep_item(item, acc: core.Acc, tier):
    if isinstance(item, tuple) and item and item[0] == "stepwise":
        return sweep_stepwise(item[1], acc)
    hist = item
    fs, conn, m = build(hist)
    try:
        n = sweep(conn, m, acc, {"history": hist, "sweep": True}, hist[-1] if hist else "connect", fs=fs)
    finally:
        fs.duck_conn.close()
    acc.count("evaluations")
    acc.count("sweeps")
    acc.count("reporter_queries", n)
    acc.obs((hist, "sweep", sorted((k, v["count"]) for k, v in acc.viol.items())))
    acc.nontrivial(("sweep", tuple(hist)))
    acc.sample({"history": [OPS[o][0] for o in hist], "reporters_run": n}, cap=3)


def sweep_stepwise(hist, acc: core.Acc):
    """The property says "observed after every step": ONE session runs the history and the complete sweep after every
    statement of it, so every reporter statement is executed again and again, with identical text, around each change of
    the catalog (anything a reporter remembers from its previous answer shows up here and nowhere else)."""
    import fakesnow.instance as inst

    fs = inst.FakeSnow()
    n = 0
    try:
        conn = fs.connect(database="db1", schema="s1")
        m = Model()
        cur, idle = long_lived(conn)
        conn._c09_cursors = {"ran_the_history": cur, "idle_since_connect": idle}
        keep = {}
        n += sweep(conn, m, acc, {"history": [], "sweep": "stepwise", "full_history": hist}, "connect", keep, fs=fs)
        for i, oid in enumerate(hist):
            sql, _en, ap = OPS[oid]
            try:
                cur.execute(sql)
                ap(m)
            except Exception:  # noqa: BLE001  a statement that raises declares nothing (expand() reports it once)
                pass
            n += sweep(conn, m, acc, {"history": hist[: i + 1], "sweep": "stepwise", "full_history": hist}, oid, keep, fs=fs)
        # ... and once more from a connection made only now (what a session set up at connect must not be stale)
        conn2 = fs.connect(database=m.ctx[0].lower(), **({"schema": m.ctx[1].lower()} if m.ctx[1] else {}))
        n += sweep(conn2, m, acc, {"history": hist, "sweep": "stepwise", "full_history": hist, "from": "new connection"}, hist[-1] if hist else "connect")
    finally:
        fs.duck_conn.close()
    acc.count("evaluations")
    acc.count("sweeps", len(hist) + 1)
    acc.count("stepwise_histories")
    acc.count("reporter_queries", n)
    acc.obs((hist, "stepwise", sorted((k, v["count"]) for k, v in acc.viol.items())))
    acc.nontrivial(("stepwise", tuple(hist)))


def run(ctx: core.Ctx):
    ops = QUICK_OPS if ctx.quick else list(OPS)
    depth = 2 if ctx.quick else 3
    ctx.rule = (
        "BFS over DDL histories from the written-out operation alphabet (enabledness from the model) up to the depth bound, plus "
        "explicitly listed deeper name-collision histories; states deduplicated on (raw-DuckDB catalog incl. fakesnow side "
        "tables, model state); the full reporting sweep (information_schema x4, DESCRIBE, SHOW x10+, description) is run once per "
        "distinct state, and every maximal history is run once more in one session with the sweep after every step; histories "
        "include USE SCHEMA/DATABASE, after which the database-relative reporters are also asked on cursors that outlived the "
        "change and from a second connection; "
        "non-trivial = distinct swept state"
    )
    ctx.assumptions = ["the model encodes Snowflake's documented metadata semantics (CTAS/RENAME keep VARCHAR lengths, DROP forgets comments)"]
    seen = {}
    frontier = [[]]
    d = 0
    to_sweep = [[]]
    while frontier and d < depth:
        items = []
        for hist in frontier:
            m = Model()
            for o in hist:
                OPS[o][2](m)
            for o in ops:
                if OPS[o][1](m):
                    items.append((hist, o))
        res = ctx.pmap(expand, items, recheck=(d == 1))
        frontier = []
        for (hist, o), k in sorted(res, key=lambda x: (len(x[0][0]), repr(x[0]))):
            if k is not None and k not in seen:
                seen[k] = hist + [o]
                frontier.append(hist + [o])
                to_sweep.append(hist + [o])
        d += 1
    # explicit deeper histories: every prefix is a state to sweep
    extra = []
    for h in COLLISIONS:
        for i in range(1, len(h) + 1):
            extra.append(h[:i])
    res = ctx.pmap(expand, [(h[:-1], h[-1]) for h in extra], recheck=False)
    for (hist, o), k in sorted(res, key=lambda x: repr(x[0])):
        if k is not None and k not in seen:
            seen[k] = hist + [o]
            to_sweep.append(hist + [o])
    ctx.pmap(sweep_item, to_sweep, chunk=2, recheck=True)
    # the same histories once more, swept after every step in one session (maximal histories only: prefixes are covered)
    as_t = {tuple(h) for h in to_sweep}
    maximal = sorted(h for h in as_t if not any(len(o) > len(h) and o[: len(h)] == h for o in as_t))
    ctx.pmap(sweep_item, [("stepwise", list(h)) for h in maximal], chunk=2, recheck=True)
    ctx.extra["stepwise_histories"] = len(maximal)
    for k in seen:
        ctx.acc.add("states", k)
    ctx.extra["bound"] = f"depth {depth} over {len(ops)} operations + {len(COLLISIONS)} explicit collision histories (all prefixes)"
    ctx.extra["frontier_left_unexpanded"] = len(frontier)
    ctx.exhaustive = False


def replay(payload):
    r = payload["replay"]
    acc = core.Acc()
    if r.get("sweep") == "stepwise":
        sweep_item(("stepwise", r["full_history"]), acc, "quick")
    elif r.get("sweep"):
        sweep_item(r["history"], acc, "quick")
    else:
        expand((r["history"], r["op"]), acc, "quick")
    print("history:", [OPS[o][0] for o in r["history"]])
    for k, v in acc.viol.items():
        print(k, v["detail"])
    return bool(acc.viol)
