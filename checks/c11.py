"""C11 — VARIANT/OBJECT/ARRAY values behave as JSON documents.

Engine E2 (exhaustive product), level "exploration", exhaustive over the finite space written out below:

  DOCS(tier) x PATHS(tier) x SYNTAXES x OPS        evaluated on a table column (VARIANT; OBJECT/ARRAY typed columns
                                                   with the value ops), one SQL expression per (path, syntax, op),
                                                   evaluated by the engine on every document row at once
  LDOCS(tier) x relevant paths x OPS               the same through a PARSE_JSON('...') literal (one SELECT list per
                                                   document)
  CDOCS(tier) x constructor styles x paths         OBJECT_CONSTRUCT[_KEEP_NULL], array literals, ARRAY_CONSTRUCT
  DOCS x PATHS x FLATTEN columns                   LATERAL FLATTEN(input => <extraction>) [alias] over the table
  explicit lists                                   PARSE_JSON/TRY_PARSE_JSON texts, NULL keys, SPLIT strings

The reference is mc/ref/json_nav.py: Python navigation of the json.loads-ed document plus Snowflake's documented
conversions; expectations never come from fakesnow.

Batching: the expressions of one (path, syntax, target kind) -- resp. of one document for the literal sources -- go
into one SELECT list; whenever such a statement raises it is split in halves recursively down to one expression per
statement, so a raising expression is always isolated on its own and cannot mask the others. A single expression
that raises on a row set is re-run per distinct target value unless it also raises on the empty row set (then the
error does not depend on the data).

Not demanded (deliberately left open, Snowflake raises or is not documented unambiguously):
  * casts of strings / containers to NUMBER, INT, FLOAT, BOOLEAN and of booleans to numbers (Snowflake raises for the
    strings of the alphabet; none is numeric);
  * UPPER/LOWER of a non-empty container (changes the letters inside the JSON text), `|| 'x'` on a container;
  * any operator context over an *uncast* extraction whose kind does not match the operator (string + 1, ...), and
    IS NULL / comparisons over an uncast JSON null (JSON null and SQL NULL are both None here);
  * uncast LIKE; FLATTEN of objects and scalars, FLATTEN's INDEX/KEY/PATH/SEQ/THIS columns; TABLE(FLATTEN(...));
  * whitespace / key order of JSON text; the Python type of numbers (int/float/Decimal) and of constructor results;
  * dot after a bracket outside a colon path (v[0].a), GET_PATH with a leading index, GET(), negative indices.
"""
from __future__ import annotations

import itertools
import json
import os

from mc import core
from mc.ref import json_nav as J

PID = "C11"
LEVEL = "exploration"

# ======================================================================================================================
# alphabets (written out)
# ======================================================================================================================
ATOMS = [None, True, 0, -1.5, "s", "Str", 'q"', "", [], {}]
ATOMS_QUICK = [None, True, 0, -1.5, "Str", 'q"', [], {}]
KEY1, KEY2 = "a", "B"  # first key lower case, second upper case: case variants are "A" and "b"
FILL = "s"  # sibling next to the spine child in documents of depth >= 2 (thorough); quick uses the same
SMALL_ATOMS = [0, "Str"]  # complete closure to depth 2 over these (thorough)

STEPS = {"quick": ["a", "B", "A", "zz", 0, 1, 2], "thorough": ["a", "B", "A", "b", "zz", 0, 1, 2]}
MAXLEN = {"quick": 2, "thorough": 3}
# quick additionally takes these paths of length 3 (one per combination of step kinds)
QUICK_LONG = [
    ("a", "a", "a"), ("a", "B", 0), ("a", 0, "B"), ("a", 1, 0), (0, "a", "B"), (0, "a", 1), (1, 0, "a"), (0, 1, 0),
    ("a", "a", "zz"), ("a", 0, 2), (0, "a", "A"),
]  # fmt: skip

FRAMES = ["A1", "A2L", "A2R", "O1", "O2L", "O2R"]


def frame(f, child, sib):
    if f == "A1":
        return [child]
    if f == "A2L":
        return [child, sib]
    if f == "A2R":
        return [sib, child]
    if f == "O1":
        return {KEY1: child}
    if f == "O2L":
        return {KEY1: child, KEY2: sib}
    if f == "O2R":
        return {KEY1: sib, KEY2: child}
    raise ValueError(f)


def canon(doc) -> str:
    if doc is J.MISSING:
        return "\x00missing"
    return json.dumps(doc, sort_keys=False, separators=(",", ":"))


def _containers(children):
    """all arrays / objects of width 1..2 over `children`"""
    out = []
    for x in children:
        out.append([x])
        out.append({KEY1: x})
    for x in children:
        for y in children:
            out.append([x, y])
            out.append({KEY1: x, KEY2: y})
    return out


def _dedupe(docs):
    seen, out = set(), []
    for d in docs:
        c = canon(d)
        if c not in seen:
            seen.add(c)
            out.append(d)
    return out


def docs_for(tier):
    """The document set: (i) every document of depth <= 1 and width <= 2 over the atoms; (ii) every chain of 2..3
    container frames (array/object, width 1 or 2, spine child first or second, sibling = FILL) ending in an atom;
    (iii) thorough: every document of depth <= 2, width <= 2 over SMALL_ATOMS."""
    atoms = ATOMS if tier == "thorough" else ATOMS_QUICK
    out = list(atoms) + _containers(atoms)
    if tier == "thorough":
        chain_atoms = {2: ATOMS, 3: ATOMS}
        frames = FRAMES
    else:
        chain_atoms = {2: [None, "Str", -1.5, []], 3: ["Str", 0]}
        frames = ["A1", "A2R", "O1", "O2R"]
    for depth in (2, 3):
        for fs in itertools.product(frames, repeat=depth):
            for a in chain_atoms[depth]:
                d = a
                for f in reversed(fs):
                    d = frame(f, d, FILL)
                out.append(d)
    if tier == "thorough":
        v1 = list(SMALL_ATOMS) + _containers(SMALL_ATOMS)
        out += _containers(v1)
    return _dedupe(out)


def paths_for(tier):
    st = STEPS[tier]
    out = [()]
    for n in range(1, MAXLEN[tier] + 1):
        out += list(itertools.product(st, repeat=n))
    if tier == "quick":
        out += QUICK_LONG
    return out


# ---- path syntaxes -------------------------------------------------------------------------------------------------------
def _sqlstr(s: str) -> str:
    """Snowflake single-quoted literal (backslash is an escape character there)."""
    return "'" + s.replace("\\", "\\\\").replace("'", "''") + "'"


def _render(src, steps, style):
    """-> (sql, form) or None. form names the *written shape* of the access: the kinds of the brackets applied
    directly to the source before any colon ('K' = ['key'], 'I' = [index]), then ':p' if a colon path follows;
    'p' = a pure colon path (dots, inner [index] and ['key'] after the colon included); 'G' = GET_PATH."""
    if style == "getpath":
        if not steps or not isinstance(steps[0], str):
            return None
        p = ""
        for s in steps:
            p += (("." if p else "") + s) if isinstance(s, str) else f"[{s}]"
        return f"get_path({src}, {_sqlstr(p)})", "G"
    out = src
    seen_colon = False
    lead = ""
    for s in steps:
        if isinstance(s, int):
            out += f"[{s}]"
            if not seen_colon:
                lead += "I"
        elif style == "bracket" or (style == "mixed" and seen_colon):
            out += f"[{_sqlstr(s)}]"
            if not seen_colon:
                lead += "K"
        else:
            k = f'"{s}"' if style == "quoted" else s
            out += (":" if (not seen_colon or style == "colon2") else ".") + k
            seen_colon = True
    form = (lead + (":p" if seen_colon and lead else "")) or ("p" if seen_colon else "root")
    return out, form


SYNTAXES = ["colon", "bracket", "mixed", "colon2", "quoted", "getpath"]


def renderings(src, steps, syntaxes=SYNTAXES):
    """[(syntax, sql, form)] with textually identical renderings listed once (under the first syntax producing them)."""
    out, seen = [], set()
    for sy in syntaxes:
        r = _render(src, steps, sy)
        if r is None or r[0] in seen:
            continue
        seen.add(r[0])
        out.append((sy, r[0], r[1]))
    return out


def shape_of(steps) -> str:
    return "".join("k" if isinstance(s, str) else "i" for s in steps) or "root"


# ======================================================================================================================
# operations: (id, SQL template over the extraction {x}, comparison mode, reference, clause)
# ======================================================================================================================
def _T(v):
    """text cast for use inside comparison contexts: containers take a stand-in serialisation (every literal compared
    against starts with a letter, so the verdict does not depend on the serialisation)."""
    t = J.to_text(v)
    return json.dumps(t.doc) if isinstance(t, J.JsonText) else t


def _und(*vals):
    return any(v is J.UNDEMANDED for v in vals)


def _ctx(fn, *convs):
    def f(v):
        xs = [c(v) for c in convs]
        if _und(*xs):
            return J.UNDEMANDED
        return fn(*xs)

    return f


def _concat_cast(v):
    t = J.to_text(v)
    return J.UNDEMANDED if isinstance(t, J.JsonText) else J.concat3(t, "x")


VALUE_OPS = [
    ("raw", "{x}", "json", lambda v: v, "extract"),
    ("varchar", "{x}::varchar", "text", J.to_text, "text"),
    ("string", "{x}::string", "text", J.to_text, "text"),
    ("upper", "upper({x})", "text", J.upper, "text"),
    ("lower", "lower({x})", "text", J.lower, "text"),
    ("trim", "trim({x})", "text", J.trim, "text"),
    ("number", "{x}::number", "num", J.to_number, "cast"),
    ("int", "{x}::int", "num", J.to_number, "cast"),
    ("float", "{x}::float", "num", J.to_float, "cast"),
    ("boolean", "{x}::boolean", "bool", J.to_boolean, "cast"),
    ("array_size", "array_size({x})", "num", J.array_size, "array_size"),
]

CAST_CTX = [
    ("c_eq", "{x}::varchar = 'Str'", "bool", _ctx(lambda t: J.cmp3(t, "=", "Str"), _T)),
    ("c_ne", "{x}::varchar <> 'Str'", "bool", _ctx(lambda t: J.cmp3(t, "<>", "Str"), _T)),
    ("c_gt", "{x}::float > -2", "bool", _ctx(lambda f: J.cmp3(f, ">", -2), J.to_float)),
    ("c_isnull", "{x}::varchar is null", "bool", _ctx(J.isnull, _T)),
    ("c_and", "{x}::varchar <> 's' and {x}::varchar <> 'Str'", "bool",
     _ctx(lambda t: J.and3(J.cmp3(t, "<>", "s"), J.cmp3(t, "<>", "Str")), _T)),
    ("c_or", "{x}::varchar = 'Str' or {x}::varchar is null", "bool",
     _ctx(lambda t: J.or3(J.cmp3(t, "=", "Str"), J.isnull(t)), _T)),
    ("c_not", "not {x}::varchar = 'Str'", "bool", _ctx(lambda t: J.not3(J.cmp3(t, "=", "Str")), _T)),
    ("c_notb", "not {x}::boolean", "bool", _ctx(J.not3, J.to_boolean)),
    ("c_plus", "{x}::int + 1", "num", _ctx(lambda n: J.add3(n, 1), J.to_number)),
    ("c_mul", "{x}::float * 2 + 1", "num", _ctx(lambda f: J.add3(J.mul3(f, 2), 1), J.to_float)),
    ("c_concat", "{x}::varchar || 'x'", "text", _concat_cast),
    ("c_in", "{x}::varchar in ('Str', 's')", "bool", _ctx(lambda t: J.in3(t, ["Str", "s"]), _T)),
    ("c_like", "{x}::varchar like 'S%'", "bool", _ctx(lambda t: J.like3(t, "S%"), _T)),
    ("c_rhs_eq", "'Str' = {x}::varchar", "bool", _ctx(lambda t: J.cmp3("Str", "=", t), _T)),
    ("c_rhs_plus", "1 + {x}::int * 2", "num", _ctx(lambda n: J.add3(1, J.mul3(n, 2)), J.to_number)),
    ("c_arith_cmp", "{x}::int + 1 = 1", "bool", _ctx(lambda n: J.cmp3(J.add3(n, 1), "=", 1), J.to_number)),
    ("c_band", "{x}::boolean and true", "bool", _ctx(lambda b: J.and3(b, True), J.to_boolean)),
    ("c_bor", "{x}::boolean or false", "bool", _ctx(lambda b: J.or3(b, False), J.to_boolean)),
    ("c_mix", "{x}::float > -2 and {x}::varchar <> 'Str'", "bool",
     _ctx(lambda f, t: J.and3(J.cmp3(f, ">", -2), J.cmp3(t, "<>", "Str")), J.to_float, _T)),
]  # fmt: skip


def _only(kinds, fn):
    """uncast context: demanded for a missing path (NULL operand) and for targets of the given kinds"""

    def f(v):
        k = J.kind_of(v)
        if k == "missing":
            return fn(None)
        if k in kinds:
            return fn(v)
        return J.UNDEMANDED

    return f


_STR, _NUM, _BOOL = ("str",), ("int", "float"), ("bool",)


def _u_isnull(v):
    k = J.kind_of(v)
    return True if k == "missing" else J.UNDEMANDED if k == "null" else False


UNCAST_CTX = [
    ("u_eq_s", "{x} = 'Str'", "bool", _only(_STR, lambda s: J.cmp3(s, "=", "Str"))),
    ("u_ne_s", "{x} <> 'Str'", "bool", _only(_STR, lambda s: J.cmp3(s, "<>", "Str"))),
    ("u_in_s", "{x} in ('Str', 's')", "bool", _only(_STR, lambda s: J.in3(s, ["Str", "s"]))),
    ("u_concat", "{x} || 'x'", "text", _only(_STR + _NUM, lambda v: J.concat3(J.to_text(v), "x"))),
    ("u_gt", "{x} > -2", "bool", _only(_NUM, lambda n: J.cmp3(n, ">", -2))),
    ("u_eq_n", "{x} = 0", "bool", _only(_NUM, lambda n: J.cmp3(n, "=", 0))),
    ("u_plus", "{x} + 1", "num", _only(_NUM, lambda n: J.add3(n, 1))),
    ("u_mul", "{x} * 2 + 1", "num", _only(_NUM, lambda n: J.add3(J.mul3(n, 2), 1))),
    ("u_isnull", "{x} is null", "bool", _u_isnull),
    ("u_not", "not {x}", "bool", _only(_BOOL, J.not3)),
    ("u_and", "{x} and true", "bool", _only(_BOOL, lambda b: J.and3(b, True))),
    ("u_or", "{x} or false", "bool", _only(_BOOL, lambda b: J.or3(b, False))),
]

OPS = {}
for _o in VALUE_OPS:
    OPS[_o[0]] = {"id": _o[0], "tpl": _o[1], "mode": _o[2], "ref": _o[3], "clause": _o[4]}
for _o in CAST_CTX:
    OPS[_o[0]] = {"id": _o[0], "tpl": _o[1], "mode": _o[2], "ref": _o[3], "clause": "context"}
for _o in UNCAST_CTX:
    OPS[_o[0]] = {"id": _o[0], "tpl": _o[1], "mode": _o[2], "ref": _o[3], "clause": "context_uncast"}
VALUE_IDS = [o[0] for o in VALUE_OPS]
ALL_IDS = VALUE_IDS + [o[0] for o in CAST_CTX] + [o[0] for o in UNCAST_CTX]


def ops_for(source, syntax):
    """the canonical (colon) rendering on the VARIANT column / the literal takes every op; all other renderings and the
    typed columns take the value ops"""
    if syntax == "colon" and source in ("v", "lit"):
        return ALL_IDS
    return VALUE_IDS


def expected(opid, target):
    return OPS[opid]["ref"](target)


def clause_of(opid, target):
    if target is J.MISSING:
        return "C11.missing"
    return "C11." + OPS[opid]["clause"]


# ======================================================================================================================
# real side
# ======================================================================================================================
_W: dict = {}


def _instance():
    import fakesnow.instance as inst

    fs = inst.FakeSnow()
    conn = fs.connect(database="db1", schema="s1")
    return fs, conn


def _load_docs(cur, docs):
    """table j(id, v VARIANT, o OBJECT, a ARRAY): every document through PARSE_JSON('<text>')"""
    cur.execute("create or replace table j (id int, v variant, o object, a array)")
    for i in range(0, len(docs), 400):
        rows = []
        for n, d in enumerate(docs[i : i + 400], start=i):
            t = _sqlstr(canon(d))
            rows.append(f"({n}, {t}, {t if isinstance(d, dict) else 'NULL'}, {t if isinstance(d, list) else 'NULL'})")
        cur.execute(
            "insert into j select column1, parse_json(column2), parse_json(column3), parse_json(column4) from values "
            + ", ".join(rows)
        )


def _world(tier):
    """one fakesnow instance per worker process and tier, table j loaded once (read-only afterwards)"""
    w = _W.get(tier)
    if w is None:
        from mc import observe

        fs, conn = _instance()
        cur = conn.cursor()
        docs = docs_for(tier)
        _load_docs(cur, docs)
        raw = observe.raw(fs)
        raw.execute("create or replace table db1.s1.kk (k tinyint, t integer, id integer)")
        w = _W[tier] = {"fs": fs, "conn": conn, "cur": cur, "docs": docs, "raw": raw, "kk": None}
    return w


def _exc_name(e):
    return f"{type(e).__module__}.{type(e).__name__}"


def run_exprs(cur, acc, exprs, pre, tail):
    """Evaluate `exprs` as one SELECT list (`pre` leading columns, `tail` = FROM/WHERE text). A raising statement is
    split in halves down to single expressions. Returns per expression ('ok', [(pre..., value), ...]) or ('err', cls)."""
    out = [None] * len(exprs)
    npre = len(pre)

    def go(lo, hi):
        sel = ", ".join(list(pre) + [f"{exprs[i]} as c{i}" for i in range(lo, hi)])
        acc.count("statements")
        try:
            cur.execute(f"select {sel}{tail}")
            rows = cur.fetchall()
        except Exception as e:  # noqa: BLE001  (any exception = the statement is rejected)
            if hi - lo == 1:
                out[lo] = ("err", _exc_name(e), str(e).split("\n")[0][:200])
                return
            acc.count("batches_split")
            mid = (lo + hi) // 2
            go(lo, mid)
            go(mid, hi)
            return
        for i in range(lo, hi):
            out[i] = ("ok", [(r[:npre], r[npre + i - lo]) for r in rows])

    if exprs:
        go(0, len(exprs))
    return out


BATCH = 40


def _chunks(xs, n):
    return [xs[i : i + n] for i in range(0, len(xs), n)]


# ---- classification --------------------------------------------------------------------------------------------------------
def outcome_kind(o):
    return "raises" if o[0] == "err" else o[0]


def classify(clause, f):
    """deterministic class key from the input shape `f` (dict of features); see CLASS_FEATURES"""
    return ",".join(f"{k}={f[k]}" for k in CLASS_FEATURES.get(clause, DEFAULT_FEATURES) if k in f)


DEFAULT_FEATURES = ("source", "syntax", "shape", "op", "kind")
CLASS_FEATURES: dict = {}

_DUMP = os.environ.get("C11_DUMP")


def _record(acc, clause, feats, n, nfail, example):
    cls = classify(clause, feats)
    m = acc.classes.setdefault((clause, cls), [0, 0])
    m[0] += n
    m[1] += nfail
    if nfail:
        detail, replay = example
        for _ in range(1):
            acc.violation(clause, cls, detail, replay)
        acc.viol[(clause, cls)]["count"] += nfail - 1
    if _DUMP:
        acc.results_dump.append((clause, dict(feats), n, nfail, example[0] if nfail else None))


# ---- column source ---------------------------------------------------------------------------------------------------------
KCODE = {k: i for i, k in enumerate(J.KINDS)}


def _targets(docs, source, steps):
    out = []
    for d in docs:
        if source == "o" and not isinstance(d, dict):
            out.append(J.MISSING)
        elif source == "a" and not isinstance(d, list):
            out.append(J.MISSING)
        else:
            out.append(J.navigate(d, steps))
    return out


def _set_kk(w, key, targets):
    """helper table kk(k = kind code, t = id of the distinct target value, id = document row) for the current path"""
    if w["kk"] == key:
        return w["kkinfo"]
    import pyarrow as pa

    vals = {}
    ks, ts = [], []
    for t in targets:
        c = canon(t)
        if c not in vals:
            vals[c] = len(vals)
        ks.append(KCODE[J.kind_of(t)])
        ts.append(vals[c])
    raw = w["raw"]
    tbl = pa.table({"k": pa.array(ks, pa.int8()), "t": pa.array(ts, pa.int32()), "id": pa.array(range(len(ks)), pa.int32())})  # noqa: F841
    raw.execute("delete from db1.s1.kk")
    raw.register("kk_arrow", tbl)
    raw.execute("insert into db1.s1.kk select * from kk_arrow")
    raw.unregister("kk_arrow")
    w["kk"] = key
    w["kkinfo"] = (ks, ts)
    return w["kkinfo"]


def _cell_ok(mode, exp, got_rows, ident):
    """got_rows: list of values fetched for row `ident` (exactly one expected)"""
    if len(got_rows) != 1:
        return False
    return J.matches(mode, exp, got_rows[0])


def work_col(item, acc, tier):
    """item = ('col', source, path index): every syntax x op of that path on every document row"""
    _, source, pi = item
    w = _world(tier)
    docs, cur = w["docs"], w["cur"]
    steps = paths_for(tier)[pi]
    targets = _targets(docs, source, steps)
    ks, ts = _set_kk(w, (source, pi), targets)
    by_kind: dict = {}
    for i, k in enumerate(ks):
        by_kind.setdefault(k, []).append(i)
    syntaxes = SYNTAXES if source == "v" else ["colon", "bracket"]
    for sy, xsql in renderings(source, steps, syntaxes):
        for kc in sorted(by_kind):
            ids = by_kind[kc]
            kind = J.KINDS[kc]
            # ops demanded for this kind (the reference decides per value; demandedness only depends on the kind)
            t0 = targets[ids[0]]
            opids = [o for o in ops_for(source, sy) if expected(o, t0) is not J.UNDEMANDED]
            tail = f" from j where id in (select id from kk where k = {kc})"
            results = {}
            for ch in _chunks(opids, BATCH):
                exprs = [OPS[o]["tpl"].format(x=xsql) for o in ch]
                for o, r in zip(ch, run_exprs(cur, acc, exprs, ["id"], tail)):
                    results[o] = r
            # a single raising expression: does the error depend on the data? if so refine per distinct target value
            per_id = {}
            for o in opids:
                r = results[o]
                if r[0] == "ok":
                    got = {}
                    for (i,), v in r[1]:
                        got.setdefault(i, []).append(v)
                    per_id[o] = {i: ("ok", got.get(i, [])) for i in ids}
                    continue
                e = OPS[o]["tpl"].format(x=xsql)
                tvals = sorted({ts[i] for i in ids})
                if len(tvals) > 1:
                    r0 = run_exprs(cur, acc, [e], ["id"], " from j where id in (select id from kk where k = -1)")[0]
                else:
                    r0 = r
                if r0[0] == "err":
                    per_id[o] = {i: r for i in ids}
                    continue
                acc.count("refined_per_value")
                d = {}
                for tv in tvals:
                    rr = run_exprs(cur, acc, [e], ["id"], f" from j where id in (select id from kk where k = {kc} and t = {tv})")[0]
                    sub = [i for i in ids if ts[i] == tv]
                    if rr[0] == "ok":
                        got = {}
                        for (i,), v in rr[1]:
                            got.setdefault(i, []).append(v)
                        for i in sub:
                            d[i] = ("ok", got.get(i, []))
                    else:
                        for i in sub:
                            d[i] = rr
                per_id[o] = d
            # verdicts; ops over an extraction that itself fails on a row are shadowed by the extraction's verdict
            bad_raw = set()
            for o in opids:
                op = OPS[o]
                n = nfail = nshadow = 0
                example = None
                obs_sig = []
                for i in ids:
                    if o != "raw" and i in bad_raw:
                        nshadow += 1
                        continue
                    exp = expected(o, targets[i])
                    r = per_id[o][i]
                    ok = r[0] == "ok" and _cell_ok(op["mode"], exp, r[1], i)
                    n += 1
                    obs_sig.append((i, r[0], r[1] if r[0] == "ok" else r[1]))
                    if exp is not None and exp is not J.MISSING:
                        acc.nontrivial((source, sy, steps, o, canon(targets[i])))
                    if not ok:
                        nfail += 1
                        if o == "raw":
                            bad_raw.add(i)
                        if example is None:
                            example = (
                                {"sql": f"select {op['tpl'].format(x=xsql)} from j", "document": docs[i],
                                 "expected": repr(exp), "observed": core.jsonable(r if r[0] == "err" else r[1])},
                                {"mode": "col", "source": source, "doc": docs[i], "steps": list(steps), "syntax": sy, "op": o},
                            )  # fmt: skip
                acc.count("evaluations", n)
                acc.count("shadowed_by_failed_extraction", nshadow)
                acc.obs((source, steps, sy, kind, o, obs_sig))
                if n:
                    tgt = targets[ids[0]]
                    feats = {"source": source, "syntax": sy, "shape": shape_of(steps), "op": o, "kind": kind}
                    _record(acc, clause_of(o, tgt), feats, n, nfail, example)
                    acc.outcome((o, kind, "fail" if nfail else "ok"))
    if pi % 97 == 0:
        acc.sample({"source": source, "path": list(steps), "renderings": renderings(source, steps, syntaxes), "documents": len(docs)})
    return None


def work(item, acc, tier):
    if not hasattr(acc, "results_dump"):
        acc.results_dump = []
    if item[0] == "col":
        work_col(item, acc, tier)
    else:
        raise core.HarnessError(f"unknown item {item!r}")
    if _DUMP:
        with open(_DUMP, "a") as f:
            for rec in acc.results_dump:
                f.write(json.dumps(core.jsonable(rec)) + "\n")
        acc.results_dump = []
    return None


def run(ctx: core.Ctx):
    tier = ctx.tier
    npaths = len(paths_for(tier))
    items = [("col", "v", pi) for pi in range(npaths)]
    ctx.pmap(work, items)
    ctx.exhaustive = True


def replay(payload):
    raise NotImplementedError
