"""C11 — VARIANT/OBJECT/ARRAY values behave as JSON documents.

Engine E2 (exhaustive product), level "exploration", exhaustive over the finite space written out below:

  col   DOCS(tier) x PATHS(tier) x SYNTAXES x OPS   on a table column (VARIANT; the OBJECT/ARRAY typed columns take the
                                                    value ops): one SQL expression per (path, syntax, op), evaluated by
                                                    the engine on every document row of the table at once
  flat  DOCS x PATHS x FLATTEN columns              LATERAL FLATTEN(input => <extraction>) [alias] over the table
  lit   LDOCS(tier) x relevant paths x OPS          the same extractions on a PARSE_JSON('<text>') literal (one SELECT
                                                    list per document)
  ctor  CDOCS(tier) x 2 constructor styles x paths  OBJECT_CONSTRUCT + [..] literal / OBJECT_CONSTRUCT_KEEP_NULL +
                                                    ARRAY_CONSTRUCT
  misc  explicit lists                              PARSE_JSON / TRY_PARSE_JSON texts (valid, invalid, NULL), NULL keys,
                                                    SPLIT strings x separators (value, element, size, FLATTEN), FLATTEN
                                                    of literals
  fval  FVAL_DOCS x 4 flattened inputs x 5 namings   operations on the VALUE column of LATERAL FLATTEN (bare / f.value, with and
        x (value ops, text functions, contexts)     without flatten alias, with and without table alias; arrays of padded and
                                                    escaped strings, numbers, booleans, nulls, containers; SPLIT results):
                                                    every value op, UPPER/LOWER/TRIM/LTRIM/RTRIM with and without characters,
                                                    cast and uncast operator contexts in the select list, and every boolean
                                                    context as the WHERE clause; reference = the Python list
  fvalx FVAL_DOCS x flattened inputs x 2 exports x   the same operations where the VALUE is consumed *outside* the SELECT that
        8 consumers x (the same ops)                holds the FLATTEN: the flattened rows are exported by a CTE / a derived
                                                    table in FROM / a view and every op, text function, context and WHERE
                                                    predicate is applied in the outer query, the column written unqualified,
                                                    qualified by the CTE / view name, and qualified by an outer alias
  route ROUTE_DOCS (every JSON escape) x texts x     the route of the document into a VARIANT column: SQL literal ('' and \' quote
        ROUTES x relevant paths x ops                escapes, $$..$$), bound parameter (%s, %(name)s, ?), executemany, session
                                                    variable (SET doc = '..' then INSERT .. PARSE_JSON($doc) / TRY_PARSE_JSON /
                                                    PARSE_JSON($doc):path directly), write_pandas of dicts and lists (documents
                                                    first, after a NULL / a string / a number first row, NULL last, reversed);
                                                    then the navigation battery on the column
  nest  NEST_DOCS x inner path x inner syntax       nested navigation: OUTER_OP( WRAPPER( INNER_PATH(v) ) OUTER_PATH ), a path
        x NEST_WRAPPERS x outer path x outer        + conversion whose base is itself built from another path (+ conversion)
        syntax x outer op                           of the document: PARSE_JSON / TRY_PARSE_JSON of a string-valued path
                                                    (documents holding JSON text as a string: double-encoded payloads),
                                                    OBJECT_CONSTRUCT[_KEEP_NULL] / ARRAY_CONSTRUCT / [..] of an extracted
                                                    value, IFF / CASE / COALESCE whose condition or branch holds an
                                                    extraction, a path on a subquery / CTE column that was itself
                                                    extracted; colon, bracket and GET_PATH syntax inside and outside; on
                                                    the table column (all rows at once) and on a PARSE_JSON literal

  sess  families of statements differing in letter   one session per history: every permutation of the statements of a family
        case only x all permutations               (the key of a path step at depth 1 / 2 in colon, quoted, bracket and
                                                    GET_PATH syntax x ops and as WHERE; the text of a $$..$$ / '..' document;
                                                    the compared string literal), each answer = Python navigation whatever
                                                    the session ran before

The reference is mc/ref/json_nav.py: Python navigation of the json.loads-ed document plus Snowflake's documented
conversions; expectations never come from fakesnow.

Batching: the expressions of one (path, syntax, target kind) -- resp. of one document for the literal sources -- go
into one SELECT list; whenever such a statement raises it is split in halves recursively down to one expression per
statement, so a raising expression always ends up alone in its own statement and cannot mask the others. A single
expression that raises on a row set is re-run per distinct target value unless it also raises on the empty row set
(then the error does not depend on the data).

Dependencies: an operation over an extraction is only judged on rows where the bare extraction (and, for the cast
contexts, the cast it contains) is itself right; otherwise the cell is counted as shadowed and the failure is
reported once, where it originates.

Clauses
  C11.extract         (1) extraction = navigated value, as a JSON document (strings keep their JSON quotes)
  C11.text            (2) ::VARCHAR/::STRING/UPPER/LOWER/TRIM give the raw text (quotes lost exactly there)
  C11.missing         (3) any operation over a missing path / wrong-kind step is NULL (IS NULL: TRUE)
  C11.cast                number casts of numbers, BOOLEAN of booleans
  C11.construct           PARSE_JSON / TRY_PARSE_JSON / array literal / ARRAY_CONSTRUCT / OBJECT_CONSTRUCT documents
  C11.object_construct(4) OBJECT_CONSTRUCT drops NULL-valued (and NULL-keyed) pairs, _KEEP_NULL keeps NULL values
  C11.array_size      (5) len for arrays (0 for empty), NULL for anything else
  C11.flatten         (6) every element once, in order; no row for empty / missing / JSON null
  C11.context         (7) operator context over a cast extraction = context applied to the navigated value (3VL)
  C11.context_uncast  (7) the same over the bare extraction where the operator matches the value's kind
  C11.split               SPLIT gives the list of parts (a JSON array of strings)
  C11.nested          (1,2,7) nested navigation = the composition of the Python navigations
  C11.session         (1,2,3) the answer to a statement is the navigated value whatever the session ran before (statements
                          that differ from earlier ones in letter case only: JSON keys and JSON text are case-sensitive)
  C11.route           (1,2,3) whatever the route by which a document reached the column / the engine, it navigates like
                          the Python document

Not demanded (deliberately left open: Snowflake raises or is not documented unambiguously):
  * casts of strings / containers to NUMBER, INT, FLOAT, BOOLEAN, of booleans to numbers, of numbers to BOOLEAN;
  * UPPER/LOWER of a non-empty container (changes the letters inside the JSON text), `|| 'x'` on a container;
  * operator contexts over an *uncast* extraction whose kind does not match the operator (string + 1, ...), and
    IS NULL / comparisons over an uncast JSON null (JSON null and SQL NULL are both None here); uncast LIKE;
  * FLATTEN of objects and scalars, FLATTEN's INDEX/KEY/PATH/SEQ/THIS columns, TABLE(FLATTEN(...)), positional input;
  * whitespace / key order of JSON text; the Python type of numbers (int/float/Decimal) and of constructor results;
  * dot after a bracket outside a colon path (v[0].a), GET_PATH with a leading index, GET(), negative indices,
    object constants {'a': 1}, PARSE_JSON of '' / single-quoted JSON / trailing commas (Snowflake is lenient there);
  * two or more brackets written directly on a PARSE_JSON(..) literal or on a constructor call (PARSE_JSON('..')[0][1],
    [[1]][0][0]): explored on the table columns only -- on literals DuckDB types the intermediate value differently
    and the same defect (only the last bracket is rewritten) shows up in other, typing-dependent ways; likewise, in
    the nested layer, an inner [index] inside the base of an outer bracket (parse_json(v[1]::varchar)['a']) is not
    explored -- the ['key'] shape of the same defect is;
  * nested layer: PARSE_JSON of an *uncast* extraction, of '' and of text that is not JSON (Snowflake raises / is
    lenient); text or number conversions directly on a wrapper's value (PARSE_JSON(..)::VARCHAR: the un-nested 'root'
    shape, reported under C11.text); the text of a container put into a constructor; COALESCE over a JSON null.
"""
from __future__ import annotations

import itertools
import json
import os

from mc import core
from mc.ref import json_nav as J

PID = "C11"
LEVEL = "exploration"

# ======================================================================================================================
# alphabets (written out)
# ======================================================================================================================
ATOMS = [None, True, 0, -1.5, "s", "Str", 'q"', "", [], {}]
ATOMS_QUICK = [None, True, 0, -1.5, "Str", 'q"', [], {}]
KEY1, KEY2 = "a", "B"  # first key lower case, second upper case: the case variants are "A" and "b"
FILL = "s"  # sibling next to the spine child in documents of depth >= 2
SMALL_ATOMS = [0, "Str"]  # thorough: complete closure to depth 2 over these

STEPS = {"quick": ["a", "B", "A", "zz", 0, 1, 2], "thorough": ["a", "B", "A", "b", "zz", 0, 1, 2]}
MAXLEN = {"quick": 2, "thorough": 3}
# quick additionally takes these paths of length 3 (every combination of step kinds, plus negatives)
QUICK_LONG = [
    ("a", "a", "a"), ("a", "B", 0), ("a", 0, "B"), ("a", 1, 0), (0, "a", "B"), (0, "a", 1), (1, 0, "a"), (0, 1, 0),
    ("a", "a", "zz"), ("a", 0, 2), (0, "a", "A"),
]  # fmt: skip

FRAMES = ["A1", "A2L", "A2R", "O1", "O2L", "O2R"]
FRAMES_QUICK = ["A1", "A2R", "O1", "O2R"]
CHAIN_ATOMS = {
    "quick": {2: [None, "Str", -1.5, []], 3: ["Str", 0]},
    "thorough": {2: ATOMS, 3: ATOMS},
}
LIT_ATOMS = {"quick": ["Str", -1.5, []], "thorough": ATOMS}  # literal source: depth <= 1 over these ...
LIT_CHAIN_ATOMS = {"quick": [], "thorough": [None, "Str", 0, []]}  # ... plus 2-frame chains ending in these


def frame(f, child, sib):
    if f == "A1":
        return [child]
    if f == "A2L":
        return [child, sib]
    if f == "A2R":
        return [sib, child]
    if f == "O1":
        return {KEY1: child}
    if f == "O2L":
        return {KEY1: child, KEY2: sib}
    if f == "O2R":
        return {KEY1: sib, KEY2: child}
    raise ValueError(f)


def canon(doc) -> str:
    if doc is J.MISSING:
        return "\x00missing"
    return json.dumps(doc, sort_keys=False, separators=(",", ":"))


def _containers(children):
    """all arrays / objects of width 1..2 over `children`"""
    out = []
    for x in children:
        out.append([x])
        out.append({KEY1: x})
    for x in children:
        for y in children:
            out.append([x, y])
            out.append({KEY1: x, KEY2: y})
    return out


def _dedupe(docs):
    seen, out = set(), []
    for d in docs:
        c = canon(d)
        if c not in seen:
            seen.add(c)
            out.append(d)
    return out


def _chains(frames, depth, atoms):
    out = []
    for fs in itertools.product(frames, repeat=depth):
        for a in atoms:
            d = a
            for f in reversed(fs):
                d = frame(f, d, FILL)
            out.append(d)
    return out


def docs_for(tier):
    """The document set of the table: (i) every document of depth <= 1 and width <= 2 over the atoms; (ii) every chain
    of 2..3 container frames (array/object, width 1 or 2, spine child first or second, sibling = FILL) ending in an
    atom; (iii) thorough: every document of depth <= 2, width <= 2 over SMALL_ATOMS."""
    atoms = ATOMS if tier == "thorough" else ATOMS_QUICK
    frames = FRAMES if tier == "thorough" else FRAMES_QUICK
    out = list(atoms) + _containers(atoms)
    for depth in (2, 3):
        out += _chains(frames, depth, CHAIN_ATOMS[tier][depth])
    if tier == "thorough":
        out += _containers(list(SMALL_ATOMS) + _containers(SMALL_ATOMS))
    return _dedupe(out)


def lit_docs_for(tier):
    atoms = LIT_ATOMS[tier]
    frames = FRAMES if tier == "thorough" else FRAMES_QUICK
    return _dedupe(list(atoms) + _containers(atoms) + _chains(frames, 2, LIT_CHAIN_ATOMS[tier]))


CTOR_ATOMS = {"quick": [None, True, 0, -1.5, "Str", [], {}], "thorough": ATOMS}
CTOR_CHAIN_ATOMS = {"quick": [None, "Str"], "thorough": ATOMS}


# OBJECT_CONSTRUCT argument lists with runs of adjacent NULL-valued pairs (N) among non-NULL ones (v), at the start, in the
# middle and at the end; "NvN" is the non-adjacent control
NULLRUN_PATTERNS = {
    "quick": ["NN", "NNv", "vNN", "vNNv", "NNNv", "vNNNv"],
    "thorough": ["NN", "NNN", "NNv", "vNN", "vNNv", "NNNv", "vNNN", "vNNNv", "NvN", "NNvNN", "vNNvNNNv"],
}


def nullrun_docs(tier):
    """the patterns as objects k1..kn (top level), and -- nested -- as the value of a pair and as an array element"""
    out = []
    for pat in NULLRUN_PATTERNS[tier]:
        d = {f"k{n + 1}": (None if c == "N" else 1) for n, c in enumerate(pat)}
        out.append(d)
        if tier == "thorough" or pat in ("vNNv", "NNNv"):
            out += [{"k0": d}, [d]]
    return out


def ctor_docs_for(tier):
    """constructor documents: the containers of depth <= 1 over the atoms, the 2-frame chains, the NULL-run objects"""
    frames = FRAMES if tier == "thorough" else FRAMES_QUICK
    return _dedupe([[], {}] + _containers(CTOR_ATOMS[tier]) + _chains(frames, 2, CTOR_CHAIN_ATOMS[tier]) + nullrun_docs(tier))


def paths_for(tier):
    st = STEPS[tier]
    out = [()]
    for n in range(1, MAXLEN[tier] + 1):
        out += list(itertools.product(st, repeat=n))
    if tier == "quick":
        out += QUICK_LONG
    return out


def relevant_paths(doc, maxlen=3):
    """every path that exists in `doc`, plus, from every existing node: a missing key, the case variant of each
    present key, the first index out of range, and a wrong-kind step (key on a non-object, index on a non-array)"""
    out = [()]

    def walk(node, pre):
        if len(pre) >= maxlen:
            return
        neg = []
        if isinstance(node, dict):
            for k in node:
                out.append(pre + (k,))
                walk(node[k], pre + (k,))
                neg.append(k.swapcase())
            neg += ["zz", 0]
        elif isinstance(node, list):
            for i, x in enumerate(node):
                out.append(pre + (i,))
                walk(x, pre + (i,))
            neg += [len(node), KEY1]
        else:
            neg += [KEY1, 0]
        for s in neg:
            out.append(pre + (s,))

    walk(doc, ())
    seen, res = set(), []
    for p in out:
        if p not in seen:
            seen.add(p)
            res.append(p)
    return res


# ---- path syntaxes -------------------------------------------------------------------------------------------------------
def _sqlstr(s: str) -> str:
    """Snowflake single-quoted literal (backslash is an escape character there)."""
    return "'" + s.replace("\\", "\\\\").replace("'", "''") + "'"


def _render(src, steps, style):
    """-> (sql, form) or None. form names the *written shape* of the access: the kinds of the brackets applied
    directly to the source before any colon ('K' = ['key'], 'I' = [index]), then ':p' if a colon path follows;
    'p' = a pure colon path (dots, inner [index] and ['key'] after the colon included); 'G' = GET_PATH."""
    if style == "getpath":
        if not steps or not isinstance(steps[0], str):
            return None
        p = ""
        for s in steps:
            p += (("." if p else "") + s) if isinstance(s, str) else f"[{s}]"
        return f"get_path({src}, {_sqlstr(p)})", "G"
    out = src
    seen_colon = False
    lead = ""
    for s in steps:
        if isinstance(s, int):
            out += f"[{s}]"
            if not seen_colon:
                lead += "I"
        elif style == "bracket" or (style == "mixed" and seen_colon):
            out += f"[{_sqlstr(s)}]"
            if not seen_colon:
                lead += "K"
        else:
            k = f'"{s}"' if style == "quoted" else s
            out += (":" if (not seen_colon or style == "colon2") else ".") + k
            seen_colon = True
    form = (lead + (":p" if seen_colon and lead else "")) or ("p" if seen_colon else "root")
    return out, form


SYNTAXES = ["colon", "bracket", "mixed", "colon2", "quoted", "getpath"]


def renderings(src, steps, syntaxes=SYNTAXES):
    """[(syntax, sql, form)] with textually identical renderings listed once (under the first syntax producing them)."""
    out, seen = [], set()
    for sy in syntaxes:
        r = _render(src, steps, sy)
        if r is None or r[0] in seen:
            continue
        seen.add(r[0])
        out.append((sy, r[0], r[1]))
    return out


def shape_of(steps) -> str:
    return "".join("k" if isinstance(s, str) else "i" for s in steps) or "root"


def formclass(form: str) -> str:
    """coarse written shape used in class keys: p | G | root | b1 (one bracket on the source) | b1:p (one bracket, then a
    colon path) | bb.K / bb.I (two or more brackets on the source; .K if a bracket before the last one is a ['key'],
    .I if those are all [index])"""
    if form in ("p", "G", "root"):
        return form
    lead, _, rest = form.partition(":")
    if len(lead) == 1:
        return "b1:p" if rest else "b1"
    return "bb.K" if "K" in lead[:-1] else "bb.I"


def formclass_ops(form: str) -> str:
    """formclass as far as operations on top of the extraction are concerned: 'b' = the last step is a bracket written
    on the source or on another such bracket (b1, bb.I, bb.K)"""
    fc = formclass(form)
    return "b" if fc in ("b1", "bb.I", "bb.K") else fc


def shifted_steps(steps, form):
    """bb.I forms: the path with every [index] before the last leading bracket moved up by one (the explanation probed
    for index chains: v[0][1] answers what v[1][1] should)"""
    nlead = len(form.partition(":")[0])
    return tuple(s + 1 if (n < nlead - 1 and isinstance(s, int)) else s for n, s in enumerate(steps))


def shift_feature(doc, steps, form):
    """'same' if the shifted path leads to the same value as the written one (then a shifted evaluation is right by
    coincidence), else 'differs'; only defined for bb.I forms"""
    if formclass(form) != "bb.I":
        return None
    a, b = J.navigate(doc, steps), J.navigate(doc, shifted_steps(steps, form))
    a = None if a is J.MISSING else a
    b = None if b is J.MISSING else b
    return "same" if J.json_equal(a, b) else "differs"


# ======================================================================================================================
# operations: id -> SQL template over the extraction {x}, comparison mode, reference, clause, deps (value ops whose
# verdict must be "right" on a row before this op is judged there)
# ======================================================================================================================
def _T(v):
    """text cast for use inside comparison contexts: containers take a stand-in serialisation (every literal compared
    against starts with a letter, so the verdict does not depend on the serialisation)."""
    t = J.to_text(v)
    return json.dumps(t.doc) if isinstance(t, J.JsonText) else t


def _ctx(fn, *convs):
    def f(v):
        xs = [c(v) for c in convs]
        if any(x is J.UNDEMANDED for x in xs):
            return J.UNDEMANDED
        return fn(*xs)

    return f


def _concat_cast(v):
    t = J.to_text(v)
    return J.UNDEMANDED if isinstance(t, J.JsonText) else J.concat3(t, "x")


VALUE_OPS = [
    ("raw", "{x}", "json", lambda v: v, "extract"),
    ("varchar", "{x}::varchar", "text", J.to_text, "text"),
    ("string", "{x}::string", "text", J.to_text, "text"),
    ("upper", "upper({x})", "text", J.upper, "text"),
    ("lower", "lower({x})", "text", J.lower, "text"),
    ("trim", "trim({x})", "text", J.trim, "text"),
    ("number", "{x}::number", "num", J.to_number, "cast"),
    ("int", "{x}::int", "num", J.to_number, "cast"),
    ("float", "{x}::float", "num", J.to_float, "cast"),
    ("boolean", "{x}::boolean", "bool", J.to_boolean, "cast"),
    ("array_size", "array_size({x})", "num", J.array_size, "array_size"),
]

CAST_CTX = [
    ("c_eq", "{x}::varchar = 'Str'", "bool", _ctx(lambda t: J.cmp3(t, "=", "Str"), _T), ("varchar",)),
    ("c_ne", "{x}::varchar <> 'Str'", "bool", _ctx(lambda t: J.cmp3(t, "<>", "Str"), _T), ("varchar",)),
    ("c_gt", "{x}::float > -2", "bool", _ctx(lambda f: J.cmp3(f, ">", -2), J.to_float), ("float",)),
    ("c_isnull", "{x}::varchar is null", "bool", _ctx(J.isnull, _T), ("varchar",)),
    ("c_and", "{x}::varchar <> 's' and {x}::varchar <> 'Str'", "bool",
     _ctx(lambda t: J.and3(J.cmp3(t, "<>", "s"), J.cmp3(t, "<>", "Str")), _T), ("varchar",)),
    ("c_or", "{x}::varchar = 'Str' or {x}::varchar is null", "bool",
     _ctx(lambda t: J.or3(J.cmp3(t, "=", "Str"), J.isnull(t)), _T), ("varchar",)),
    ("c_not", "not {x}::varchar = 'Str'", "bool", _ctx(lambda t: J.not3(J.cmp3(t, "=", "Str")), _T), ("varchar",)),
    ("c_notb", "not {x}::boolean", "bool", _ctx(J.not3, J.to_boolean), ("boolean",)),
    ("c_plus", "{x}::int + 1", "num", _ctx(lambda n: J.add3(n, 1), J.to_number), ("int",)),
    ("c_mul", "{x}::float * 2 + 1", "num", _ctx(lambda f: J.add3(J.mul3(f, 2), 1), J.to_float), ("float",)),
    ("c_concat", "{x}::varchar || 'x'", "text", _concat_cast, ("varchar",)),
    ("c_in", "{x}::varchar in ('Str', 's')", "bool", _ctx(lambda t: J.in3(t, ["Str", "s"]), _T), ("varchar",)),
    ("c_like", "{x}::varchar like 'S%'", "bool", _ctx(lambda t: J.like3(t, "S%"), _T), ("varchar",)),
    ("c_rhs_eq", "'Str' = {x}::varchar", "bool", _ctx(lambda t: J.cmp3("Str", "=", t), _T), ("varchar",)),
    ("c_rhs_plus", "1 + {x}::int * 2", "num", _ctx(lambda n: J.add3(1, J.mul3(n, 2)), J.to_number), ("int",)),
    ("c_arith_cmp", "{x}::int + 1 = 1", "bool", _ctx(lambda n: J.cmp3(J.add3(n, 1), "=", 1), J.to_number), ("int",)),
    ("c_band", "{x}::boolean and true", "bool", _ctx(lambda b: J.and3(b, True), J.to_boolean), ("boolean",)),
    ("c_bor", "{x}::boolean or false", "bool", _ctx(lambda b: J.or3(b, False), J.to_boolean), ("boolean",)),
    ("c_mix", "{x}::float > -2 and {x}::varchar <> 'Str'", "bool",
     _ctx(lambda f, t: J.and3(J.cmp3(f, ">", -2), J.cmp3(t, "<>", "Str")), J.to_float, _T), ("float", "varchar")),
]  # fmt: skip


def _only(kinds, fn):
    """uncast context: demanded for a missing path (NULL operand) and for targets of the given kinds"""

    def f(v):
        k = J.kind_of(v)
        if k == "missing":
            return fn(None)
        if k in kinds:
            return fn(v)
        return J.UNDEMANDED

    return f


_STR, _NUM, _BOOL = ("str",), ("int", "float"), ("bool",)


def _u_isnull(v):
    k = J.kind_of(v)
    return True if k == "missing" else J.UNDEMANDED if k == "null" else False


UNCAST_CTX = [
    ("u_eq_s", "{x} = 'Str'", "bool", _only(_STR, lambda s: J.cmp3(s, "=", "Str"))),
    ("u_ne_s", "{x} <> 'Str'", "bool", _only(_STR, lambda s: J.cmp3(s, "<>", "Str"))),
    ("u_in_s", "{x} in ('Str', 's')", "bool", _only(_STR, lambda s: J.in3(s, ["Str", "s"]))),
    ("u_concat", "{x} || 'x'", "text", _only(_STR + _NUM, lambda v: J.concat3(J.to_text(v), "x"))),
    ("u_gt", "{x} > -2", "bool", _only(_NUM, lambda n: J.cmp3(n, ">", -2))),
    ("u_eq_n", "{x} = 0", "bool", _only(_NUM, lambda n: J.cmp3(n, "=", 0))),
    ("u_plus", "{x} + 1", "num", _only(_NUM, lambda n: J.add3(n, 1))),
    ("u_mul", "{x} * 2 + 1", "num", _only(_NUM, lambda n: J.add3(J.mul3(n, 2), 1))),
    ("u_isnull", "{x} is null", "bool", _u_isnull),
    ("u_not", "not {x}", "bool", _only(_BOOL, J.not3)),
    ("u_and", "{x} and true", "bool", _only(_BOOL, lambda b: J.and3(b, True))),
    ("u_or", "{x} or false", "bool", _only(_BOOL, lambda b: J.or3(b, False))),
]

# further text functions: on the canonical rendering of every path, and on the FLATTEN VALUE column
TEXT_FN_OPS = [
    ("ltrim", "ltrim({x})", "text", J.ltrim, "text"),
    ("rtrim", "rtrim({x})", "text", J.rtrim, "text"),
    ("trim_chars", "trim({x}, 'S ')", "text", J.trim_fn("b", "S "), "text"),
    ("ltrim_chars", "ltrim({x}, ' p')", "text", J.trim_fn("l", " p"), "text"),
    ("rtrim_chars", "rtrim({x}, 'r ')", "text", J.trim_fn("r", "r "), "text"),
    ("c_trim_eq", "trim({x}) = 'pad'", "bool", _ctx(lambda t: J.cmp3(t, "=", "pad"), lambda v: _T(v).strip(" ") if isinstance(_T(v), str) else _T(v)), "context"),
    ("c_upper_eq", "upper({x}::varchar) = 'STR'", "bool", _ctx(lambda t: J.cmp3(t, "=", "STR"), lambda v: _T(v).upper() if isinstance(_T(v), str) else _T(v)), "context"),
]  # fmt: skip

OPS = {}
for _o in TEXT_FN_OPS:
    OPS[_o[0]] = {"id": _o[0], "tpl": _o[1], "mode": _o[2], "ref": _o[3], "clause": _o[4], "deps": ("raw", "varchar") if _o[0] == "c_upper_eq" else ("raw",)}  # fmt: skip
for _o in VALUE_OPS:
    OPS[_o[0]] = {"id": _o[0], "tpl": _o[1], "mode": _o[2], "ref": _o[3], "clause": _o[4], "deps": () if _o[0] == "raw" else ("raw",)}  # fmt: skip
for _o in CAST_CTX:
    OPS[_o[0]] = {"id": _o[0], "tpl": _o[1], "mode": _o[2], "ref": _o[3], "clause": "context", "deps": ("raw",) + _o[4]}
for _o in UNCAST_CTX:
    OPS[_o[0]] = {"id": _o[0], "tpl": _o[1], "mode": _o[2], "ref": _o[3], "clause": "context_uncast", "deps": ("raw",)}
VALUE_IDS = [o[0] for o in VALUE_OPS]
TEXT_FN_IDS = [o[0] for o in TEXT_FN_OPS]
ALL_IDS = VALUE_IDS + TEXT_FN_IDS + [o[0] for o in CAST_CTX] + [o[0] for o in UNCAST_CTX]
LEVELS = [["raw"], VALUE_IDS[1:], TEXT_FN_IDS + [o[0] for o in CAST_CTX] + [o[0] for o in UNCAST_CTX]]


def expected(opid, target):
    return OPS[opid]["ref"](target)


def clause_of(opid, target):
    if target is J.MISSING and (opid in VALUE_IDS or OPS[opid]["clause"] == "text"):
        return "C11.missing"
    return "C11." + OPS[opid]["clause"]


# ---- expected values <-> JSON (for replay files) -------------------------------------------------------------------------
def enc(mode, exp):
    if exp is None or exp is J.MISSING:
        return {"null": True}
    if mode == "json":
        return {"json": exp}
    if mode == "text":
        return {"jsontext": exp.doc} if isinstance(exp, J.JsonText) else {"text": exp}
    if mode == "num":
        return {"num": str(exp)}
    if mode == "bool":
        return {"bool": exp}
    raise ValueError(mode)


def dec(e):
    """-> (mode, expected)"""
    if "null" in e:
        return "json", None
    if "json" in e:
        return "json", e["json"]
    if "jsontext" in e:
        return "text", J.JsonText(e["jsontext"])
    if "text" in e:
        return "text", e["text"]
    if "num" in e:
        import decimal

        return "num", decimal.Decimal(e["num"])
    if "bool" in e:
        return "bool", e["bool"]
    raise ValueError(e)


# ======================================================================================================================
# real side
# ======================================================================================================================
_W: dict = {}
_DUMP = os.environ.get("C11_DUMP")
BATCH = 40


def _instance():
    import fakesnow.instance as inst

    fs = inst.FakeSnow()
    conn = fs.connect(database="db1", schema="s1")
    return fs, conn


def load_sql(docs):
    """statements creating table j(id, v VARIANT, o OBJECT, a ARRAY) with every document through PARSE_JSON('<text>')"""
    out = ["create or replace table j (id int, v variant, o object, a array)"]
    for i in range(0, len(docs), 400):
        rows = []
        for n, d in enumerate(docs[i : i + 400], start=i):
            t = _sqlstr(canon(d))
            rows.append(f"({n}, {t}, {t if isinstance(d, dict) else 'NULL'}, {t if isinstance(d, list) else 'NULL'})")
        out.append(
            "insert into j select column1, parse_json(column2), parse_json(column3), parse_json(column4) from values "
            + ", ".join(rows)
        )
    return out


def _world(tier):
    """one fakesnow instance per worker process and tier; table j loaded once (read-only afterwards)"""
    w = _W.get(tier)
    if w is None:
        from mc import observe

        fs, conn = _instance()
        cur = conn.cursor()
        docs = docs_for(tier)
        for s in load_sql(docs):
            cur.execute(s)
        raw = observe.raw(fs)
        raw.execute("set threads = 1")  # 16 worker processes: keep DuckDB from oversubscribing the cores (no effect on results)
        raw.execute("create or replace table db1.s1.kk (k tinyint, t integer, id integer, x boolean)")
        for s in split_setup(range(len(SPLIT_STRINGS))):
            cur.execute(s)
        for s in nest_load_sql(nest_docs_for(tier)) + sess_load_sql():
            cur.execute(s)
        for s in fval_load_sql(range(len(fval_docs_for(tier))), tier) + fsplit_load_sql(range(len(FSPLIT_STRINGS))):
            cur.execute(s)
        for ii, xi in sorted({(i[1], i[2]) for i in fvalx_items(tier)}):
            cur.execute(fval_view_sql(FVAL_INPUTS[ii], FVAL_EXPORTS[xi]))
        w = _W[tier] = {"fs": fs, "conn": conn, "cur": cur, "docs": docs, "raw": raw, "kk": None}
    return w


def _exc_name(e):
    return f"{type(e).__module__}.{type(e).__name__}"


def run_exprs(cur, acc, exprs, pre, tail, head=""):
    """Evaluate `exprs` as one SELECT list (`pre` leading columns, `tail` = FROM/WHERE text, `head` = WITH clause). A
    raising statement is split in halves, recursively, down to single expressions (when both halves of a raising
    batch raise as well, their expressions are run one per statement right away). Returns per expression
    ('ok', [(pre values, value), ...]) in result order, or ('err', exception class, first line of the message)."""
    out = [None] * len(exprs)
    npre = len(pre)

    def attempt(lo, hi):
        sel = ", ".join(list(pre) + [f"{exprs[i]} as c{i}" for i in range(lo, hi)])
        acc.count("statements")
        try:
            cur.execute(f"{head}select {sel}{tail}")
            rows = cur.fetchall()
        except Exception as e:  # noqa: BLE001  (any exception = the statement is rejected)
            if hi - lo == 1:
                out[lo] = ("err", _exc_name(e), str(e).split("\n")[0][:200])
            return False
        for i in range(lo, hi):
            out[i] = ("ok", [(r[:npre], r[npre + i - lo]) for r in rows])
        return True

    def split(lo, hi):
        """exprs[lo:hi] (more than one) raised as a batch"""
        acc.count("batches_split")
        mid = (lo + hi) // 2
        halves = [(lo, mid), (mid, hi)]
        oks = [attempt(x, y) for x, y in halves]
        for (x, y), ok in zip(halves, oks):
            if ok or y - x == 1:
                continue
            if not any(oks):
                for i in range(x, y):
                    attempt(i, i + 1)
            else:
                split(x, y)

    if exprs and not attempt(0, len(exprs)) and len(exprs) > 1:
        split(0, len(exprs))
    return out


def _chunks(xs, n):
    return [xs[i : i + n] for i in range(0, len(xs), n)]


# ---- classification --------------------------------------------------------------------------------------------------------
# Class keys name the *input shape*; per clause the features that decide the outcome on the pinned tree (everything else --
# the document around the target, the source column vs literal, the particular spelling among equivalent syntaxes --
# was found not to matter and is left out so that one defect is one class).
#   fc     written shape of the access (see formclass)          shift  see shift_feature (bb.I shapes only)
#   fco    the same, coarser (see formclass_ops)
#   op     operation id                                          kind   kind of the navigated value
#   elems  'dec+int' when the value comes out of an array literal / ARRAY_CONSTRUCT mixing integers and decimals
#   cause  constructor shape (see ctor_cause)
DEFAULT_FEATURES = ("source", "fc", "op", "kind")
CLASS_FEATURES: dict = {
    "C11.extract": ("fc", "shift"),
    "C11.missing": ("fc", "shift", "op"),
    "C11.text": ("fco", "op", "kind", "elems"),
    "C11.cast": ("fco", "op", "kind"),
    "C11.array_size": ("kind",),
    "C11.context": ("fco", "op", "kind"),
    "C11.context_uncast": ("op", "kind"),
    "C11.flatten": ("source", "fc", "op", "kind", "alias", "case"),
    "C11.construct": ("op", "style", "cause", "kind", "case"),
    "C11.object_construct": ("op", "style", "cause", "case"),
    "C11.split": ("op", "kind", "form"),
    # nested navigation: nb = a bracket access whose base holds another bracket access; else the wrapper, the conversion
    # applied to the inner path (ic) and on top of the outer path (oc), the kind of the inner value, and whether the
    # expected result is a value or NULL (res)
    "C11.nested": ("nb", "w", "ic", "oc", "xkind", "res"),
    # the route by which the document reached the VARIANT column / the engine; esc = which escapes its text needs
    "C11.route": ("route", "op", "kind", "esc"),
    # one session, statements differing in letter case only: what varies, written shape, first / later statement of a session
    "C11.session": ("vary", "fc", "pos"),
}


def classify(clause, f):
    """deterministic class key naming the input shape: the features listed for the clause, in that order"""
    return ",".join(f"{k}={f[k]}" for k in CLASS_FEATURES.get(clause, DEFAULT_FEATURES) if k in f)


def _record(acc, clause, feats, n, nfail, example):
    if not n:
        return
    cls = classify(clause, feats)
    m = acc.classes.setdefault((clause, cls), [0, 0])
    m[0] += n
    m[1] += nfail
    if nfail:
        detail, replay = example
        acc.violation(clause, cls, detail, replay)
        acc.viol[(clause, cls)]["count"] += nfail - 1
    if _DUMP:
        with open(_DUMP, "a") as f:
            f.write(json.dumps(core.jsonable((clause, dict(feats), n, nfail, example[0] if nfail else None))) + "\n")


def _replay_payload(setup, sql, exp_enc, rows="one"):
    return {"setup": setup, "sql": sql, "expected": exp_enc, "rows": rows}


# ---- column source ---------------------------------------------------------------------------------------------------------
KCODE = {k: i for i, k in enumerate(J.KINDS)}


def _source_doc(d, source):
    """what column `source` of the row holding document d contains (MISSING = SQL NULL)"""
    if (source == "o" and not isinstance(d, dict)) or (source == "a" and not isinstance(d, list)):
        return J.MISSING
    return d


def _targets(docs, source, steps):
    return [J.navigate(_source_doc(d, source), steps) for d in docs]


def _set_kk(w, key, targets):
    """helper table kk(k = kind code, t = id of the distinct target value, id = document row, x = excluded) for the
    current path; written through a raw DuckDB cursor (harness data, not part of the subject)"""
    if w["kk"] == key:
        return w["kkinfo"]
    import pyarrow as pa

    vals = {}
    ks, ts = [], []
    for t in targets:
        c = canon(t)
        if c not in vals:
            vals[c] = len(vals)
        ks.append(KCODE[J.kind_of(t)])
        ts.append(vals[c])
    raw = w["raw"]
    tbl = pa.table(
        {
            "k": pa.array(ks, pa.int8()),
            "t": pa.array(ts, pa.int32()),
            "id": pa.array(range(len(ks)), pa.int32()),
            "x": pa.array([False] * len(ks), pa.bool_()),
        }
    )
    raw.register("kk_arrow", tbl)
    raw.execute("delete from db1.s1.kk")
    raw.execute("insert into db1.s1.kk select * from kk_arrow")
    raw.unregister("kk_arrow")
    w["kk"] = key
    w["kkinfo"] = (ks, ts)
    w["kk_x"] = frozenset()
    return w["kkinfo"]


def _set_excluded(w, excl):
    """mark rows that must stay out of the next statements (their extraction / inner cast is already wrong)"""
    excl = frozenset(excl)
    if w["kk_x"] == excl:
        return
    raw = w["raw"]
    raw.execute("update db1.s1.kk set x = false where x")
    if excl:
        raw.execute(f"update db1.s1.kk set x = true where id in ({', '.join(map(str, sorted(excl)))})")
    w["kk_x"] = excl


def _by_id(rows):
    """{row id: tuple of the values fetched for it, in result order}"""
    got = {}
    for (i,), v in rows:
        got.setdefault(i, []).append(v)
    return {i: tuple(v) for i, v in got.items()}


def _eval_on_rows(w, acc, exprs, kc, ids, ts):
    """-> per expression a function row id -> ('ok', (values...)) | ('err', cls, msg), for the rows `ids` (all of
    kind kc and not excluded), as ('rows', {id: values}) | ('err', r) | ('byvalue', {tv: ('rows', ..) | ('err', r)})"""
    cur = w["cur"]
    tail = f" from j where id in (select id from kk where k = {kc} and not x)"
    res = []
    for ch in _chunks(exprs, BATCH):
        res += run_exprs(cur, acc, ch, ["id"], tail)
    out = []
    for e, r in zip(exprs, res):
        if r[0] == "ok":
            out.append(("rows", _by_id(r[1])))
            continue
        tvals = sorted({ts[i] for i in ids})
        if len(tvals) > 1:
            # does the error depend on the data? (same statement over the empty row set)
            r0 = run_exprs(cur, acc, [e], ["id"], " from j where id in (select id from kk where k = -1)")[0]
            if r0[0] == "ok":
                acc.count("refined_per_value")
                d = {}
                for tv in tvals:
                    rr = run_exprs(cur, acc, [e], ["id"], f" from j where id in (select id from kk where k = {kc} and t = {tv} and not x)")[0]  # fmt: skip
                    d[tv] = ("rows", _by_id(rr[1])) if rr[0] == "ok" else ("err", rr)
                out.append(("byvalue", d))
                continue
        out.append(("err", r))
    return out


def _judge(mode, exp, r):
    return r[0] == "ok" and len(r[1]) == 1 and J.matches(mode, exp, r[1][0])


def _observed(r):
    return core.jsonable(r if r[0] == "err" else list(r[1]))


def _hashable(vals):
    try:
        hash(vals)
        return vals
    except TypeError:
        return ("\x00repr", repr(vals))


def work_col(item, acc, tier):
    """item = ('col', source, path index): every syntax x op of that path on every document row"""
    _, source, pi = item
    w = _world(tier)
    docs = w["docs"]
    steps = paths_for(tier)[pi]
    targets = _targets(docs, source, steps)
    ks, ts = _set_kk(w, (source, pi), targets)
    by_kind: dict = {}
    for i, k in enumerate(ks):
        by_kind.setdefault(k, []).append(i)
    syntaxes = SYNTAXES if source == "v" else ["colon", "bracket"]
    rends = renderings(source, steps, syntaxes)
    for sy, xsql, form in rends:
        full = sy == "colon" and source == "v"
        fc = formclass(form)
        rowfeat = [shift_feature(_source_doc(d, source), steps, form) for d in docs] if fc == "bb.I" else None
        for kc in sorted(by_kind):
            ids = by_kind[kc]
            kind = J.KINDS[kc]
            t0 = targets[ids[0]]
            failed: dict = {}  # op -> set of ids where it is wrong
            for level in LEVELS if full else LEVELS[:2]:
                opids = [o for o in level if expected(o, t0) is not J.UNDEMANDED]
                # group by exclusion set (rows where a dependency is wrong)
                groups: dict = {}
                for o in opids:
                    ex = frozenset().union(*[failed.get(d, frozenset()) for d in OPS[o]["deps"]])
                    groups.setdefault(ex, []).append(o)
                for ex in sorted(groups, key=sorted):
                    gops = groups[ex]
                    live = [i for i in ids if i not in ex]
                    acc.count("shadowed_cells", len(ex) * len(gops))
                    if not live:
                        continue
                    # rows with the same navigated value (and the same row feature) are judged together
                    cells: dict = {}
                    for i in live:
                        cells.setdefault((ts[i], rowfeat[i] if rowfeat else None), []).append(i)
                    _set_excluded(w, ex)
                    exprs = [OPS[o]["tpl"].format(x=xsql) for o in gops]
                    res = _eval_on_rows(w, acc, exprs, kc, live, ts)
                    for o, e, rs in zip(gops, exprs, res):
                        op = OPS[o]
                        bad = set()
                        sig = []
                        stats: dict = {}  # row feature -> [n, nfail, example]
                        for (tv, rf), cids in sorted(cells.items(), key=lambda kv: (kv[0][0], str(kv[0][1]))):
                            tgt = targets[cids[0]]
                            exp = expected(o, tgt)
                            if exp is not None and exp is not J.MISSING:
                                acc.nontrivial((source, sy, steps, o, canon(tgt)))
                            one = rs[1].get(tv) if rs[0] == "byvalue" else rs
                            st = stats.setdefault(rf, [0, 0, None])
                            st[0] += len(cids)
                            if one[0] == "err":
                                observed = {None: (one[1], cids)}
                            else:
                                observed = {}
                                got = one[1]
                                for i in cids:
                                    v = got.get(i, ())
                                    observed.setdefault(_hashable(v), (("ok", v), []))[1].append(i)
                            for okey in sorted(observed, key=repr):
                                r, oids = observed[okey]
                                good = _judge(op["mode"], exp, r)
                                sig.append((tv, rf, r[0], r[1], len(oids), good))
                                if not good:
                                    st[1] += len(oids)
                                    bad.update(oids)
                                    if st[2] is None:
                                        sql1 = f"select {e} from j"
                                        st[2] = (
                                            {"sql": sql1, "document": docs[oids[0]], "expected": repr(exp), "observed": _observed(r)},
                                            _replay_payload(load_sql([docs[oids[0]]]), sql1, enc(op["mode"], exp)),
                                        )
                        failed[o] = frozenset(bad)
                        acc.count("evaluations", len(live))
                        acc.obs((source, steps, sy, kind, o, sig))
                        acc.outcome((o, kind, form, "fail" if bad else "ok"))
                        for rf in sorted(stats, key=str):
                            n, nfail, example = stats[rf]
                            feats = {"source": source, "syntax": sy, "form": form, "fc": fc, "fco": formclass_ops(form),
                                     "shape": shape_of(steps), "op": o, "kind": kind}  # fmt: skip
                            if rf is not None:
                                feats["shift"] = rf
                            _record(acc, clause_of(o, t0), feats, n, nfail, example)
    if steps in (("a", 0), ("a", "B"), (0, "a"), ("a", "B", 0)):
        d = next((i for i, t in enumerate(targets) if isinstance(t, str)), 0)
        acc.sample({"mode": "col", "source": source, "path": list(steps), "renderings": [r[1] for r in rends], "documents": len(docs),
                    "one_document": docs[d], "navigated": core.jsonable(None if targets[d] is J.MISSING else targets[d]),
                    "some_expressions": [OPS[o]["tpl"].format(x=rends[0][1]) for o in ("raw", "varchar", "array_size", "c_and", "u_concat")]})  # fmt: skip
    return None


# ---- LATERAL FLATTEN over the table ------------------------------------------------------------------------------------------
FLAT_COLS = [
    ("value", "{f}value", "json", lambda e: e),
    ("value_varchar", "{f}value::varchar", "text", J.to_text),
    ("value_key", "{f}value:a", "json", lambda e: J.navigate(e, ("a",))),
    ("value_index", "{f}value[0]", "json", lambda e: J.navigate(e, (0,))),
    ("value_key_varchar", "{f}value:a::varchar", "text", lambda e: J.to_text(J.navigate(e, ("a",)))),
]
FLAT_KINDS = ("missing", "null", "earr", "arr")


def _seq_ok(mode, exps, gots):
    return len(exps) == len(gots) and all(J.matches(mode, e, g) for e, g in zip(exps, gots))


def work_flat(item, acc, tier):
    """item = ('flat', path index): FLATTEN(input => extraction) for the colon and bracket renderings, with and
    without an alias, restricted to rows whose target is an array / empty array / JSON null / missing"""
    _, pi = item
    w = _world(tier)
    docs, cur = w["docs"], w["cur"]
    steps = paths_for(tier)[pi]
    targets = _targets(docs, "v", steps)
    ks, ts = _set_kk(w, ("v", pi), targets)
    by_kind: dict = {}
    for i, k in enumerate(ks):
        by_kind.setdefault(k, []).append(i)
    for (sy, xsql, form), (_sy, vsql, _f) in zip(renderings("t.v", steps, ["colon", "bracket"]), renderings("v", steps, ["colon", "bracket"])):
        for kind in FLAT_KINDS:
            kc = KCODE[kind]
            allids = by_kind.get(kc)
            if not allids:
                continue
            # FLATTEN is judged on rows where the bare extraction is right (the others are reported by the col items)
            _set_excluded(w, ())
            r = run_exprs(cur, acc, [vsql], ["id"], f" from j where id in (select id from kk where k = {kc})")[0]
            got = _by_id(r[1]) if r[0] == "ok" else {}
            ids = [i for i in allids if J.matches("json", targets[i], got[i][0]) ] if r[0] == "ok" and all(len(got.get(i, [])) == 1 for i in allids) else []
            acc.count("shadowed_cells", (len(allids) - len(ids)) * len(FLAT_COLS))
            if not ids:
                continue
            _set_excluded(w, set(allids) - set(ids))
            for alias in ("f", "") if sy == "colon" else ("f",):
                fpre = f"{alias}." if alias else ""
                exprs = [c[1].format(f=fpre) for c in FLAT_COLS]

                def tail(cond, xsql=xsql, alias=alias):
                    return f" from (select id, v from j where id in (select id from kk where {cond})) t, lateral flatten(input => {xsql}) {alias}"  # noqa: E501

                res = run_exprs(cur, acc, exprs, ["t.id"], tail(f"k = {kc} and not x"))
                for (cid, _tpl, mode, ref), e, r in zip(FLAT_COLS, exprs, res):
                    per_id = None
                    tvals = sorted({ts[i] for i in ids})
                    if r[0] == "err" and len(tvals) > 1:
                        r0 = run_exprs(cur, acc, [e], ["t.id"], tail("k = -1"))[0]
                        if r0[0] == "ok":
                            acc.count("refined_per_value")
                            per_id = {}
                            for tv in tvals:
                                rr = run_exprs(cur, acc, [e], ["t.id"], tail(f"k = {kc} and t = {tv} and not x"))[0]
                                got = _by_id(rr[1]) if rr[0] == "ok" else None
                                for i in ids:
                                    if ts[i] == tv:
                                        per_id[i] = ("ok", got.get(i, [])) if got is not None else rr
                    if per_id is None:
                        got = _by_id(r[1]) if r[0] == "ok" else None
                        per_id = {i: (("ok", got.get(i, [])) if got is not None else r) for i in ids}
                    nfail = 0
                    example = None
                    sig = []
                    for i in ids:
                        exps = [ref(x) for x in J.flatten(targets[i])]
                        rr = per_id[i]
                        sig.append((i, rr[0], rr[1]))
                        if exps:
                            acc.nontrivial(("flat", sy, alias, steps, cid, canon(targets[i])))
                        if not (rr[0] == "ok" and _seq_ok(mode, exps, rr[1])):
                            nfail += 1
                            if example is None:
                                sql1 = f"select {e} from j t, lateral flatten(input => {xsql}) {alias}"
                                example = (
                                    {"sql": sql1, "document": docs[i], "expected": repr(exps), "observed": _observed(rr)},
                                    _replay_payload(load_sql([docs[i]]), sql1, [enc(mode, x) for x in exps], rows="seq"),
                                )
                    acc.count("evaluations", len(ids))
                    acc.obs(("flat", steps, sy, alias, kind, cid, sig))
                    acc.outcome(("flat", cid, kind, form, "fail" if nfail else "ok"))
                    feats = {"source": "v", "syntax": sy, "form": form, "fc": formclass(form), "shape": shape_of(steps),
                             "op": "flatten." + cid, "kind": kind, "alias": "yes" if alias else "no"}  # fmt: skip
                    _record(acc, "C11.flatten", feats, len(ids), nfail, example)
    return None


# ---- single-row sources (literal, constructors, misc): cells with dependencies ------------------------------------------------
def run_cells(cur, acc, cells, setup=()):
    """cells: dicts with expr, mode, exp, clause, feats, deps (indices of earlier cells), key. FROM-less SELECT lists
    by dependency level; a cell whose dependency is wrong is shadowed. 'exp' may be the string 'RAISES'."""
    status = {}
    level = {}
    for n, c in enumerate(cells):
        level[n] = 1 + max([level[d] for d in c["deps"]], default=-1)
    for lv in sorted(set(level.values())):
        todo = [n for n in range(len(cells)) if level[n] == lv and all(status.get(d) is True for d in cells[n]["deps"])]
        acc.count("shadowed_cells", sum(1 for n in range(len(cells)) if level[n] == lv) - len(todo))
        todo.sort(key=lambda n: (str(cells[n]["feats"].get("op")), n))
        for ch in _chunks(todo, BATCH):
            res = run_exprs(cur, acc, [cells[n]["expr"] for n in ch], [], "")
            for n, r in zip(ch, res):
                c = cells[n]
                rr = ("ok", [v for _p, v in r[1]]) if r[0] == "ok" else r
                if isinstance(c["exp"], str) and c["exp"] == "RAISES":
                    ok = r[0] == "err"
                    encexp = {"raises": True}
                else:
                    ok = _judge(c["mode"], c["exp"], rr)
                    encexp = enc(c["mode"], c["exp"])
                    if c["exp"] is not None and c["exp"] is not J.MISSING:
                        acc.nontrivial(c["key"])
                status[n] = ok
                acc.count("evaluations")
                acc.obs((c["key"], rr[0], rr[1]))
                acc.outcome((c["feats"].get("op"), c["feats"].get("kind"), c["feats"].get("form"), "ok" if ok else "fail"))
                sql = f"select {c['expr']}"
                example = (
                    {"sql": sql, "expected": repr(c["exp"]), "observed": _observed(rr)},
                    _replay_payload(list(setup), sql, encexp),
                )
                _record(acc, c["clause"], c["feats"], 1, 0 if ok else 1, example)
    return status


def _path_cells(src, source_name, doc, steps_list, ops_for, extra_feats, chained=True):
    """cells for the extractions `steps_list` of `doc` written over SQL source text `src` (deps are local indices);
    chained=False leaves out renderings with two or more brackets directly on the source"""
    cells = []
    for steps in steps_list:
        if not steps:
            continue
        target = J.navigate(doc, steps)
        kind = J.kind_of(target)
        for sy, xsql, form in renderings(src, steps, ["colon", "bracket"]):
            if not chained and formclass(form).startswith("bb"):
                continue
            idx = {}
            sh = shift_feature(doc, steps, form)
            for o in ops_for(sy, target):
                exp = expected(o, target)
                if exp is J.UNDEMANDED:
                    continue
                if any(d not in idx for d in OPS[o]["deps"]):
                    continue  # a dependency is not demanded here
                deps = [idx[d] for d in OPS[o]["deps"]]
                idx[o] = len(cells)
                feats = {"source": source_name, "syntax": sy, "form": form, "fc": formclass(form), "fco": formclass_ops(form),
                         "shape": shape_of(steps), "op": o, "kind": kind}  # fmt: skip
                if sh is not None:
                    feats["shift"] = sh
                feats.update(extra_feats)
                cells.append(
                    {"expr": OPS[o]["tpl"].format(x=xsql), "mode": OPS[o]["mode"], "exp": exp, "clause": clause_of(o, target),
                     "feats": feats, "deps": deps, "key": (source_name, canon(doc), steps, sy, o)}
                )  # fmt: skip
    return cells


def lit_cells(doc):
    src = f"parse_json({_sqlstr(canon(doc))})"
    root = {"expr": src, "mode": "json", "exp": doc, "clause": "C11.construct", "deps": [],
            "feats": {"source": "lit", "op": "parse_json", "kind": J.kind_of(doc), "form": "root"}, "key": ("lit", canon(doc), "root")}  # fmt: skip

    def ops(sy, target):
        if target is J.MISSING:
            return VALUE_IDS
        return ALL_IDS if sy == "colon" else VALUE_IDS

    cells = [root]
    for c in _path_cells(src, "lit", doc, relevant_paths(doc), ops, {}, chained=False):
        c["deps"] = [d + 1 for d in c["deps"]] + [0]
        cells.append(c)
    return cells


def work_lit(item, acc, tier):
    """item = ('lit', document index): extractions on PARSE_JSON('<text>') -- existing paths: every op on the colon
    rendering, value ops on the bracket rendering; negative paths: value ops"""
    _, di = item
    doc = lit_docs_for(tier)[di]
    w = _world(tier)
    cells = lit_cells(doc)
    run_cells(w["cur"], acc, cells)
    if di % 37 == 0:
        acc.sample({"mode": "lit", "document": doc, "expressions": len(cells), "first": [c["expr"] for c in cells[:3]]})
    return None


# ---- constructors ------------------------------------------------------------------------------------------------------------
def ctor_sql(doc, style):
    """SQL constructor expression for `doc`: style 'oc' = OBJECT_CONSTRUCT + [..] literal, 'ock' =
    OBJECT_CONSTRUCT_KEEP_NULL + ARRAY_CONSTRUCT(..)"""
    if doc is None:
        return "NULL"
    if doc is True:
        return "TRUE"
    if doc is False:
        return "FALSE"
    if isinstance(doc, (int, float)):
        return J.num_text(doc)
    if isinstance(doc, str):
        return _sqlstr(doc)
    if isinstance(doc, list):
        inner = ", ".join(ctor_sql(x, style) for x in doc)
        return f"[{inner}]" if style == "oc" else f"array_construct({inner})"
    inner = ", ".join(f"{_sqlstr(k)}, {ctor_sql(v, style)}" for k, v in doc.items())
    return f"object_construct({inner})" if style == "oc" else f"object_construct_keep_null({inner})"


def ctor_expected(doc, style):
    if isinstance(doc, list):
        return J.array_construct([ctor_expected(x, style) for x in doc])
    if isinstance(doc, dict):
        return J.object_construct([(k, ctor_expected(v, style)) for k, v in doc.items()], keep_null=(style == "ock"))
    return doc


def _sqlkind(x):
    k = J.kind_of(x)
    return {"float": "dec", "eobj": "obj"}.get(k, k)


def _arrays(d):
    if isinstance(d, list):
        yield d
        for x in d:
            yield from _arrays(x)
    elif isinstance(d, dict):
        for x in d.values():
            yield from _arrays(x)


def _objects(d, inobj=0):
    """(object, number of OBJECT_CONSTRUCT calls it is an argument of, directly or through arrays)"""
    if isinstance(d, dict):
        yield d, inobj
        for x in d.values():
            yield from _objects(x, inobj + 1)
    elif isinstance(d, list):
        for x in d:
            yield from _objects(x, inobj)


def ctor_feats(doc, style):
    """input shape of a constructor call: the top constructor; `elems` = how mixed the SQL kinds of the elements of its
    arrays are (none < uniform < dec+int < objmix < hetero, the worst array counts); where NULL-valued pairs sit (in a call that is not an argument of
    another OBJECT_CONSTRUCT = top / in one that is = nested); whether some OBJECT_CONSTRUCT call ends up with no pair
    at all (no argument, or -- without KEEP_NULL -- only NULL values)"""
    top = "array" if isinstance(doc, list) else "object"
    elems = "none"
    for a in _arrays(doc):
        kinds = {_sqlkind(x) for x in a if x is not None}
        if len(kinds) <= 1:
            e = "uniform"
        elif kinds == {"dec", "int"}:
            e = "dec+int"
        elif "obj" in kinds and kinds <= {"obj", "bool", "int", "dec", "earr"}:
            e = "objmix"  # an object next to non-string scalars / an empty array: the engine can hold them as JSON values
        else:
            e = "hetero"
        rank = ["none", "uniform", "dec+int", "objmix", "hetero"]
        if rank.index(e) > rank.index(elems):
            elems = e
    nullrun = 0
    for o, _dp in _objects(doc):
        run = 0
        for v in o.values():
            run = run + 1 if v is None else 0
            nullrun = max(nullrun, run)
    nullelem = any(x is None for a in _arrays(doc) for x in a)
    nulltop = any(v is None for o, dp in _objects(doc) for v in o.values() if dp == 0)
    nullnested = any(v is None for o, dp in _objects(doc) for v in o.values() if dp > 0)
    if style == "oc":
        nopair = any(all(v is None for v in o.values()) for o, _dp in _objects(doc))
    else:
        nopair = any(not o for o, _dp in _objects(doc))
    return {"top": top, "elems": elems, "nullelem": "yes" if nullelem else "no",
            "nullpair": "top+nested" if nulltop and nullnested else "top" if nulltop else "nested" if nullnested else "no",
            "nopair": "yes" if nopair else "no", "nullrun": nullrun}  # fmt: skip


def ctor_cause(cf, style):
    """the one constructor-shape feature used in class keys, by priority: an array whose elements have different SQL
    types ('hetero'; apart, lower down: integers with decimals 'dec+int', an object next to non-string scalars
    'objmix'); an OBJECT_CONSTRUCT call with a run of 2 / of 3 or more adjacent NULL-valued pairs ('nullrun2',
    'nullrun3+'); an OBJECT_CONSTRUCT left without any pair; NULL-valued pairs in an OBJECT_CONSTRUCT that is / is not an
    argument of another one; else plain"""
    if cf["elems"] == "hetero":
        return "hetero"
    if cf["nullrun"] >= 2:
        return "nullrun2" if cf["nullrun"] == 2 else "nullrun3+"
    if cf["nopair"] == "yes" and style == "oc":
        return "nopair"
    if cf["nullpair"] in ("nested", "top+nested"):
        return "nullpair.nested"
    if cf["nullpair"] == "top":
        return "nullpair.top"
    if cf["elems"] in ("objmix", "dec+int"):
        return cf["elems"]
    return "plain"


def ctor_cells(doc, style):
    cf = ctor_feats(doc, style)
    src = ctor_sql(doc, style)
    exp = ctor_expected(doc, style)
    cause = ctor_cause(cf, style)
    clause = "C11.object_construct" if cause in ("nopair", "nullpair.nested", "nullpair.top", "nullrun2", "nullrun3+") else "C11.construct"
    feats = {"source": "ctor", "style": style, "op": "construct", "cause": cause}
    cells = [{"expr": src, "mode": "json", "exp": exp, "clause": clause, "deps": [], "feats": feats, "key": ("ctor", style, canon(doc), "root")}]
    cells.append({"expr": f"array_size({src})", "mode": "num", "exp": J.array_size(exp), "clause": "C11.array_size", "deps": [0],
                  "feats": {"source": "ctor", "style": style, "op": "array_size", "kind": J.kind_of(exp), "form": "root"},
                  "key": ("ctor", style, canon(doc), "array_size")})  # fmt: skip
    pf = {"style": style}
    if cf["elems"] == "dec+int":
        pf["elems"] = "dec+int"
    for c in _path_cells(src, "ctor", exp, relevant_paths(doc, maxlen=2), lambda sy, t: ["raw", "varchar"], pf, chained=False):
        c["deps"] = [d + 2 for d in c["deps"]] + [0]
        c["key"] = c["key"] + (style,)
        cells.append(c)
    return cells


def work_ctor(item, acc, tier):
    """item = ('ctor', document index): the document written with constructors (both styles); the value as a whole,
    every relevant path (raw, ::varchar, ARRAY_SIZE) and ARRAY_SIZE of the whole"""
    _, di = item
    doc = ctor_docs_for(tier)[di]
    w = _world(tier)
    for style in ("oc", "ock"):
        run_cells(w["cur"], acc, ctor_cells(doc, style))
    if di % 53 == 0:
        acc.sample({"mode": "ctor", "document": doc, "oc": ctor_sql(doc, "oc"), "ock": ctor_sql(doc, "ock")})
    return None


# ---- explicit lists -----------------------------------------------------------------------------------------------------------
PARSE_VALID = [
    "null", "true", "false", "0", "-1.5", '"s"', '"Str"', '"q\\""', '""', "[]", "{}", ' {"a" : [1, 2] } ',
    '{"a":{"B":[true,null]}}', '[1,"a",null]', '"1"', "1e2", '{"a":"x","B":{"a":[]}}',
]  # fmt: skip
PARSE_INVALID = ["nope", '{"a":', "{invalid: ,]", "[1 2]", '{"a" 1}']
SPLIT_STRINGS = ["a b", "a", "", "a  b", " a", "A,b", "a b c", None]
SPLIT_SEPS = [" ", ","]
NULLKEY_CASES = [  # (sql, expected document, constructor shape as in ctor_cause)
    ("object_construct('a', 1, NULL, 'x')", {"a": 1}, "nullkey"),
    ("object_construct(NULL, 'x')", {}, "nopair"),
    ("object_construct_keep_null('a', NULL, NULL, 'x')", {"a": None}, "nullkey"),
    ("object_construct_keep_null('a', 1, 'B', NULL)", {"a": 1, "B": None}, "nullpair.top"),
    ("object_construct('a', NULL)", {}, "nopair"),
    ("object_construct('a', object_construct('B', NULL, 'a', 1))", {"a": {"a": 1}}, "nullpair.nested"),
    ("object_construct_keep_null('a', object_construct('B', NULL, 'a', 1))", {"a": {"a": 1}}, "nullpair.under_keep_null"),
    ("object_construct('a', object_construct_keep_null('B', NULL))", {"a": {"B": None}}, "keep_null.nested"),
    ("object_construct()", {}, "nopair"),
    ("object_construct_keep_null()", {}, "nopair"),
    ("array_construct()", [], "plain"),
    ("[]", [], "plain"),
    ("array_construct(NULL)", [None], "plain"),
    ("array_construct(1, NULL, 2)", [1, None, 2], "plain"),
    ("array_construct(object_construct('a', NULL, 'B', 1), object_construct('a', 2))", [{"B": 1}, {"a": 2}], "nullpair.top"),
]
FLAT_LITERALS = [  # (input expression, its elements, label used in class keys)
    ("parse_json('[3, 1, 2]')", [3, 1, 2], "parse_json.ints"),
    ("parse_json('[\"b\", \"a\"]')", ["b", "a"], "parse_json.strings"),
    ("parse_json('[1, \"a\", null, [2], {\"a\": 3}]')", [1, "a", None, [2], {"a": 3}], "parse_json.mixed"),
    ("parse_json('[]')", [], "parse_json.empty"),
    ("parse_json('null')", None, "parse_json.null"),
    ("[3, 1, 2]", [3, 1, 2], "literal.ints"),
    ("['b', 'a']", ["b", "a"], "literal.strings"),
    ("array_construct(3, 1, 2)", [3, 1, 2], "array_construct.ints"),
    ("array_construct('b', 'a')", ["b", "a"], "array_construct.strings"),
    ("array_construct()", [], "array_construct.empty"),
    ("split('b a', ' ')", ["b", "a"], "split"),
    ("object_construct('a', [1, 2]):a", [1, 2], "object_construct.path"),
]


def split_setup(ids):
    rows = ", ".join(f"({i}, {'NULL' if SPLIT_STRINGS[i] is None else _sqlstr(SPLIT_STRINGS[i])})" for i in ids)
    return ["create or replace table st (id int, s varchar)", f"insert into st values {rows}"]


def _skind(s, sep):
    if s is None:
        return "null"
    return "empty" if s == "" else "one" if len(J.split(s, sep)) == 1 else "many"


def work_misc(item, acc, tier):
    _, what = item
    w = _world(tier)
    cur = w["cur"]
    cells = []
    if what == "parse":
        for fn in ("parse_json", "try_parse_json"):
            for t in PARSE_VALID:
                cells.append({"expr": f"{fn}({_sqlstr(t)})", "mode": "json", "exp": json.loads(t), "clause": "C11.construct", "deps": [],
                              "feats": {"source": "lit", "op": fn, "kind": J.kind_of(json.loads(t)), "form": "valid"}, "key": (fn, t)})  # fmt: skip
            for t in PARSE_INVALID:
                cells.append({"expr": f"{fn}({_sqlstr(t)})", "mode": "json", "exp": "RAISES" if fn == "parse_json" else None,
                              "clause": "C11.construct", "deps": [], "feats": {"source": "lit", "op": fn, "kind": "invalid", "form": "invalid"},
                              "key": (fn, t)})  # fmt: skip
            cells.append({"expr": f"{fn}(NULL)", "mode": "json", "exp": None, "clause": "C11.construct", "deps": [],
                          "feats": {"source": "lit", "op": fn, "kind": "sqlnull", "form": "null"}, "key": (fn, None)})  # fmt: skip
            cells.append({"expr": f"{fn}('{{\"a\":\"Str\"}}'):a::varchar", "mode": "text", "exp": "Str", "clause": "C11.text", "deps": [],
                          "feats": {"source": "lit", "fco": "p", "op": "varchar", "kind": "str"}, "key": (fn, "path")})  # fmt: skip
        run_cells(cur, acc, cells)
    elif what == "nullkey":
        for sql, exp, cause in NULLKEY_CASES:
            style = "ock" if sql.startswith(("object_construct_keep_null", "array_construct")) else "oc"
            if cause == "nopair" and style == "ock":
                cause = "plain"
            clause = "C11.object_construct" if "object_construct" in sql else "C11.construct"
            cells.append({"expr": sql, "mode": "json", "exp": exp, "clause": clause, "deps": [],
                          "feats": {"source": "ctor", "op": "construct", "style": style, "cause": cause}, "key": ("nullkey", sql)})  # fmt: skip
        run_cells(cur, acc, cells)
    elif what == "split":
        for sep in SPLIT_SEPS:
            x = f"split(s, {_sqlstr(sep)})"
            nav = lambda p, st: J.navigate(p, st) if p is not None else J.MISSING  # noqa: E731
            exprs = [
                ("split", x, "json", lambda p: p, None),
                ("array_size(split)", f"array_size({x})", "num", J.array_size, None),
                ("raw", f"{x}[0]", "json", lambda p: nav(p, (0,)), 0),
                ("varchar", f"{x}[1]::varchar", "text", lambda p: J.to_text(nav(p, (1,))), 1),
            ]
            res = run_exprs(cur, acc, [e[1] for e in exprs], ["id"], " from st")
            for (name, e, mode, ref, elem), r in zip(exprs, res):
                got = _by_id(r[1]) if r[0] == "ok" else None
                for i, s in enumerate(SPLIT_STRINGS):
                    parts = J.split(s, sep)
                    exp = ref(parts)
                    rr = ("ok", got.get(i, [])) if got is not None else r
                    ok = _judge(mode, exp, rr)
                    acc.count("evaluations")
                    acc.obs(("split", sep, name, i, rr[0], rr[1]))
                    if exp is not None and exp is not J.MISSING:
                        acc.nontrivial(("split", sep, name, s))
                    sql = f"select {e} from st"
                    example = ({"sql": sql, "s": s, "expected": repr(exp), "observed": _observed(rr)},
                               _replay_payload(split_setup([i]), sql, enc(mode, exp)))  # fmt: skip
                    if elem is None:
                        clause, feats = "C11.split", {"source": "split", "op": name, "kind": _skind(s, sep), "form": "col"}
                    else:
                        tgt = nav(parts, (elem,))
                        clause = clause_of(name, tgt)
                        feats = {"source": "split", "fc": "b1", "fco": "b", "op": name, "kind": J.kind_of(tgt)}
                    _record(acc, clause, feats, 1, 0 if ok else 1, example)
            tail = f" from st, lateral flatten(input => split(s, {_sqlstr(sep)})) f"
            fcols = [("flatten(split).value", "f.value", "json", lambda e: e), ("flatten(split).value::varchar", "f.value::varchar", "text", J.to_text)]
            res = run_exprs(cur, acc, [c[1] for c in fcols], ["id"], tail)
            for (name, col, mode, ref), r in zip(fcols, res):
                got = _by_id(r[1]) if r[0] == "ok" else None
                for i, s in enumerate(SPLIT_STRINGS):
                    exps = [ref(p) for p in (J.split(s, sep) or [])]
                    rr = ("ok", got.get(i, [])) if got is not None else r
                    ok = rr[0] == "ok" and _seq_ok(mode, exps, rr[1])
                    acc.count("evaluations")
                    acc.obs(("split-flat", sep, name, i, rr[0], rr[1]))
                    if exps:
                        acc.nontrivial(("split-flat", sep, name, s))
                    sql = f"select {col}{tail}"
                    example = ({"sql": sql, "s": s, "expected": repr(exps), "observed": _observed(rr)},
                               _replay_payload(split_setup([i]), sql, [enc(mode, x) for x in exps], rows="seq"))  # fmt: skip
                    _record(acc, "C11.flatten", {"source": "split", "op": name, "kind": _skind(s, sep), "form": "col"}, 1, 0 if ok else 1, example)
        for s in SPLIT_STRINGS:
            for sep in SPLIT_SEPS:
                lit = "NULL" if s is None else _sqlstr(s)
                parts = J.split(s, sep)
                sk = _skind(s, sep)
                x = f"split({lit}, {_sqlstr(sep)})"
                base = len(cells)
                cells.append({"expr": x, "mode": "json", "exp": parts, "clause": "C11.split", "deps": [],
                              "feats": {"source": "split", "op": "split", "kind": sk, "form": "lit"}, "key": ("split-lit", s, sep)})  # fmt: skip
                tgt = J.navigate(parts, (0,)) if parts is not None else J.MISSING
                cells.append({"expr": f"{x}[0]::varchar", "mode": "text", "exp": J.to_text(tgt), "clause": clause_of("varchar", tgt), "deps": [base],
                              "feats": {"source": "split", "fc": "b1", "fco": "b", "op": "varchar", "kind": J.kind_of(tgt)}, "key": ("split-lit0", s, sep)})  # fmt: skip
                cells.append({"expr": f"array_size({x})", "mode": "num", "exp": J.array_size(parts), "clause": "C11.split", "deps": [base],
                              "feats": {"source": "split", "op": "array_size(split)", "kind": sk, "form": "lit"}, "key": ("split-lits", s, sep)})  # fmt: skip
        run_cells(cur, acc, cells)
    elif what == "flatlit":
        for n, (src, arr, label) in enumerate(FLAT_LITERALS):
            for alias in ("f", ""):
                fpre = f"{alias}." if alias else ""
                tail = f" from lateral flatten(input => {src}) {alias}"
                cols = [("value", f"{fpre}value", "json", lambda e: e), ("value_varchar", f"{fpre}value::varchar", "text", J.to_text)]
                res = run_exprs(cur, acc, [c[1] for c in cols], [], tail)
                for (cid, e, mode, ref), r in zip(cols, res):
                    exps = [ref(x) for x in J.flatten(arr)]
                    rr = ("ok", [v for _p, v in r[1]]) if r[0] == "ok" else r
                    ok = rr[0] == "ok" and _seq_ok(mode, exps, rr[1])
                    acc.count("evaluations")
                    acc.obs(("flatlit", n, alias, cid, rr[0], rr[1]))
                    if exps:
                        acc.nontrivial(("flatlit", n, alias, cid))
                    sql = f"select {e}{tail}"
                    example = ({"sql": sql, "expected": repr(exps), "observed": _observed(rr)},
                               _replay_payload([], sql, [enc(mode, x) for x in exps], rows="seq"))  # fmt: skip
                    feats = {"source": "flatlit", "case": label}
                    _record(acc, "C11.flatten", feats, 1, 0 if ok else 1, example)
    else:
        raise core.HarnessError(f"unknown misc item {what}")
    return None



# ---- nested navigation ----------------------------------------------------------------------------------------------------------
# A path + operation whose *base* is itself an expression built from another path (+ cast) of the document:
#   OUTER_OP( WRAPPER( INNER_PATH(v) ) OUTER_PATH )      e.g.  parse_json(v:B::varchar):a::varchar
# Complete product  NEST_DOCS x NEST_P1 (inner path) x NEST_SYN (inner syntax) x NEST_WRAPPERS x P2[family] (outer path) x
# NEST_SYN (outer syntax) x NEST_OPS (outer op), on the table column jn.v (all document rows at once) and -- a smaller
# product -- on an inline PARSE_JSON('<document>') literal. The reference composes the Python navigations.
N_I1 = {"a": "Str", "B": [0, 'q"']}
N_I2 = ["Str", {"a": -1.5}]
# values at the end of the inner path: a plain string, strings that are themselves JSON text (double-encoded payloads:
# of an object, an array, a string, a number), the empty string, scalars, JSON null, and real sub-documents
NEST_VALS = ["Str", canon(N_I1), canon(N_I2), '"Str"', "0", "", 0, True, None, N_I1, N_I2]
NEST_P1 = {"quick": [("B",), (1,)], "thorough": [("a",), ("B",), (0,), (1,), ("zz",)]}
NEST_SYN = ["colon", "bracket", "getpath"]
NEST_OPS = {"quick": ["raw", "varchar", "trim", "int"],
            "thorough": ["raw", "varchar", "string", "upper", "lower", "trim", "array_size", "int", "float"]}  # fmt: skip
_NEST_P2_FULL = {  # outer paths by what the wrapper's value is
    "val": [(), ("a",), ("B",), (0,), (1,), ("B", 0), ("B", 1), (1, "a"), ("zz",)],  # the inner value (parsed)
    "k": [("k",), ("k", "a"), ("k", 0), ("zz",)],  # OBJECT_CONSTRUCT('k', inner value)
    "arr": [(0,), (0, "a"), (0, 0), (1,)],  # ARRAY_CONSTRUCT(inner value)
    "doc": [("a",), ("B",), (0,), (1,), ("zz",)],  # the whole document, chosen by a condition over the inner value
}
NEST_P2 = {
    "quick": {"val": [(), ("a",), (0,), ("B", 0), (1, "a"), ("zz",)], "k": [("k",), ("k", "a"), ("zz",)],
              "arr": [(0,), (0, "a"), (1,)], "doc": [("a",), ("B",), (1,)]},
    "thorough": _NEST_P2_FULL,
}  # fmt: skip
NEST_LIT_VALS = {"quick": [canon(N_I1), "Str", N_I1], "thorough": NEST_VALS}


def nest_docs_for(tier):
    frames = FRAMES if tier == "thorough" else FRAMES_QUICK
    return _dedupe([frame(f, v, FILL) for f in frames for v in NEST_VALS])


def nest_lit_docs_for(tier):
    """(document, inner path): literal source, one frame per kind of step"""
    out = []
    for f, p1 in (("O2R", (KEY2,)), ("A2R", (1,))):
        for v in NEST_LIT_VALS[tier]:
            out.append((frame(f, v, FILL), p1))
    return out


def nest_load_sql(docs):
    rows = ", ".join(f"({n}, {_sqlstr(canon(d))})" for n, d in enumerate(docs))
    return ["create or replace table jn (id int, v variant)", f"insert into jn select column1, parse_json(column2) from values {rows}"]


def _n_parse(strict):
    def f(doc, x):
        t = J.to_text(x)
        if t is None:
            return J.MISSING
        if isinstance(t, J.JsonText):
            return t.doc
        if t == "":
            return J.UNDEMANDED  # PARSE_JSON('') is NULL in Snowflake's lenient parser, an error elsewhere: not demanded
        try:
            return json.loads(t)
        except ValueError:
            return J.UNDEMANDED if strict else J.MISSING

    return f


def _n_text(build):
    def f(doc, x):
        t = J.to_text(x)
        if isinstance(t, J.JsonText):
            return J.UNDEMANDED  # the text of a container is not pinned down (whitespace)
        return build(t)

    return f


def _n_cond(conv, test):
    """the whole document if test(conv(inner value)) is TRUE, else SQL NULL"""

    def f(doc, x):
        c = conv(x)
        if c is J.UNDEMANDED:
            return J.UNDEMANDED
        if isinstance(c, J.JsonText):
            c = json.dumps(c.doc)
        return doc if test(c) is True else J.MISSING

    return f


def _n_coalesce(doc, x):
    return J.UNDEMANDED if x is None else x  # COALESCE over a JSON null: JSON null vs SQL NULL, not demanded


def _n_not_uncast(doc, x):
    k = J.kind_of(x)
    if k == "missing":
        return doc  # NOT NULL is NULL -> ELSE branch
    if k == "bool":
        return J.MISSING if x is False else doc  # iff(not x, NULL, v)
    return J.UNDEMANDED


# (id, SQL template over {X} = inner path on the source and {V} = the source, inner op the base depends on, reference
#  (doc, inner value) -> base document | MISSING (SQL NULL) | UNDEMANDED, outer path family, placement, outer syntaxes)
NEST_WRAPPERS = [
    ("parse_json", "parse_json({X}::varchar)", "varchar", _n_parse(True), "val", "inline", NEST_SYN),
    ("try_parse_json", "try_parse_json({X}::varchar)", "varchar", _n_parse(False), "val", "inline", NEST_SYN),
    ("parse_json.string", "parse_json({X}::string)", "string", _n_parse(True), "val", "inline", NEST_SYN),
    ("parse_json.trim", "parse_json(trim({X}))", "trim", _n_parse(True), "val", "inline", NEST_SYN),
    ("object_construct.text", "object_construct('k', {X}::varchar)", "varchar", _n_text(lambda t: {} if t is None else {"k": t}), "k", "inline", NEST_SYN),
    ("object_construct.raw", "object_construct('k', {X})", "raw", lambda doc, x: {} if x is J.MISSING else {"k": x}, "k", "inline", NEST_SYN),
    ("object_construct_keep_null.text", "object_construct_keep_null('k', {X}::varchar)", "varchar", _n_text(lambda t: {"k": t}), "k", "inline", NEST_SYN),
    ("array_construct.text", "array_construct({X}::varchar)", "varchar", _n_text(lambda t: [t]), "arr", "inline", NEST_SYN),
    ("array_literal.raw", "[{X}]", "raw", lambda doc, x: [None if x is J.MISSING else x], "arr", "inline", NEST_SYN),
    ("iff.text", "iff({X}::varchar = 'Str', {V}, NULL)", "varchar", _n_cond(J.to_text, lambda t: J.cmp3(t, "=", "Str")), "doc", "inline", NEST_SYN),
    ("iff.int", "iff({X}::int = 0, {V}, NULL)", "int", _n_cond(J.to_number, lambda n: J.cmp3(n, "=", 0)), "doc", "inline", NEST_SYN),
    ("iff.not", "iff(not {X}, NULL, {V})", "raw", _n_not_uncast, "doc", "inline", NEST_SYN),
    ("case.text", "case when {X}::varchar = 'Str' then {V} end", "varchar", _n_cond(J.to_text, lambda t: J.cmp3(t, "=", "Str")), "doc", "inline", ["getpath"]),
    ("iff.branch", "iff({V}:zz is null, {X}, NULL)", "raw", lambda doc, x: x, "val", "inline", NEST_SYN),
    ("coalesce", "coalesce({V}:zz, {X})", "raw", _n_coalesce, "val", "inline", NEST_SYN),
    ("subquery", "{X}", "raw", lambda doc, x: x, "val", "subquery", NEST_SYN),
    ("subquery.parse_json", "parse_json({X}::varchar)", "varchar", _n_parse(True), "val", "subquery", NEST_SYN),
    ("cte", "{X}", "raw", lambda doc, x: x, "val", "cte", NEST_SYN),
]


NEST_COARSE = ("iff.not",)  # wrappers whose class key is the wrapper alone (an uncast operator over the inner path)
_CONV = {"raw": "none", "varchar": "cast", "string": "cast", "int": "cast", "float": "cast", "number": "cast", "boolean": "cast",
         "trim": "trim", "upper": "cased", "lower": "cased", "array_size": "array_size"}  # fmt: skip


def _nest_place(placement, wsql, cond=None, single=False):
    """-> (head, leading columns, tail, source text of the outer path) for a statement over table jn"""
    where = "" if single else f" where id in (select id from kk where {cond})"
    if placement == "inline":
        return "", ["id"], f" from jn{where}", wsql
    if placement == "subquery":
        return "", ["t.id"], f" from (select id, {wsql} as c from jn{where}) t", "t.c"
    if placement == "cte":
        return f"with t as (select id, {wsql} as c from jn{where}) ", ["id"], " from t", "c"
    raise ValueError(placement)


def nest_exprs(wrapper, tier, lit=False):
    """[(outer path, outer syntax, form of the outer access, op)]"""
    fam, syns = wrapper[4], wrapper[6]
    if lit and tier == "quick":
        syns = [x for x in syns if x != "getpath"] or syns
    out = []
    for p2 in NEST_P2[tier][fam]:
        for sy, _sql, form in renderings("S", p2, syns):
            for o in NEST_OPS[tier]:
                if not p2 and o not in ("raw", "array_size"):
                    continue  # text / number conversions of the wrapper's bare value: that is the un-nested 'root' shape
                out.append((p2, sy, form, o))
    return out


def _nest_expected(wrapper, doc, x, p2, o):
    base = wrapper[3](doc, x)
    if base is J.UNDEMANDED:
        return J.UNDEMANDED, None
    tgt = J.MISSING if base is J.MISSING else J.navigate(base, p2)
    return expected(o, tgt), tgt


def nest_skipped(wrapper, form1, form2):
    """an inner [index] inside the base of an outer bracket is not explored: it is the same defect as the ['key'] shape
    (only the outer bracket is rewritten), but what the untouched inner [index] then yields depends on DuckDB's own
    indexing and typing of the value, which no input feature predicts"""
    return wrapper[5] == "inline" and formclass_ops(form1) == "b" and "K" not in form1 and formclass_ops(form2) in ("b", "b1:p")


def nest_feats(wrapper, doc, p1, form1, p2, form2, o, x, tgt):
    """class features of one nested expression (input shape only)"""
    wid, _tpl, inner, _ref, _fam, placement, _syns = wrapper
    if placement == "inline" and formclass_ops(form1) == "b" and formclass_ops(form2) in ("b", "b1:p"):
        return {"nb": "key-bracket-in-bracket-base"}
    if wid in NEST_COARSE:
        return {"w": wid}
    return {"w": wid, "ic": _CONV[inner], "oc": _CONV[o], "xkind": J.kind_of(x), "res": "null" if expected(o, tgt) is None else "value"}


def work_nest(item, acc, tier):
    """item = ('nest', wrapper index, inner path index): every inner syntax x outer path x outer syntax x outer op over all
    rows of jn. Judged in dependency order: the inner path with its conversion alone; the bare nested extraction; the
    operations on top of it -- each only on rows where what it builds on is right and where something is demanded."""
    _, wi, pi = item
    wrapper = NEST_WRAPPERS[wi]
    wid, tpl, inner, ref, fam, placement, _syns = wrapper
    p1 = NEST_P1[tier][pi]
    w = _world(tier)
    cur = w["cur"]
    docs = nest_docs_for(tier)
    xs = [J.navigate(d, p1) for d in docs]
    _ks, ts = _set_kk(w, ("nest", pi), xs)
    allids = list(range(len(docs)))

    def evaluate(cs, rows_of, wsql, src, sy1, form1):
        """cs: combos (p2, sy2, form2, op); rows_of(c) -> {row: (expected, target)}. Returns {c: set of right rows}"""
        right = {}
        groups: dict = {}
        for c in cs:
            per = rows_of(c)
            if per:
                groups.setdefault(frozenset(per), []).append((c, per))
        for rowset in sorted(groups, key=sorted):
            ids = sorted(rowset)
            _set_excluded(w, set(allids) - rowset)
            members = groups[rowset]
            texts = [OPS[c[3]]["tpl"].format(x=_render(src, c[0], c[1])[0]) for c, _per in members]
            res = []
            for ch in _chunks(texts, BATCH):
                head, pre, tail, _s = _nest_place(placement, wsql, "not x")
                res += run_exprs(cur, acc, ch, pre, tail, head)
            for (c, per), e, r in zip(members, texts, res):
                p2, sy2, form2, o = c
                per_id = None
                tvals = sorted({ts[i] for i in ids})
                if r[0] == "err" and len(tvals) > 1:
                    head, pre, tail, _s = _nest_place(placement, wsql, "k = -1")
                    if run_exprs(cur, acc, [e], pre, tail, head)[0][0] == "ok":  # the error depends on the data
                        acc.count("refined_per_value")
                        per_id = {}
                        for tv in tvals:
                            head, pre, tail, _s = _nest_place(placement, wsql, f"t = {tv} and not x")
                            rr = run_exprs(cur, acc, [e], pre, tail, head)[0]
                            got = _by_id(rr[1]) if rr[0] == "ok" else None
                            for i in ids:
                                if ts[i] == tv:
                                    per_id[i] = ("ok", got.get(i, ())) if got is not None else rr
                if per_id is None:
                    got = _by_id(r[1]) if r[0] == "ok" else None
                    per_id = {i: (("ok", got.get(i, ())) if got is not None else r) for i in ids}
                stats: dict = {}
                sig = []
                ok_rows = set()
                for i in ids:
                    exp, tgt = per[i]
                    rr = per_id[i]
                    sig.append((i, rr[0], rr[1]))
                    if exp is not None and exp is not J.MISSING:
                        acc.nontrivial(("nest", wid, p1, sy1, p2, sy2, o, canon(docs[i])))
                    fk = tuple(sorted(nest_feats(wrapper, docs[i], p1, form1, p2, form2, o, xs[i], tgt).items()))
                    st = stats.setdefault(fk, [0, 0, None])
                    st[0] += 1
                    if _judge(OPS[o]["mode"], exp, rr):
                        ok_rows.add(i)
                    else:
                        st[1] += 1
                        if st[2] is None:
                            head, _pre, tail, _s = _nest_place(placement, wsql, single=True)
                            sql1 = f"{head}select {e}{tail}"
                            st[2] = (
                                {"sql": sql1, "document": docs[i], "expected": repr(exp), "observed": _observed(rr)},
                                _replay_payload(nest_load_sql([docs[i]]), sql1, enc(OPS[o]["mode"], exp)),
                            )
                right[c] = ok_rows
                acc.count("evaluations", len(ids))
                acc.obs(("nest", wid, p1, sy1, p2, sy2, o, sig))
                for fk in sorted(stats):
                    n, nfail, example = stats[fk]
                    acc.outcome(("nest", wid, o, fk, "fail" if nfail else "ok"))
                    _record(acc, "C11.nested", dict(fk), n, nfail, example)
        return right

    for sy1, xsql, form1 in renderings("v", p1, NEST_SYN):
        # level 0: the inner path with the conversion the wrapper applies to it, on its own
        iexp = {i: expected(inner, xs[i]) for i in allids}
        live0 = [i for i in allids if iexp[i] is not J.UNDEMANDED]
        _set_excluded(w, set(allids) - set(live0))
        r0 = run_exprs(cur, acc, [OPS[inner]["tpl"].format(x=xsql)], ["id"], " from jn where id in (select id from kk where not x)")[0]
        got0 = _by_id(r0[1]) if r0[0] == "ok" else {}
        good0 = [i for i in live0 if r0[0] == "ok" and _judge(OPS[inner]["mode"], iexp[i], ("ok", got0.get(i, ())))]
        acc.count("shadowed_cells", len(live0) - len(good0))
        wsql = tpl.format(X=xsql, V="v")
        src = _nest_place(placement, wsql, "true")[3]
        combos = [c for c in nest_exprs(wrapper, tier) if not nest_skipped(wrapper, form1, c[2])]

        def rows_of(c, among):
            per = {}
            for i in among:
                e, tgt = _nest_expected(wrapper, docs[i], xs[i], c[0], c[3])
                if e is not J.UNDEMANDED:
                    per[i] = (e, tgt)
            return per

        # level 1: the bare nested extraction; level 2: operations on top of it, on the rows where it is right
        raws = [c for c in combos if c[3] == "raw"]
        right = evaluate(raws, lambda c: rows_of(c, good0), wsql, src, sy1, form1)
        rest = [c for c in combos if c[3] != "raw"]
        base_ok = {(c[0], c[1]): right.get(c, set()) for c in raws}
        acc.count("shadowed_cells", sum(len(good0) - len(base_ok.get((c[0], c[1]), ())) for c in rest))
        evaluate(rest, lambda c: rows_of(c, sorted(base_ok.get((c[0], c[1]), ()))), wsql, src, sy1, form1)
    if wi % 5 == 0 and pi == 0:
        acc.sample({"mode": "nest", "wrapper": tpl, "inner_path": list(p1), "documents": len(docs), "one_document": docs[1],
                    "some_expressions": [OPS[o]["tpl"].format(x=_render(tpl.format(X=_render("v", p1, "colon")[0], V="v"), p2, sy2)[0])
                                         for (p2, sy2, _f, o) in nest_exprs(wrapper, tier)[5:40:9]]})  # fmt: skip
    return None


def nestlit_cells(doc, p1, tier):
    """the inline wrappers on a PARSE_JSON('<document>') literal (one document, its own inner path)"""
    src0 = f"parse_json({_sqlstr(canon(doc))})"
    x = J.navigate(doc, p1)
    cells = []
    syn = ["colon", "bracket"] if tier == "quick" else NEST_SYN
    for wrapper in NEST_WRAPPERS:
        wid, tpl, inner, ref, fam, placement, _syns = wrapper
        if placement != "inline":
            continue
        for sy1, xsql, form1 in renderings(src0, p1, syn):
            iexp = expected(inner, x)
            if iexp is J.UNDEMANDED:
                continue
            base = len(cells)
            cells.append({"expr": OPS[inner]["tpl"].format(x=xsql), "mode": OPS[inner]["mode"], "exp": iexp, "clause": clause_of(inner, x), "deps": [],
                          "feats": {"source": "lit", "fc": formclass(form1), "fco": formclass_ops(form1), "op": inner, "kind": J.kind_of(x)},
                          "key": ("nestlit0", canon(doc), wid, sy1)})  # fmt: skip
            wsql = tpl.format(X=xsql, V=src0)
            rawcell = {}
            for p2, sy2, form2, o in sorted(nest_exprs(wrapper, tier, lit=True), key=lambda c: c[3] != "raw"):
                if nest_skipped(wrapper, form1, form2):
                    continue
                exp, tgt = _nest_expected(wrapper, doc, x, p2, o)
                if exp is J.UNDEMANDED:
                    continue
                deps = [base] if o == "raw" else [base, rawcell[(p2, sy2)]] if (p2, sy2) in rawcell else None
                if deps is None:
                    continue
                if o == "raw":
                    rawcell[(p2, sy2)] = len(cells)
                cells.append({"expr": OPS[o]["tpl"].format(x=_render(wsql, p2, sy2)[0]), "mode": OPS[o]["mode"], "exp": exp, "clause": "C11.nested",
                              "deps": deps, "key": ("nestlit", canon(doc), wid, sy1, p2, sy2, o),
                              "feats": dict(nest_feats(wrapper, doc, p1, form1, p2, form2, o, x, tgt), op=o)})  # fmt: skip
    return cells


def work_nestlit(item, acc, tier):
    _, di = item
    doc, p1 = nest_lit_docs_for(tier)[di]
    w = _world(tier)
    cells = nestlit_cells(doc, p1, tier)
    run_cells(w["cur"], acc, cells)
    if di == 0:
        acc.sample({"mode": "nestlit", "document": doc, "inner_path": list(p1), "expressions": len(cells), "some": [c["expr"] for c in cells[3:60:14]]})
    return None



# ---- operations on the VALUE column of LATERAL FLATTEN ---------------------------------------------------------------------------
# FVAL_DOCS (arrays) x FVAL_INPUTS (what is flattened) x FVAL_VARIANTS (how VALUE and the tables are named) x
# (every value op, text function, cast context and uncast context applied to VALUE in the select list; every boolean
# context as the WHERE clause). The reference is the Python list: one row per element, in order, op applied to it.
FVAL_ELEMS = ["  pad  ", "Str", 'q"\\', "", 0, -1.5, True, None, [1], {"k": " v "}, []]
FVAL_ELEMS_QUICK = ["  pad  ", 'q"\\', 0, True, None, {"k": " v "}, []]
FSPLIT_STRINGS = ["  padded  ,plain", "Str, p ,S", "x", "", 'q"\\,Str', None]
FVAL_INPUTS = [  # (id, table, flattened expression over {t} = table qualifier (with its dot) or '', what the row's list is)
    ("column", "jf", "{t}v"),
    ("path", "jf", "{t}w:a"),
    ("bracket", "jf", "{t}w['a']"),
    ("split", "sf", "split({t}s, ',')"),
]
FVAL_VARIANTS = [  # (id, table alias?, flatten alias, how VALUE is written)
    ("t.f.qualified", True, "f", "f.value"),
    ("t.f.bare", True, "f", "value"),
    ("t.bare", True, "", "value"),
    ("cte.f.qualified", False, "f", "f.value"),
    ("cte.bare", False, "", "value"),
]
FVAL_WHERE = ["c_eq", "c_ne", "c_isnull", "c_and", "c_or", "c_not", "c_in", "c_like", "c_rhs_eq", "c_trim_eq", "c_upper_eq"]


def fval_docs_for(tier):
    el = FVAL_ELEMS if tier == "thorough" else FVAL_ELEMS_QUICK
    return _dedupe([[]] + [[x] for x in el] + [[x, y] for x in el for y in el] + [list(FVAL_ELEMS)])


def fval_load_sql(ids, tier):
    docs = fval_docs_for(tier)
    rows = ", ".join(f"({n}, {_sqlstr(canon(docs[n]))}, {_sqlstr(canon({KEY1: docs[n]}))})" for n in ids)
    return ["create or replace table jf (id int, v variant, w variant)",
            f"insert into jf select column1, parse_json(column2), parse_json(column3) from values {rows}"]  # fmt: skip


def fsplit_load_sql(ids):
    rows = ", ".join(f"({n}, {'NULL' if FSPLIT_STRINGS[n] is None else _sqlstr(FSPLIT_STRINGS[n])})" for n in ids)
    return ["create or replace table sf (id int, s varchar)", f"insert into sf values {rows}"]


def fval_lists(inp, tier):
    """the Python list each row's FLATTEN input denotes"""
    if inp[0] == "split":
        return [J.split(s, ",") or [] for s in FSPLIT_STRINGS]
    return fval_docs_for(tier)


def _fval_stmt(inp, variant, cond=None, single=False):
    """-> (head, leading column, tail, VALUE text, how a WHERE predicate is attached to the tail)"""
    _iid, table, tpl = inp
    _vid, talias, falias, val = variant
    where = "" if single else f" where id in (select id from kk where {cond})"
    if talias:
        return "", "t.id", f" from (select * from {table}{where}) t, lateral flatten(input => {tpl.format(t='t.')}) {falias}", val, " where "
    return f"with s as (select * from {table}{where}) ", "id", f" from s, lateral flatten(input => {tpl.format(t='')}) {falias}", val, " where "


# Where the VALUE is consumed. FVAL_VARIANTS above: in the SELECT that holds the FLATTEN. Below: the flattened rows are
# exported (id, VALUE) by an inner select -- FVAL_EXPORTS: with / without FLATTEN alias -- and every operation is applied in
# an outer query that reads them from a CTE, from a derived table in FROM, or from a view, referring to the column
# unqualified, qualified by the name of the CTE / view, or qualified by an alias given to it in the outer FROM.
FVAL_EXPORTS = [("f", "f", "f.value"), ("bare", "", "value")]  # (id, FLATTEN alias, how the inner select lists VALUE)
FVAL_CONSUMERS = [  # (id, kind, outer FROM item over {n} = name of the CTE / view, how VALUE is written outside)
    ("cte.bare", "cte", "{n}", "value"),
    ("cte.name", "cte", "{n}", "{n}.value"),
    ("cte.alias", "cte", "{n} i", "i.value"),
    ("derived.bare", "derived", "s", "value"),
    ("derived.alias", "derived", "s", "s.value"),
    ("view.bare", "view", "{n}", "value"),
    ("view.name", "view", "{n}", "{n}.value"),
    ("view.alias", "view", "{n} i", "i.value"),
]


def fvalx_items(tier):
    """both tiers: the complete product inputs x exports x consumers (the tiers differ in the element alphabet)"""
    return [("fvalx", ii, xi, ci) for ii in range(len(FVAL_INPUTS)) for xi in range(len(FVAL_EXPORTS)) for ci in range(len(FVAL_CONSUMERS))]


def _fval_view_name(inp, export):
    return f"fvw_{inp[0]}_{export[0]}"


def _fval_inner(inp, export, where=""):
    _iid, table, tpl = inp
    _xid, falias, val = export
    return f"select t.id, {val} from (select * from {table}{where}) t, lateral flatten(input => {tpl.format(t='t.')}) {falias}".rstrip()


def fval_view_sql(inp, export):
    """the view exporting the flattened rows of the whole table (rows are selected outside, by id)"""
    _iid, table, tpl = inp
    _xid, falias, val = export
    body = f"select t.id, {val} from {table} t, lateral flatten(input => {tpl.format(t='t.')}) {falias}".rstrip()
    return f"create or replace view {_fval_view_name(inp, export)} as {body}"


def _fvalx_stmt(inp, export, consumer, cond=None, single=False):
    """-> (head, leading column, tail, VALUE text, how a WHERE predicate is attached to the tail)"""
    _cid, kind, frm, val = consumer
    where = "" if single else f" where id in (select id from kk where {cond})"
    if kind == "cte":
        return f"with items as ({_fval_inner(inp, export, where)}) ", "id", " from " + frm.format(n="items"), val.format(n="items"), " where "
    if kind == "derived":
        return "", "id", f" from ({_fval_inner(inp, export, where)}) {frm}", val, " where "
    n = _fval_view_name(inp, export)
    return "", "id", f" from {frm.format(n=n)}{where}", val.format(n=n), " and " if where else " where "


def fval_ops(tier):
    return [o for o in ALL_IDS]


FVAL_DEPS = {"c_trim_eq": ("trim",)}  # besides OPS[..]["deps"]: ops whose verdict must be right on a row before this one is judged


def work_fval(item, acc, tier):
    """item = ('fval', input index, variant index): every operation in the SELECT that holds the FLATTEN"""
    _, ii, vi = item
    inp, variant = FVAL_INPUTS[ii], FVAL_VARIANTS[vi]
    plan = {"id": variant[0], "stmt": lambda cond=None, single=False: _fval_stmt(inp, variant, cond, single),
            "fco": "value", "case": None, "ordered": True, "setup": [], "sample": vi == 0}  # fmt: skip
    return _fval_run(acc, tier, inp, plan)


def work_fvalx(item, acc, tier):
    """item = ('fvalx', input index, export index, consumer index): every operation in an outer query that reads the
    flattened rows from a CTE / derived table / view. Through a view the outer statement holds an ordinary VARIANT
    column without a path: that is the written shape 'root' of the column layer (same class keys). Without an ORDER BY
    nothing promises the outer query the order of the inner one: rows are compared as a multiset per input row."""
    _, ii, xi, ci = item
    inp, export, consumer = FVAL_INPUTS[ii], FVAL_EXPORTS[xi], FVAL_CONSUMERS[ci]
    view = consumer[1] == "view"
    plan = {"id": f"{export[0]}>{consumer[0]}", "stmt": lambda cond=None, single=False: _fvalx_stmt(inp, export, consumer, cond, single),
            "fco": "root" if view else "value>" + consumer[0], "case": consumer[0], "ordered": False,
            "setup": [fval_view_sql(inp, export)] if view else [], "sample": xi == 0 and ii == 0}  # fmt: skip
    return _fval_run(acc, tier, inp, plan)


def _fval_run(acc, tier, inp, plan):
    w = _world(tier)
    cur = w["cur"]
    stmt = plan["stmt"]
    lists = fval_lists(inp, tier)
    allids = list(range(len(lists)))
    _set_kk(w, ("fval", inp[1], tier), [i for i in allids])  # t = row id: a data-dependent error is narrowed down to rows
    base_setup = (lambda i: fsplit_load_sql([i])) if inp[0] == "split" else (lambda i: fval_load_sql([i], tier))
    setup_of = lambda i: base_setup(i) + plan["setup"]  # noqa: E731

    def evaluate(exprs, rowset, judge_row, clause_feats, where="", ordered=True):
        """exprs: [(key, sql text, mode)]; judge_row(key, i) -> [expected per output row]. All over the rows `rowset`.
        ordered=False: the output rows of one input row are compared as a multiset (a WHERE clause: no order promised)"""
        ids = sorted(rowset)
        _set_excluded(w, set(allids) - set(ids))
        ordered = ordered and plan["ordered"]
        right = {}
        res = []

        def full(cond=None, single=False):
            head, pre, tail, _v, wj = stmt(cond, single)
            if not where:
                return head, pre, tail
            return head, pre, tail + (wj + where if wj == " where " else f"{wj}({where})")

        for ch in _chunks(exprs, BATCH):
            head, pre, tail = full("not x")
            res += run_exprs(cur, acc, [e[1] for e in ch], [pre], tail, head)
        for (key, e, mode), r in zip(exprs, res):
            per_id = None
            if r[0] == "err" and len(ids) > 1:
                head, pre, tail = full("k = -1")
                if run_exprs(cur, acc, [e], [pre], tail, head)[0][0] == "ok":  # the error depends on the data
                    acc.count("refined_per_value")
                    per_id = {}
                    for i in ids:
                        head, pre, tail = full(f"id = {i}")
                        rr = run_exprs(cur, acc, [e], [pre], tail, head)[0]
                        per_id[i] = ("ok", _by_id(rr[1]).get(i, ())) if rr[0] == "ok" else rr
            if per_id is None:
                got = _by_id(r[1]) if r[0] == "ok" else None
                per_id = {i: (("ok", got.get(i, ())) if got is not None else r) for i in ids}
            stats: dict = {}
            sig = []
            ok_rows = set()
            for i in ids:
                exps = judge_row(key, i)  # [(expected, element)]
                rr = per_id[i]
                if not ordered and rr[0] == "ok" and len(rr[1]) == len(exps):
                    # pair every expected value with an equal fetched one: first the one at its own position, then any
                    # other that is still free; what cannot be paired keeps the order it came in (so that a wrong value is
                    # attributed to the element it belongs to whenever the rows did come in element order)
                    got_i = rr[1]
                    pair = {n: n for n, (exp, _el) in enumerate(exps) if J.matches(mode, exp, got_i[n])}
                    free = [n for n in range(len(got_i)) if n not in pair.values()]
                    for n, (exp, _el) in enumerate(exps):
                        if n not in pair:
                            j = next((m for m in free if J.matches(mode, exp, got_i[m])), None)
                            if j is not None:
                                pair[n] = j
                                free.remove(j)
                    for n in range(len(exps)):
                        if n not in pair:
                            pair[n] = free.pop(0)
                    rr = ("ok", tuple(got_i[pair[n]] for n in range(len(exps))))
                sig.append((i, rr[0], rr[1]))
                whole = rr[0] == "ok" and len(rr[1]) == len(exps)
                row_ok = True
                cells = exps if exps else [(None, J.MISSING)]  # an empty list: one cell "no row expected"
                for n, (exp, el) in enumerate(cells):
                    good = whole and (not exps or J.matches(mode, exp, rr[1][n]))
                    if exp is not None and exp is not J.MISSING:
                        acc.nontrivial(("fval", inp[0], plan["id"], key, canon(el)))
                    clause, feats = clause_feats(key, el)
                    fk = (clause, tuple(sorted(feats.items())))
                    st = stats.setdefault(fk, [0, 0, None])
                    st[0] += 1
                    if not good:
                        row_ok = False
                        st[1] += 1
                        if st[2] is None:
                            head, _pre, tail = full(single=True)
                            sql1 = f"{head}select {e}{tail}"
                            st[2] = (
                                {"sql": sql1, "list": lists[i], "expected": repr([x for x, _el in exps]), "observed": _observed(rr)},
                                _replay_payload(setup_of(i), sql1, [enc(mode, x) for x, _el in exps], rows="seq" if ordered else "bag"),
                            )
                if row_ok:
                    ok_rows.add(i)
            right[key] = ok_rows
            acc.count("evaluations", len(ids))
            acc.obs(("fval", inp[0], plan["id"], key, where, sig))
            for fk in sorted(stats):
                n, nfail, example = stats[fk]
                acc.outcome(("fval", key, fk, "fail" if nfail else "ok"))
                _record(acc, fk[0], dict(fk[1]), n, nfail, example)
        return right

    val = stmt("true")[3]
    extra = {"case": plan["case"]} if plan["case"] else {}

    def feats_of(o, el):
        if el is J.MISSING:
            return "C11.flatten", dict({"fco": plan["fco"], "op": o, "kind": "none", "source": "fval"}, **extra)
        return clause_of(o, el), {"fco": plan["fco"], "op": o, "kind": J.kind_of(el), "source": "fval"}

    def rows_for(o, among):
        return {i for i in among if lists[i] and all(expected(o, el) is not J.UNDEMANDED for el in lists[i])}

    def judge(o, i):
        return [(expected(o, el), el) for el in lists[i]]

    # level 0: VALUE itself; then every other op on the rows where VALUE and the ops it is built from are right
    right = evaluate([("raw", OPS["raw"]["tpl"].format(x=val), "json")], set(allids), judge, feats_of)
    good0 = right["raw"]
    acc.count("shadowed_cells", len(allids) - len(good0))
    done = {"raw": good0}

    def deps_of(o):
        return tuple(d for d in OPS[o]["deps"] + FVAL_DEPS.get(o, ()) if d != "raw")

    ops = [o for o in ALL_IDS if o != "raw"]
    for level in ([o for o in ops if not deps_of(o)], [o for o in ops if deps_of(o)]):
        groups: dict = {}
        for o in level:
            cand = rows_for(o, good0)
            rs = frozenset(cand.intersection(*[done.get(d, set()) for d in deps_of(o)]))
            acc.count("shadowed_cells", len(cand) - len(rs))
            if rs:
                groups.setdefault(rs, []).append(o)
        for rs in sorted(groups, key=sorted):
            done.update(evaluate([(o, OPS[o]["tpl"].format(x=val), OPS[o]["mode"]) for o in groups[rs]], rs, judge, feats_of))
    # WHERE placement: the rows whose element satisfies the predicate, in order
    for o in FVAL_WHERE:
        rs = rows_for(o, good0) & done.get(o, set())
        if not rs:
            continue

        def judge_where(_key, i, o=o):
            return [(el, el) for el in lists[i] if expected(o, el) is True]

        def feats_where(_key, el, o=o):
            return "C11.context", {"fco": plan["fco"], "op": o + ".where", "kind": "arr", "source": "fval"}

        evaluate([(o + ".where", val, "json")], rs, judge_where, feats_where, where=OPS[o]["tpl"].format(x=val), ordered=False)
    if plan["sample"]:
        head, _pre, tail, _v, _wj = stmt(single=True)
        acc.sample({"mode": "fval", "input": inp[2], "variant": plan["id"], "rows": len(lists), "one_list": lists[min(3, len(lists) - 1)],
                    "statements": [f"{head}select {OPS[o]['tpl'].format(x=val)}{tail}" for o in ("trim", "rtrim_chars", "c_trim_eq")]})  # fmt: skip
    return None



# ---- the route of the document ----------------------------------------------------------------------------------------------------
# Every ROUTE_DOCS document (all JSON escapes: \\ \" \n \t \r \/ \uXXXX, raw non-ASCII, a trailing backslash, a backslash
# followed by a letter, the characters of an escape written out) in each of its JSON texts, through every route into a
# VARIANT column (or straight into the expression), then the navigation battery. The reference does not change: Python
# navigation of the document. A raw tab / newline inside a JSON string is not valid JSON and only travels as a Python
# value (write_pandas).
ROUTE_DOCS = [
    {"a": "back\\nslash", "n": 1},
    {"a": "t\tab", "B": "line\nfeed\r"},
    {"a": "q\"uo'te", "B": [True, None]},
    {"a": "é/ü", "zz": {"a": "€"}},
    {"a": "Str", "n": -1.5},
    ["s\\", {"a": "\\"}, 1.5],
    {"a": {"a": ["\t", "\\\\n"]}},
    {"B": "\u0001 \\u0041 100% ?"},
    "a\\b",
]
ROUTES = [
    "literal.quote2", "literal.backslash_quote", "literal.dollar", "param.pyformat", "param.pyformat_named", "param.qmark",
    "executemany.pyformat", "executemany.qmark", "variable.insert", "variable.insert_try", "variable.direct", "variable.direct_try",
    "write_pandas.docs", "write_pandas.null_first", "write_pandas.string_first", "write_pandas.number_first",
    "write_pandas.null_last", "write_pandas.reversed", "write_pandas.flat_docs", "write_pandas.flat_null_first",
]  # fmt: skip
# flat objects (strings and integers only, differing key sets): the shape an engine may take for a MAP / STRUCT column
ROUTE_FLAT_DOCS = [{"a": "back\\nslash", "n": 1}, {"B": "t\tab", "zz": 2}, {"a": 30, "B": 4}]
ROUTE_OPS = {"quick": ["raw", "varchar"], "thorough": ["raw", "varchar", "string", "upper", "lower", "trim", "array_size"]}


def route_texts(doc):
    """the JSON texts a document travels as: \\uXXXX escapes, raw non-ASCII characters, and (if it has one) \\/ for /"""
    out = [json.dumps(doc, separators=(",", ":")), json.dumps(doc, ensure_ascii=False)]
    if "/" in out[0]:
        out.append(out[0].replace("/", "\\/"))
    seen, res = set(), []
    for t in out:
        if t not in seen:
            seen.add(t)
            res.append(t)
    return res


def route_rows(route):
    """[(document, text or None)] in row order (row id = position); None documents are rows without a document"""
    if route.startswith("write_pandas"):
        docs = [(d, None) for d in ROUTE_DOCS if isinstance(d, (dict, list))]
        arr = route.split(".")[1]
        if arr.startswith("flat"):
            flat = [(d, None) for d in ROUTE_FLAT_DOCS]
            return [(J.MISSING, None)] + flat if arr == "flat_null_first" else flat
        if arr == "null_first":
            return [(J.MISSING, None)] + docs
        if arr == "string_first":
            return [(J.UNDEMANDED, "1")] + docs  # a string cell: what it becomes in a VARIANT column is not demanded
        if arr == "number_first":
            return [(J.UNDEMANDED, 1)] + docs
        if arr == "null_last":
            return docs + [(J.MISSING, None)]
        if arr == "reversed":
            return docs[::-1]
        return docs
    return [(d, t) for d in ROUTE_DOCS for t in route_texts(d)]


def _sqlstr_bq(s: str) -> str:
    """single-quoted literal with the quote escaped by a backslash"""
    return "'" + s.replace("\\", "\\\\").replace("'", "\\'") + "'"


def esc_feature(doc) -> str:
    """which characters of the document's strings need care on the way: b(ackslash) c(ontrol) q(uote) u(non-ASCII)"""
    text = json.dumps(doc, ensure_ascii=False)
    vals = "".join(x for x in _strings(doc))
    f = ""
    f += "b" if "\\" in vals else ""
    f += "c" if any(ord(ch) < 32 for ch in vals) else ""
    f += "q" if ('"' in vals or "'" in vals) else ""
    f += "u" if any(ord(ch) > 126 for ch in text) else ""
    return f or "-"


def _strings(d):
    if isinstance(d, str):
        yield d
    elif isinstance(d, list):
        for x in d:
            yield from _strings(x)
    elif isinstance(d, dict):
        for x in d.values():
            yield from _strings(x)


def route_load(fs, route, table, rows):
    """carry the rows into `table` (id int, v variant) by `route` on a connection of its own; returns the connection"""
    import snowflake.connector

    style = "qmark" if route.endswith("qmark") else "pyformat"
    old = snowflake.connector.paramstyle
    snowflake.connector.paramstyle = style
    try:
        conn = fs.connect(database="db1", schema="s1")
    finally:
        snowflake.connector.paramstyle = old
    cur = conn.cursor()
    cur.execute(f"create or replace table {table} (id int, v variant)")
    if route.startswith("write_pandas"):
        import fakesnow.pandas_tools
        import pandas as pd

        cells = [None if d is J.MISSING else t if d is J.UNDEMANDED else d for d, t in rows]
        df = pd.DataFrame({"ID": list(range(len(rows))), "V": pd.Series(cells, dtype="object")})
        fakesnow.pandas_tools.write_pandas(conn, df, table.upper())
        return conn
    ph = "?" if style == "qmark" else "%s"
    if route.startswith("executemany"):
        cur.executemany(f"insert into {table} select {ph}, parse_json({ph})", [(n, t) for n, (_d, t) in enumerate(rows)])
        return conn
    for n, (_d, t) in enumerate(rows):
        if route == "literal.quote2":
            cur.execute(f"insert into {table} select {n}, parse_json({_sqlstr(t)})")
        elif route == "literal.backslash_quote":
            cur.execute(f"insert into {table} select {n}, parse_json({_sqlstr_bq(t)})")
        elif route == "literal.dollar":
            cur.execute(f"insert into {table} select {n}, parse_json($${t}$$)")
        elif route in ("param.pyformat", "param.qmark"):
            cur.execute(f"insert into {table} select {ph}, parse_json({ph})", (n, t))
        elif route == "param.pyformat_named":
            cur.execute(f"insert into {table} select %(i)s, parse_json(%(v)s)", {"i": n, "v": t})
        elif route in ("variable.insert", "variable.insert_try"):
            cur.execute(f"set doc = {_sqlstr(t)}")
            fn = "try_parse_json" if route.endswith("try") else "parse_json"
            cur.execute(f"insert into {table} select {n}, {fn}($doc)")
        else:
            raise ValueError(route)
    return conn


def route_exprs(tier, docs):
    """[(path, syntax, form, sql over {S}, op)] for every relevant path of any of the documents"""
    paths = []
    for d in docs:
        if d is J.MISSING or d is J.UNDEMANDED:
            continue
        for p_ in relevant_paths(d):
            if p_ not in paths:
                paths.append(p_)
    out = []
    for p_ in paths:
        for sy, sql, form in renderings("{S}", p_, ["colon", "bracket"]):
            for o in ROUTE_OPS[tier]:
                if not p_ and o not in ("raw", "array_size"):
                    continue  # text conversions of the bare column: the un-nested 'root' shape (C11.text fco=root)
                out.append((p_, sy, form, sql, o))
    return out


def _route_judge(acc, route, docs, combos, per_expr, sqls, setup_hint):
    """per_expr[n] = {row: ('ok', values) | ('err', ..)}; verdict per (op, kind of the navigated value, escapes)"""
    for (p_, sy, form, _sql, o), per_id, sql in zip(combos, per_expr, sqls):
        stats: dict = {}
        sig = []
        for i, d in enumerate(docs):
            if d is J.UNDEMANDED or i not in per_id:
                continue
            tgt = J.navigate(d, p_)
            exp = expected(o, tgt)
            if exp is J.UNDEMANDED:
                continue
            rr = per_id[i]
            sig.append((i, rr[0], rr[1]))
            if exp is not None and exp is not J.MISSING:
                acc.nontrivial(("route", route, i, p_, sy, o))
            fk = (("esc", "-" if d is J.MISSING else esc_feature(d)), ("kind", J.kind_of(tgt)), ("op", o), ("route", route))
            st = stats.setdefault(fk, [0, 0, None])
            st[0] += 1
            if not _judge(OPS[o]["mode"], exp, rr):
                st[1] += 1
                if st[2] is None:
                    st[2] = (
                        {"sql": sql, "route": route, "document": None if d is J.MISSING else d, "expected": repr(exp), "observed": _observed(rr)},
                        {"route": route, "row": i, "steps": list(p_), "syntax": sy, "op": o},
                    )
            acc.count("evaluations")
        acc.obs(("route", route, p_, sy, o, sig))
        for fk in sorted(stats):
            n, nfail, example = stats[fk]
            acc.outcome(("route", route, fk, "fail" if nfail else "ok"))
            _record(acc, "C11.route", dict(fk), n, nfail, example)


def route_check(fs, acc, tier, route, only=None):
    """run one route (only = (row, steps, syntax, op) for a replay); returns the observations of the last expression"""
    rows = route_rows(route)
    docs = [d for d, _t in rows]
    direct = route.startswith("variable.direct")
    table = "rt_" + route.replace(".", "_")
    combos = route_exprs(tier, docs)
    if only is not None:
        combos = [c for c in combos if (list(c[0]), c[1], c[4]) == (only[1], only[2], only[3])]
    last = None
    if direct:
        # the document is used straight from the variable: SELECT <battery over PARSE_JSON($doc)>, one document at a time
        conn = fs.connect(database="db1", schema="s1")
        cur = conn.cursor()
        fn = "try_parse_json($doc)" if route.endswith("try") else "parse_json($doc)"
        per_expr = [dict() for _ in combos]
        sqls = [f"set doc = '<text>'; select {OPS[c[4]]['tpl'].format(x=c[3].format(S=fn))}" for c in combos]
        for i, (d, t) in enumerate(rows):
            if only is not None and i != only[0]:
                continue
            try:
                cur.execute(f"set doc = {_sqlstr(t)}")
            except Exception as e:  # noqa: BLE001
                for pe in per_expr:
                    pe[i] = ("err", _exc_name(e), str(e).split("\n")[0][:200])
                continue
            mine = [n for n, c in enumerate(combos) if c[0] in relevant_paths(d)]
            res = []
            for ch in _chunks(mine, BATCH):
                res += run_exprs(cur, acc, [OPS[combos[n][4]]["tpl"].format(x=combos[n][3].format(S=fn)) for n in ch], [], "")
            for n, r in zip(mine, res):
                per_expr[n][i] = ("ok", tuple(v for _p, v in r[1])) if r[0] == "ok" else r
                last = per_expr[n][i]
        _route_judge(acc, route, docs, combos, per_expr, sqls, None)
        return last
    try:
        conn = route_load(fs, route, table, rows)
    except Exception as e:  # noqa: BLE001  the route itself rejects the documents
        err = ("err", _exc_name(e), str(e).split("\n")[0][:200])
        acc.obs(("route", route, "load", err))
        acc.count("evaluations")
        example = ({"sql": f"load of {len(rows)} documents by {route}", "route": route, "expected": "'loaded'", "observed": _observed(err)},
                   {"route": route, "row": 0, "steps": [], "syntax": "colon", "op": "load"})  # fmt: skip
        _record(acc, "C11.route", {"route": route, "op": "load", "kind": "any", "esc": "any"}, 1, 1, example)
        return err
    cur = conn.cursor()
    try:
        texts = [OPS[c[4]]["tpl"].format(x=c[3].format(S="v")) for c in combos]
        res = []
        for ch in _chunks(texts, BATCH):
            res += run_exprs(cur, acc, ch, ["id"], f" from {table}")
        per_expr = []
        for r in res:
            if r[0] == "ok":
                got = _by_id(r[1])
                per_expr.append({i: ("ok", got.get(i, ())) for i in range(len(rows))})
            else:
                per_expr.append({i: r for i in range(len(rows))})
        # the row count: every document exactly once
        _route_judge(acc, route, docs, combos, per_expr, [f"select {t} from {table}" for t in texts], None)
        if per_expr:
            last = per_expr[-1].get(only[0]) if only is not None else None
    finally:
        cur.execute(f"drop table if exists {table}")
    return last


def work_route(item, acc, tier):
    """item = ('route', route id)"""
    _, route = item
    w = _world(tier)
    route_check(w["fs"], acc, tier, route)
    if route in ("variable.insert", "write_pandas.null_first"):
        rows = route_rows(route)
        acc.sample({"mode": "route", "route": route, "rows": len(rows), "some_rows": core.jsonable([(None if d is J.MISSING else d, t) for d, t in rows[:3]]),
                    "expressions": len(route_exprs(tier, [d for d, _t in rows]))})  # fmt: skip
    return None


# ---- one session, statements that differ in letter case only ----------------------------------------------------------------
# JSON keys and JSON text are case-sensitive. A *family* is a statement template with one slot and the slot's variants, which
# differ from each other in letter case only: the key of a path step (depth 1 / depth 2; colon, quoted colon, bracket,
# GET_PATH syntax), the text of a document written as a $$..$$ / '..' constant, the string literal an extraction is compared
# with. Every permutation of the family's statements is one history, executed on a session (connection) of its own in that
# order: each pair of variants is met in both orders, directly adjacent and with other statements in between. Every answer is
# what Python navigation of the document gives -- whatever the session ran before.
SESS_KEYS = ["ab", "Ab", "AB", "aB"]  # the last one is in no document: a path through it is missing
SESS_DOC = {"ab": "s1", "Ab": "S2", "AB": 3, "o": {"ab": 4, "Ab": "s5", "AB": [6]}}
SESS_LIT_DOCS = [{"k": "abc", "n": [1, 2]}, {"k": "Abc", "n": [1, 2]}, {"k": "ABC", "n": [1, 2]}, {"K": "abc", "n": [1, 2]}]
SESS_CMP = ["s1", "S1"]
SESS_PATH_OPS = ["raw", "varchar", "upper", "u_isnull", "c_rhs_eq"]
SESS_SYN = ["colon", "quoted", "bracket", "getpath"]


def sess_load_sql():
    return ["create or replace table jc (id int, v variant)", f"insert into jc select 0, parse_json({_sqlstr(canon(SESS_DOC))})"]


def sess_families():
    """[(family id, class features, [(variant label, select expression, mode, expected)]), from-clause]"""
    fams = []
    for depth, prefix in ((1, ()), (2, ("o",))):
        for sy in SESS_SYN:
            for o in SESS_PATH_OPS:
                stmts = []
                for k in SESS_KEYS:
                    steps = prefix + (k,)
                    xsql, form = _render("v", steps, sy)
                    stmts.append((k, OPS[o]["tpl"].format(x=xsql), OPS[o]["mode"], expected(o, J.navigate(SESS_DOC, steps))))
                fams.append((f"key{depth}.{sy}.{o}", {"vary": f"path-key.depth{depth}", "fc": formclass(form), "op": o}, stmts, " from jc"))
            # the same path as the WHERE clause: the row comes back exactly when the compared value is the navigated one
            stmts = []
            for k in SESS_KEYS:
                steps = prefix + (k,)
                xsql, form = _render("v", steps, sy)
                tgt = J.navigate(SESS_DOC, steps)
                hit = tgt is not J.MISSING and J.to_text(tgt) == J.to_text(J.navigate(SESS_DOC, prefix + ("Ab",)))
                stmts.append((k, "count(*)", "num", 1 if hit else 0, f" where {xsql}::varchar = {_sqlstr(J.to_text(J.navigate(SESS_DOC, prefix + ('Ab',))))}"))
            fams.append((f"key{depth}.{sy}.where", {"vary": f"path-key.depth{depth}", "fc": formclass(form), "op": "c_eq.where"}, stmts, " from jc"))
    for quote in ("dollar", "quote"):
        for o, steps in (("raw", ()), ("raw", ("k",)), ("varchar", ("k",)), ("upper", ("k",)), ("varchar", ("n", 1))):
            stmts = []
            for d in SESS_LIT_DOCS:
                t = canon(d)
                src = f"parse_json($${t}$$)" if quote == "dollar" else f"parse_json({_sqlstr(t)})"
                xsql, form = _render(src, steps, "colon")
                stmts.append((t, OPS[o]["tpl"].format(x=xsql), OPS[o]["mode"], expected(o, J.navigate(d, steps))))
            fams.append((f"doc.{quote}.{o}.{shape_of(steps)}", {"vary": f"document-text.{quote}", "fc": formclass(form), "op": o}, stmts, ""))
    for o, tpl, fn in (("c_eq", "{x}::varchar = {lit}", lambda t, lit: J.cmp3(t, "=", lit)), ("c_like", "{x}::varchar like {lit}", lambda t, lit: J.like3(t, lit))):
        stmts = [(lit, tpl.format(x="v:ab", lit=_sqlstr(lit)), "bool", fn(SESS_DOC["ab"], lit)) for lit in SESS_CMP]
        fams.append((f"cmp.{o}", {"vary": "compared-literal", "fc": "p", "op": o}, stmts, " from jc"))
    return fams


def work_sess(item, acc, tier):
    """item = ('sess', family index): every permutation of the family's statements, each on a fresh session. A statement is
    judged at a later position only if it is right as the first statement of a session (else it is the column / literal
    layers' finding); class = what varies, the written shape, the op -- position and neighbours are left out (one class per
    family shape, failing members listed in the example)."""
    _, fi = item
    w = _world(tier)
    fid, feats, stmts, frm = sess_families()[fi]
    sqls = [f"select {st[1]}{frm}{st[4] if len(st) > 4 else ''}" for st in stmts]

    def run_history(order):
        conn = w["fs"].connect(database="db1", schema="s1")
        try:
            cur = conn.cursor()
            return [_fetch(cur, sqls[n]) for n in order]
        finally:
            conn.close()

    def good(n, r):
        return stmts[n][3] is J.UNDEMANDED or _judge(stmts[n][2], stmts[n][3], r)

    first_ok = {}
    results = []
    for order in itertools.permutations(range(len(stmts))):
        rs = run_history(order)
        acc.count("traces")
        acc.count("statements", len(order))
        results.append((order, rs))
        first_ok.setdefault(order[0], good(order[0], rs[0]))
    sig = []
    nfirst = nlater = fail_first = fail_later = 0
    ex_first = ex_later = None
    for order, rs in results:
        for pos, (n, r) in enumerate(zip(order, rs)):
            acc.count("evaluations")
            sig.append((order, pos, r[0], r[1]))
            if stmts[n][3] is J.UNDEMANDED:
                continue  # executed as part of the history, nothing demanded of its own answer
            if stmts[n][3] is not None and stmts[n][3] is not J.MISSING:
                acc.nontrivial(("sess", fid, order, pos))
            ok = good(n, r)
            example = None if ok else (  # fmt: skip
                {"history": [sqls[m] for m in order[: pos + 1]], "judged": sqls[n], "expected": repr(stmts[n][3]), "observed": _observed(r)},
                {"history": [sqls[m] for m in order[:pos]], "setup": sess_load_sql(), "sql": sqls[n], "expected": enc(stmts[n][2], stmts[n][3]), "rows": "one"},
            )
            if pos == 0:
                nfirst += 1
                if not ok:
                    fail_first += 1
                    ex_first = ex_first or example
            elif first_ok[n]:
                nlater += 1
                if not ok:
                    fail_later += 1
                    ex_later = ex_later or example
            else:
                acc.count("shadowed_cells")
    acc.obs(("sess", fid, sig))
    acc.outcome(("sess", fid, bool(fail_first), bool(fail_later)))
    _record(acc, "C11.session", dict(feats, pos="first"), nfirst, fail_first, ex_first)
    _record(acc, "C11.session", dict(feats, pos="later"), nlater, fail_later, ex_later)
    if fi % 17 == 0:
        acc.sample({"mode": "sess", "family": fid, "statements": sqls, "histories": len(results)})
    return None


def work(item, acc, tier):
    kind = item[0]
    if kind == "col":
        return work_col(item, acc, tier)
    if kind == "flat":
        return work_flat(item, acc, tier)
    if kind == "lit":
        return work_lit(item, acc, tier)
    if kind == "ctor":
        return work_ctor(item, acc, tier)
    if kind == "misc":
        return work_misc(item, acc, tier)
    if kind == "nest":
        return work_nest(item, acc, tier)
    if kind == "nestlit":
        return work_nestlit(item, acc, tier)
    if kind == "fval":
        return work_fval(item, acc, tier)
    if kind == "fvalx":
        return work_fvalx(item, acc, tier)
    if kind == "route":
        return work_route(item, acc, tier)
    if kind == "sess":
        return work_sess(item, acc, tier)
    raise core.HarnessError(f"unknown item {item!r}")


def items_for(tier):
    paths = paths_for(tier)
    items = [("col", "v", pi) for pi in range(len(paths))]
    items += [("col", s, pi) for s in ("o", "a") for pi, p in enumerate(paths) if len(p) <= (1 if tier == "quick" else 2)]
    items += [("flat", pi) for pi in range(len(paths))]
    items += [("lit", di) for di in range(len(lit_docs_for(tier)))]
    items += [("ctor", di) for di in range(len(ctor_docs_for(tier)))]
    items += [("misc", m) for m in ("parse", "nullkey", "split", "flatlit")]
    items += [("nest", wi, pi) for wi in range(len(NEST_WRAPPERS)) for pi in range(len(NEST_P1[tier]))]
    items += [("nestlit", di) for di in range(len(nest_lit_docs_for(tier)))]
    items += [("fval", ii, vi) for ii in range(len(FVAL_INPUTS)) for vi in range(len(FVAL_VARIANTS))]
    items += fvalx_items(tier)
    items += [("route", r) for r in ROUTES]
    items += [("sess", fi) for fi in range(len(sess_families()))]
    return items


def run(ctx: core.Ctx):
    tier = ctx.tier
    docs, paths, ldocs, cdocs = docs_for(tier), paths_for(tier), lit_docs_for(tier), ctor_docs_for(tier)
    ctx.rule = (
        "complete product, nothing sampled: col = every document row x every step sequence over the step alphabet up to "
        "the length bound x every syntax rendering x every demanded op (value ops on all renderings and on the "
        "OBJECT/ARRAY typed columns; cast and uncast operator contexts on the canonical colon rendering); flat = FLATTEN "
        "columns over the same paths; lit = every relevant path (existing + one negative step per node) of every literal "
        "document; ctor = both constructor styles of every constructor document; misc = explicit lists; nest = every "
        "nested document row x inner path x inner syntax x wrapper x outer path x outer syntax x outer op (and the inline "
        "wrappers on every nested literal document); fval = every array row x flattened input x naming variant x every "
        "op / text function / context applied to the FLATTEN VALUE column, and every boolean context as WHERE; sess = every "
        "permutation of every family of statements differing in letter case only, one fresh session each; fvalx = the same "
        "ops applied in an outer query reading the flattened rows through every consumer (CTE / derived table / view x "
        "unqualified / name-qualified / alias-qualified reference) x export naming. One evaluation "
        "= one SQL expression evaluated by fakesnow on one document. Non-trivial = distinct (source, syntax, path, op, "
        "navigated value) whose expected value is not NULL / empty."
    )
    ctx.assumptions = [
        "Snowflake semantics as documented (GET/GET_PATH, VARIANT conversions, ARRAY_SIZE, OBJECT_CONSTRUCT, FLATTEN, SPLIT) "
        "encoded in mc/ref/json_nav.py and unit-tested in selftest/test_c11.py; no real Snowflake is consulted",
        "JSON null and SQL NULL are both None; cells listed under 'not demanded' in the module docstring are not compared",
        "an expression's value does not depend on the other expressions of the same SELECT list nor on the other rows "
        "of the table (raising statements are split down to single expressions / single target values)",
        "rows of a single-table LATERAL FLATTEN come out grouped per input row in element order (with a WHERE clause "
        "only the multiset of rows per input row is compared; likewise when the flattened rows are read through a CTE / "
        "derived table / view)",
    ]
    items = items_for(tier)
    ctx.pmap(work, items, chunk=1)
    ctx.exhaustive = True
    ctx.extra.update(
        {
            "documents_in_table": len(docs),
            "paths": len(paths),
            "literal_documents": len(ldocs),
            "constructor_documents": len(cdocs),
            "work_items": len(items),
            "nested_documents": len(nest_docs_for(tier)),
            "nested_literal_documents": len(nest_lit_docs_for(tier)),
            "nested_wrappers": [x[1] for x in NEST_WRAPPERS],
            "nested_inner_paths": [list(x) for x in NEST_P1[tier]],
            "nested_ops": NEST_OPS[tier],
            "flatten_value_rows": len(fval_docs_for(tier)),
            "flatten_value_inputs": [x[2] for x in FVAL_INPUTS],
            "flatten_value_variants": [x[0] for x in FVAL_VARIANTS],
            "flatten_value_exports": [x[2] for x in FVAL_EXPORTS],
            "flatten_value_consumers": [f"{x[0]}: from {x[2]} -> {x[3]}" for x in FVAL_CONSUMERS],
            "flatten_value_consumer_items": len(fvalx_items(tier)),
            "flatten_value_elements": [canon(x) for x in (FVAL_ELEMS if tier == "thorough" else FVAL_ELEMS_QUICK)],
            "null_run_patterns": NULLRUN_PATTERNS[tier],
            "routes": ROUTES,
            "session_families": [f[0] for f in sess_families()],
            "session_histories_per_family": "all permutations of the family's statements (4 variants: 24, 2 variants: 2)",
            "route_documents": [canon(d) for d in ROUTE_DOCS],
            "route_ops": ROUTE_OPS[tier],
            "atoms": [canon(a) for a in (ATOMS if tier == "thorough" else ATOMS_QUICK)],
            "steps": [str(x) for x in STEPS[tier]],
            "max_path_length": MAXLEN[tier] if tier == "thorough" else "2 (+ 11 listed paths of length 3)",
            "syntaxes": SYNTAXES,
            "ops": ALL_IDS,
            "bound": "complete finite product over the alphabets listed (documents x paths x syntaxes x ops x sources)",
        }
    )


def _fetch(cur, sql):
    try:
        cur.execute(sql)
        rows = cur.fetchall()
    except Exception as e:  # noqa: BLE001
        return ("err", _exc_name(e), str(e).split("\n")[0][:200])
    return ("ok", [r[0] for r in rows])


def check_payload(r):
    """re-execute one stored case on a fresh instance: (failed?, observed)"""
    fs, conn = _instance()
    cur = conn.cursor()
    for s in r["setup"]:
        cur.execute(s)
    for s in r.get("history", []):  # earlier statements of the same session (their own answers are not judged here)
        _fetch(cur, s)
    got = _fetch(cur, r["sql"])
    e = r["expected"]
    if isinstance(e, dict) and e.get("raises"):
        return got[0] != "err", got
    if r["rows"] == "bag":
        exps = [dec(x) for x in e]
        rest = list(got[1]) if got[0] == "ok" else []
        ok = got[0] == "ok" and len(rest) == len(exps)
        for m, x in exps if ok else []:
            j = next((n for n, g in enumerate(rest) if J.matches(m, x, g)), None)
            if j is None:
                ok = False
                break
            rest.pop(j)
        return not ok, got
    if r["rows"] == "seq":
        exps = [dec(x) for x in e]
        ok = got[0] == "ok" and len(got[1]) == len(exps) and all(J.matches(m, x, g) for (m, x), g in zip(exps, got[1]))
        return not ok, got
    mode, exp = dec(e)
    if "null" in e:
        ok = got[0] == "ok" and len(got[1]) == 1 and got[1][0] is None
    else:
        ok = _judge(mode, exp, got)
    return not ok, got


def replay(payload):
    r = payload["replay"]
    if "route" in r:
        acc = core.Acc()
        fs, _conn = _instance()
        got = route_check(fs, acc, "thorough", r["route"], only=(r["row"], r["steps"], r["syntax"], r["op"]))
        print("route:   ", r["route"], "row", r["row"], "path", r["steps"], r["syntax"], r["op"])
        print("document:", json.dumps(payload["detail"].get("document")))
        print("expected:", payload["detail"].get("expected"))
        print("observed:", got)
        bad = bool(acc.viol)
        print("verdict: ", f"{payload.get('clause')}/{payload.get('class')} violated" if bad else "ok")
        return bad
    for s in r["setup"]:
        print("setup:   ", s[:300])
    for s in r.get("history", []):
        print("before:  ", s[:300])
    print("sql:     ", r["sql"])
    print("expected:", json.dumps(r["expected"]))
    bad, got = check_payload(r)
    print("observed:", got)
    print("verdict: ", f"{payload.get('clause')}/{payload.get('class')} violated" if bad else "ok")
    return bool(bad)
