"""C03 — names resolve against each connection's own current database and schema.

E1: explicit-state BFS over histories of DDL / USE / DML / queries at all three qualification levels issued on two
connections of one instance. The reference model is a catalog dict + one (database, schema) context per connection,
updated from the *operation*; after every step the real instance is compared with it through two windows:
reported (conn.database, conn.schema, CURRENT_DATABASE(), CURRENT_SCHEMA()) and ground truth (raw DuckDB catalog
and table contents).

E2: product of statement shapes (the table reference in a CTE body, derived table, subquery, second table of a join,
UNION branch, source of INSERT..SELECT / CTAS / MERGE, next to a CTE name) x qualification level of every reference x
the ways a session reaches each kind of context (none, database only, full); each reference is resolved on its own by
the model and the statement needs a current database / schema if any of its references does.

Not demanded: which schema is current after USE DATABASE (taken from what conn.schema reports; reporters and name
resolution must then agree with it); error codes other than 90105/90106 (C07's subject).
"""
from __future__ import annotations

import copy

from mc import core, observe
from mc.util import exc_info

PID = "C03"
LEVEL = "model_checking"

DBS = ("DB1", "DB2")
SCHEMAS = ("S1", "S2")

# initial states: (connect args of c0, connect args of c1, set-up statements run on c0)
INITS = {
    "A": (("db1", "s1"), (None, None), ["create schema db1.s2", "create database db2", "create schema db2.s1", "create table db1.s1.t (x int)"]),
    "B": (("db1", "s1"), ("db2", "s2"), []),
    "C": ((None, None), ("db1", "s1"), []),
    # statement-shape product (see SHAPES): a table T with one distinguishing row in each of the four schemas
    "S": (
        ("db1", "s1"),
        (None, None),
        ["create schema db1.s2", "create database db2", "create schema db2.s1", "create schema db2.s2"]
        + [f"create table {d}.{s_}.t (x int)" for d in ("db1", "db2") for s_ in ("s1", "s2")]
        + [f"insert into db{d}.s{s_}.t values ({d}{s_})" for d in "12" for s_ in "12"],
    ),
}

# ---- statement shapes ---------------------------------------------------------------------------------------------------
# The property quantifies over "an unqualified or schema-qualified object name in ANY statement": the name may sit in
# the plainest position (the only table of the statement) or in a CTE body, a derived table, a scalar / WHERE subquery,
# the second table of a join, a UNION branch, the source of INSERT..SELECT / CTAS / MERGE, and next to the name of a
# CTE (which is no table and needs no context). {A} / {B} are table references written at a qualification level.
# name: (sql template, kind)   kind: rows = query whose result is compared, dml = effect compared through ground truth
SHAPES = {
    "plain": ("select x from {A}", "rows"),
    "cte_body": ("with c as (select x from {A}) select x from c", "rows"),
    "cte_chain": ("with c as (select x from {A}), d as (select x from c) select x from d", "rows"),
    "cte_named_like_table": ("with t as (select x from {A}) select x from t", "rows"),
    "derived_table": ("select q.x from (select x from {A}) q", "rows"),
    "scalar_subquery": ("select (select max(x) from {A}) as x", "rows"),
    "cte_then_join": ("with c as (select 1 as x) select c.x, b.x from c join {B} b on b.x > 0", "rows"),
    "join_then_cte": ("with c as (select 1 as x) select a.x, c.x from {A} a join c on a.x > 0", "rows"),
    "join": ("select a.x, b.x from {A} a join {B} b on b.x > 0", "rows"),
    "comma_join": ("select a.x, b.x from {A} a, {B} b", "rows"),
    "cte_body_join": ("with c as (select x from {A}) select c.x, b.x from c join {B} b on b.x > 0", "rows"),
    "two_cte_bodies": ("with c as (select x from {A}), d as (select x from {B}) select c.x, d.x from c join d on d.x > 0", "rows"),
    "where_subquery": ("select a.x from {A} a where a.x <= (select max(b.x) from {B} b)", "rows"),
    "select_list_subquery": ("select a.x, (select max(b.x) from {B} b) from {A} a", "rows"),
    "union": ("select x from {A} union all select x from {B}", "rows"),
    "insert_select": ("insert into {A} (x) select {tag} from {B}", "dml"),
    "insert_select_cte": ("insert into {A} (x) with c as (select x from {B}) select {tag} from c", "dml"),
    "ctas": ("create table {U} as select x from {B}", "dml"),
    "merge_using_table": ("merge into {A} as tgt using {B} as src on tgt.x = src.x when not matched then insert (x) values (src.x)", "dml"),
    # no table at all: only a CTE name, also one spelled like the table
    "cte_only": ("with c as (select 1 as x) select x from c", "rows"),
    "cte_only_named_like_table": ("with t as (select 1 as x) select x from t", "rows"),
}
# syntactic role of {A} / {B}: main = first table of the outermost statement, joined = a later table of the outermost
# statement (join, comma, UNION branch), target / source = of INSERT / CTAS / MERGE, nested = inside a CTE body, derived
# table or subquery (nested2 = a second nested one, written after the first)
SHAPE_ROLES = {
    "plain": {"A": "main"},
    "cte_body": {"A": "nested"},
    "cte_chain": {"A": "nested"},
    "cte_named_like_table": {"A": "nested"},
    "derived_table": {"A": "nested"},
    "scalar_subquery": {"A": "nested"},
    "cte_then_join": {"B": "joined"},
    "join_then_cte": {"A": "main"},
    "join": {"A": "main", "B": "joined"},
    "comma_join": {"A": "main", "B": "joined"},
    "cte_body_join": {"A": "nested", "B": "joined"},
    "two_cte_bodies": {"A": "nested", "B": "nested2"},
    "where_subquery": {"A": "main", "B": "nested"},
    "select_list_subquery": {"A": "main", "B": "nested"},
    "union": {"A": "main", "B": "joined"},
    "insert_select": {"A": "target", "B": "source"},
    "insert_select_cte": {"A": "target", "B": "source"},
    "ctas": {"A": "target", "B": "source"},
    "merge_using_table": {"A": "target", "B": "source"},
    "cte_only": {},
    "cte_only_named_like_table": {},
}
# shapes whose outermost FROM holds the name of a CTE (no table: it needs no context)
SHAPES_WITH_CTE_NAME_IN_FROM = ("cte_body", "cte_chain", "cte_named_like_table", "cte_then_join", "join_then_cte", "cte_body_join", "two_cte_bodies", "cte_only", "cte_only_named_like_table")
# a table reference = (level, database, schema); level 0 = t, 1 = schema.t, 2 = database.schema.t
REFS_QUICK = [(0, None, None), (1, None, "S2"), (2, "DB2", "S1")]
REFS_THOROUGH = [(0, None, None), (1, None, "S1"), (1, None, "S2"), (2, "DB1", "S2"), (2, "DB2", "S1")]


def shape_positions(shape):
    t = SHAPES[shape][0]
    return tuple(p for p in "AB" if "{" + p + "}" in t) if "{U}" not in t else ("A", "B")


def shape_ops(tier):
    refs = REFS_QUICK if tier == "quick" else REFS_THOROUGH
    ops = []
    for shape in SHAPES:
        pos = shape_positions(shape)
        if not pos:
            ops.append(("query", shape, None, None))
        elif len(pos) == 1:
            for r in refs:
                if shape == "cte_named_like_table" and r[0] == 0:
                    continue  # a CTE reading the table it is named after: not demanded (rejected as recursive by some engines)
                ops.append(("query", shape, r, None) if pos == ("A",) else ("query", shape, None, r))
        else:
            for ra in refs:
                for rb in refs:
                    ops.append(("query", shape, ra, rb))
    return ops


def ref_sql(r, name="t"):
    return [name, f"{r[2]}.{name}", f"{r[1]}.{r[2]}.{name}"][r[0]].lower()


# the ways a session reaches each kind of context: (driving connection, history); init S: c0 = (DB1, S1), c1 = none
SHAPE_CONTEXTS = [
    (0, []),  # full context from connect
    (0, [(0, ("use_schema", "DB2", "S2"))]),
    (0, [(0, ("use_schema", None, "S2"))]),
    (0, [(0, ("use_db", "DB1"))]),  # database, schema as reported
    (0, [(0, ("use_db", "DB2"))]),
    (0, [(0, ("drop_schema", None, "S1"))]),  # current schema dropped: database without schema
    # ... and a schema of that name made again by qualified names: the session still has no current schema
    (0, [(0, ("drop_schema", None, "S1")), (0, ("create_schema", "DB1", "S1")), (0, ("create_table", 2, "DB1", "S1")), (0, ("insert", 2, "DB1", "S1"))]),
    (0, [(0, ("reconnect", "DB1", None))]),  # connected with a database only
    (1, []),  # no database
    (1, [(1, ("use_db", "DB1"))]),
    (1, [(1, ("use_schema", "DB1", "S2"))]),
    (1, [(0, ("use_db", "DB2"))]),  # the other connection's context must not matter
    (0, [(1, ("use_schema", "DB2", "S2"))]),
]
SHAPE_CONTEXTS_THOROUGH = [
    (1, [(1, ("use_schema", "DB1", "S2")), (1, ("drop_schema", None, "S2"))]),
    (1, [(1, ("reconnect", "DB2", None))]),
    (0, [(0, ("reconnect", None, None))]),
    (0, [(0, ("use_db", "DB2")), (0, ("use_schema", None, "S1"))]),
]


def tname(level, d, s):
    return ["t", f"{s}.t", f"{d}.{s}.t"][level].lower()


def alphabet(tier):
    ops = []
    for d in DBS:
        ops.append(("create_db", d))
        ops.append(("drop_db", d))
    for s in SCHEMAS:
        ops.append(("create_schema", None, s))
        ops.append(("drop_schema", None, s))
    for d in DBS:
        for s in SCHEMAS:
            ops.append(("create_schema", d, s))
            ops.append(("drop_schema", d, s))
    targets = [(0, None, None)] + [(1, None, s) for s in SCHEMAS] + [(2, d, s) for d in DBS for s in SCHEMAS]
    if tier == "quick":
        targets = [(0, None, None), (1, None, "S1"), (1, None, "S2"), (2, "DB1", "S1"), (2, "DB2", "S1"), (2, "DB2", "S2")]
    for t in targets:
        for k in ("create_table", "drop_table", "insert", "select"):
            ops.append((k,) + t)
    if tier != "quick":
        for t in [(0, None, None), (1, None, "S2"), (2, "DB2", "S1")]:
            ops.append(("create_view",) + t)
            ops.append(("drop_view",) + t)
    # DESCRIBE / SHOW / MERGE resolve names against the session context too
    for t in [(0, None, None), (1, None, "S1"), (1, None, "S2"), (2, "DB2", "S1")]:
        ops.append(("describe",) + t)
        ops.append(("merge_insert",) + t)
    ops.append(("show_schemas",))
    ops.append(("show_tables_in_database",))
    for s_ in SCHEMAS:
        ops.append(("show_tables_in_schema", s_))
    # a fully qualified scope / name needs no session context at all
    for d, s_ in (("DB1", "S1"), ("DB2", "S1")):
        ops.append(("show_tables_in_schema_q", d, s_))
    ops.append(("show_schemas_in_database_q", "DB1"))
    ops.append(("select_information_schema_q", "DB1"))
    for d in DBS + ("NOPE",):
        ops.append(("use_db", d))
    for s in SCHEMAS + ("NOPE",):
        ops.append(("use_schema", None, s))
    for d in DBS:
        for s in SCHEMAS:
            ops.append(("use_schema", d, s))
    ops.append(("use_schema", "NOPE", "S1"))
    ops.append(("use_schema", "DB1", "NOPE"))
    # "set at connect": the connection in this slot is replaced by a NEW connection of the same instance, made with
    # these arguments in whatever state the history has reached (default flags: missing database / schema are created)
    ops.append(("reconnect", "DB1", "S1"))
    ops.append(("reconnect", "DB2", "S2"))
    if tier != "quick":
        ops.append(("reconnect", "DB2", "S1"))
        ops.append(("reconnect", "DB1", None))
        ops.append(("reconnect", None, None))
    return ops


def op_sql(op, tag):
    k = op[0]
    if k == "reconnect":
        return f"connect(database={op[1] and op[1].lower()!r}, schema={op[2] and op[2].lower()!r})"
    if k == "show_schemas":
        return "show terse schemas"
    if k == "show_tables_in_database":
        return "show terse tables in database"
    if k == "show_tables_in_schema":
        return f"show terse tables in schema {op[1].lower()}"
    if k == "show_tables_in_schema_q":
        return f"show terse tables in schema {op[1].lower()}.{op[2].lower()}"
    if k == "show_schemas_in_database_q":
        return f"show terse schemas in database {op[1].lower()}"
    if k == "select_information_schema_q":
        return f"select count(*) from {op[1].lower()}.information_schema.tables"
    if k == "query":
        tmpl = SHAPES[op[1]][0]
        return tmpl.format(A=op[2] and ref_sql(op[2]), B=op[3] and ref_sql(op[3]), U=op[2] and ref_sql(op[2], "u"), tag=tag)
    if k == "create_db":
        return f"create database {op[1].lower()}"
    if k == "drop_db":
        return f"drop database {op[1].lower()}"
    if k in ("create_schema", "drop_schema"):
        name = f"{op[1]}.{op[2]}" if op[1] else op[2]
        return f"{k.split('_')[0]} schema {name.lower()}"
    if k == "use_db":
        return f"use database {op[1].lower()}"
    if k == "use_schema":
        name = f"{op[1]}.{op[2]}" if op[1] else op[2]
        return f"use schema {name.lower()}"
    level, d, s = op[1:4]
    n = tname(level, d, s)
    if k == "create_table":
        return f"create table {n} (x int)"
    if k == "drop_table":
        return f"drop table {n}"
    if k == "insert":
        return f"insert into {n} values ({tag})"
    if k == "select":
        return f"select x from {n} order by x"
    if k == "describe":
        return f"describe table {n}"
    if k == "merge_insert":
        return f"merge into {n} as tgt using (select {tag} as x) src on tgt.x = src.x when not matched then insert (x) values (src.x)"
    if k == "create_view":
        return f"create view {n.replace('t', 'v')} as select 1 as x"
    if k == "drop_view":
        return f"drop view {n.replace('t', 'v')}"
    raise AssertionError(op)


# ---- reference model --------------------------------------------------------------------------------------------------
class Model:
    """cat: {db: {schema: {name: ('table', [rows]) | ('view',)}}};  ctx: [[db, schema], ...] per connection"""

    def __init__(self):
        self.cat: dict = {}
        self.ctx: list = []

    def key(self):
        c = tuple(
            (d, tuple((s, tuple((n, o[0], tuple(o[1]) if o[0] == "table" else ()) for n, o in sorted(objs.items()))) for s, objs in sorted(sch.items())))
            for d, sch in sorted(self.cat.items())
        )
        return (c, tuple(tuple(x) for x in self.ctx))

    def connect(self, db, schema):
        db = db and db.upper()
        schema = schema and schema.upper()
        if db:
            self.cat.setdefault(db, {})
            if schema:
                self.cat[db].setdefault(schema, {})
        self.ctx.append([db, schema])

    def resolve(self, c, level, d, s):
        """-> ('ok', db, schema) | ('err', errno)  (errno None = some ProgrammingError)"""
        cd, cs = self.ctx[c]
        if level == 0:
            if cd is None:
                return ("err", 90105)
            if cs is None:
                return ("err", 90106)
            d, s = cd, cs
        elif level == 1:
            if cd is None:
                return ("err", 90105)
            d = cd
        if d not in self.cat or s not in self.cat[d]:
            return ("err", None)
        return ("ok", d, s)

    def step(self, c, op, tag):
        """Apply op on connection c. Returns expectation:
        ('ok', rows|None) | ('err', errno|None) | ('ok_free_schema',)  (USE DATABASE: schema not demanded)"""
        k = op[0]
        cd, cs = self.ctx[c]
        if k == "reconnect":
            d, sc = op[1], op[2]
            if d:
                self.cat.setdefault(d, {})
                if sc:
                    self.cat[d].setdefault(sc, {})
            self.ctx[c] = [d, sc]
            return ("ok", None)
        if k == "create_db":
            if op[1] in self.cat:
                return ("err", None)
            self.cat[op[1]] = {}
            return ("ok", None)
        if k == "drop_db":
            if op[1] not in self.cat:
                return ("err", None)
            del self.cat[op[1]]
            for x in self.ctx:
                pass  # other sessions keep naming it
            if cd == op[1]:
                self.ctx[c] = [None, None]
            return ("ok", None)
        if k in ("create_schema", "drop_schema", "use_schema"):
            d = op[1]
            if d is None:
                if cd is None:
                    # USE SCHEMA s without a current database: real Snowflake answers 2043, so only failure is demanded
                    return ("err", None if k == "use_schema" else 90105)
                d = cd
            s = op[2]
            if d not in self.cat:
                return ("err", None)
            if k == "create_schema":
                if s in self.cat[d]:
                    return ("err", None)
                self.cat[d][s] = {}
                return ("ok", None)
            if s not in self.cat[d]:
                return ("err", None)
            if k == "drop_schema":
                del self.cat[d][s]
                if cd == d and cs == s:
                    self.ctx[c] = [cd, None]
                return ("ok", None)
            self.ctx[c] = [d, s]
            return ("ok", None)
        if k == "show_schemas":
            if cd is None or cd not in self.cat:
                return ("any",)  # without a current database: account-level listing, not demanded here
            return ("ok_names", sorted(self.cat[cd]))
        if k == "show_tables_in_database":
            if cd is None or cd not in self.cat:
                return ("any",)
            return ("ok_names", sorted(f"{s_}.{n}" for s_, objs in self.cat[cd].items() for n, o in objs.items() if o[0] == "table"))
        if k == "show_tables_in_schema":
            if cd is None:
                return ("any",)
            if cd not in self.cat or op[1] not in self.cat[cd]:
                return ("any",)  # SHOW ... IN <missing scope>: failure not demanded (see C07)
            return ("ok_names", sorted(f"{op[1]}.{n}" for n, o in self.cat[cd][op[1]].items() if o[0] == "table"))
        if k == "show_tables_in_schema_q":
            if op[1] not in self.cat or op[2] not in self.cat[op[1]]:
                return ("any",)
            return ("ok_names", sorted(f"{op[2]}.{n}" for n, o in self.cat[op[1]][op[2]].items() if o[0] == "table"))
        if k == "show_schemas_in_database_q":
            if op[1] not in self.cat:
                return ("any",)
            return ("ok_names", sorted(self.cat[op[1]]))
        if k == "select_information_schema_q":
            if op[1] not in self.cat:
                return ("any",)
            return ("ok_any",)  # which rows it lists is C09's subject; here: the qualified name needs no context
        if k == "use_db":
            if op[1] not in self.cat:
                return ("err", None)
            self.ctx[c] = [op[1], "?"]
            return ("ok_free_schema",)
        if k == "query":
            return self.query(c, op, tag)
        level, d, s = op[1:4]
        r = self.resolve(c, level, d, s)
        if r[0] == "err":
            return r
        _, d, s = r
        objs = self.cat[d][s]
        if k == "create_table":
            if "T" in objs:
                return ("err", None)
            objs["T"] = ("table", [])
            return ("ok", None)
        if k == "create_view":
            if "V" in objs:
                return ("err", None)
            objs["V"] = ("view",)
            return ("ok", None)
        if k == "drop_table":
            if "T" not in objs:
                return ("err", None)
            del objs["T"]
            return ("ok", None)
        if k == "drop_view":
            if "V" not in objs:
                return ("err", None)
            del objs["V"]
            return ("ok", None)
        if "T" not in objs:
            return ("err", None)
        if k in ("insert", "merge_insert"):
            objs["T"][1].append(tag)
            return ("ok", None)
        if k == "describe":
            return ("ok_names", ["X"])
        if k == "select":
            return ("ok", [(x,) for x in sorted(objs["T"][1])])
        raise AssertionError(op)


    def query(self, c, op, tag):
        """A statement of SHAPES. Every table reference is resolved on its own; the statement needs a current database
        if ANY reference is not fully qualified and a current schema if ANY reference is unqualified (a missing
        database is reported first, as for a single reference). CTE names are not references."""
        _, shape, ra, rb = op
        kind = SHAPES[shape][1]
        refs = [r for r in (ra, rb) if r is not None]
        res = [self.resolve(c, *r) for r in refs]
        for want in (90105, 90106):
            if any(r == ("err", want) for r in res):
                return ("err", want)
        if any(r[0] == "err" for r in res):
            return ("err", None)
        loc = {p: self.cat[r[1]][r[2]] for p, r in zip([p for p, x in (("A", ra), ("B", rb)) if x is not None], res)}
        if shape == "ctas":
            if "U" in loc["A"] or "T" not in loc["B"]:
                return ("err", None)
            loc["A"]["U"] = ("table", list(loc["B"]["T"][1]))
            return ("ok", None)
        if any("T" not in o for o in loc.values()):
            return ("err", None)
        a = loc["A"]["T"][1] if "A" in loc else None
        b = loc["B"]["T"][1] if "B" in loc else None
        if kind == "rows":
            return ("ok", sorted(shape_rows(shape, a, b), key=repr))
        if shape in ("insert_select", "insert_select_cte"):
            a.extend([tag] * len(b))
        elif shape == "merge_using_table":
            a.extend([x for x in list(b) if x not in a])
        else:
            raise AssertionError(shape)
        return ("ok", None)


def shape_rows(shape, a, b):
    """Result (a multiset of tuples) of the query shape over a = rows of {A}, b = rows of {B} (lists of ints)."""
    mx = lambda v: max(v) if v else None  # noqa: E731
    if shape in ("plain", "cte_body", "cte_chain", "cte_named_like_table", "derived_table"):
        return [(x,) for x in a]
    if shape == "scalar_subquery":
        return [(mx(a),)]
    if shape == "cte_then_join":
        return [(1, y) for y in b if y > 0]
    if shape == "join_then_cte":
        return [(x, 1) for x in a if x > 0]
    if shape in ("join", "cte_body_join", "two_cte_bodies"):
        return [(x, y) for x in a for y in b if y > 0]
    if shape == "comma_join":
        return [(x, y) for x in a for y in b]
    if shape == "where_subquery":
        return [(x,) for x in a if b and x <= mx(b)]
    if shape == "select_list_subquery":
        return [(x, mx(b)) for x in a]
    if shape == "union":
        return [(x,) for x in a] + [(x,) for x in b]
    if shape in ("cte_only", "cte_only_named_like_table"):
        return [(1,)]
    raise AssertionError(shape)


# ---- real side ----------------------------------------------------------------------------------------------------------
def real_catalog(fs, views=True):
    cat = observe.catalog(fs, views=views, data=True)
    out = {}
    for d in cat["dbs"]:
        if d != "_fs_global":
            out[d] = {}
    for d, s in cat["schemas"]:
        if d in out and s not in ("main", "information_schema"):
            out[d][s] = {}
    data = dict(cat["data"])
    for d, s, t, _ in cat["tables"]:
        if t.startswith("_fs_"):
            continue
        rows = [int(r.strip("(),")) for r in data[f"{d}.{s}.{t}"]]
        out.setdefault(d, {}).setdefault(s, {})[t] = ("table", sorted(rows))
    for d, s, v, _ in cat.get("views", ()):
        out.setdefault(d, {}).setdefault(s, {})[v] = ("view",)
    return out


def model_catalog(m: Model):
    return {d: {s: {n: ((o[0], sorted(o[1])) if o[0] == "table" else o) for n, o in objs.items()} for s, objs in sch.items()} for d, sch in m.cat.items()}


def reporters(conn):
    try:
        cur = conn.cursor()
        cur.execute("select current_database(), current_schema()")
        r = cur.fetchall()[0]
    except Exception as e:  # noqa: BLE001
        r = ("<exc>", type(e).__name__)
    return (conn.database, conn.schema, r[0], r[1])


def build(init, hist):
    """Fresh instance, initial state, replay history (list of (conn, op)). Returns fs, conns, model, n_steps."""
    import fakesnow.instance as inst

    a0, a1, setup = INITS[init]
    fs = inst.FakeSnow()
    m = Model()
    conns = []
    for a in (a0, a1):
        conns.append(fs.connect(database=a[0], schema=a[1]))
        # ONE cursor per connection lives through the whole history (a cursor must not remember the context it was
        # created in); the reporters use fresh cursors, so both kinds are exercised
        conns[-1]._verif_cur = conns[-1].cursor()  # noqa: SLF001
        m.connect(*a)
    cur = conns[0].cursor()
    for s in setup:
        cur.execute(s)
    # mirror the set-up in the model (fully qualified statements only)
    for s in setup:
        w = s.split()
        if w[1] == "database":
            m.cat[w[2].upper()] = {}
        elif w[1] == "schema":
            d, sc = w[2].upper().split(".")
            m.cat[d][sc] = {}
        elif w[1] == "table":
            d, sc, t = w[2].upper().split(".")
            m.cat[d][sc][t] = ("table", [])
        elif w[0] == "insert":
            d, sc, t = w[2].upper().split(".")
            m.cat[d][sc][t][1].append(int(w[4].strip("()")))
    tag = 100
    for c, op in hist:
        tag += 1
        exp = m.step(c, op, tag)
        try:
            if op[0] == "reconnect":
                do_reconnect(fs, conns, c, op)
            else:
                conns[c]._verif_cur.execute(op_sql(op, tag))  # noqa: SLF001
        except Exception:  # noqa: BLE001
            pass
        if exp[0] == "ok_free_schema":
            m.ctx[c][1] = conns[c].schema
    return fs, conns, m, tag


def do_reconnect(fs, conns, c, op):
    conns[c] = fs.connect(database=op[1] and op[1].lower(), schema=op[2] and op[2].lower())
    conns[c]._verif_cur = conns[c].cursor()  # noqa: SLF001


def ctx_kind(ctx):
    return ("db" if ctx[0] else "nodb") + ("+schema" if ctx[1] else "")


GROUP = 6
SHAPE_GROUP = 10


class _Done(Exception):
    pass


def transitions_of(init, hist, tier):
    conns_to_drive = (0, 1) if (tier != "quick" or init != "A") else (0,)
    ops = alphabet(tier)
    return [(init, hist, c, ops[i : i + GROUP]) for c in conns_to_drive for i in range(0, len(ops), GROUP)]


def expand(item, acc: core.Acc, tier):
    """A group of transitions from one state. The state is rebuilt on a fresh instance by replaying hist; an instance
    is reused for the next op only if the previous op verifiably changed nothing (model state, ground truth,
    reporters all equal to the pre-state) - so reuse cannot hide anything."""
    init, hist, c, ops = item
    out = []
    live = None
    try:
        for op in ops:
            if live is None:
                live = list(build(init, hist))
            r, reusable = one_transition(init, hist, c, op, live, acc, tier)
            out.append((op, r))
            if not reusable:
                live[0].duck_conn.close()
                live = None
    finally:
        if live is not None:
            live[0].duck_conn.close()
    return out


def one_transition(init, hist, c, op, live, acc, tier):
    with_views = tier != "quick"
    fs, conns, m, tag = live
    pre_model_key = m.key()
    pre_ctx = [tuple(x) for x in m.ctx]
    pre_cat = real_catalog(fs, with_views)
    pre_rep = [reporters(x) for x in conns]
    tag += 1
    live[3] = tag
    m_pre = copy.deepcopy(m)
    exp = m.step(c, op, tag)
    sql = op_sql(op, tag)
    try:
        if op[0] == "reconnect":
            do_reconnect(fs, conns, c, op)
            raise _Done
        cur = conns[c]._verif_cur  # noqa: SLF001
        cur.execute(sql)
        rows = cur.fetchall() if op[0] in ("select", "describe", "show_schemas", "show_tables_in_database", "show_tables_in_schema", "show_tables_in_schema_q", "show_schemas_in_database_q") else None
        if op[0] == "query" and SHAPES[op[1]][1] == "rows":
            rows = sorted((tuple(r) for r in cur.fetchall()), key=repr)
        if op[0] == "describe":
            rows = [r[0] for r in rows]
        elif op[0] in ("show_schemas", "show_schemas_in_database_q"):
            rows = sorted(r[1] for r in rows if str(r[1]).lower() != "information_schema")
        elif op[0].startswith("show_tables"):
            rows = sorted(f"{r[4]}.{r[1]}" for r in rows if not str(r[1]).lower().startswith("_fs_"))
        got = ("ok", rows)
    except _Done:
        got = ("ok", None)
    except Exception as e:  # noqa: BLE001
        got = exc_info(e)
    if exp[0] == "ok_free_schema" and got[0] == "ok":
        m.ctx[c][1] = conns[c].schema  # not demanded: taken from what the connection reports
    post_cat = real_catalog(fs, with_views)
    post_rep = [reporters(x) for x in conns]
    r = judge(init, hist, c, op, acc, m, m_pre, exp, got, sql, pre_model_key, pre_ctx, pre_cat, pre_rep, post_cat, post_rep)
    reusable = m.key() == pre_model_key and post_cat == pre_cat and post_rep == pre_rep
    return r, reusable


def judge(init, hist, c, op, acc, m, m_pre, exp, got, sql, pre_model_key, pre_ctx, pre_cat, pre_rep, post_cat, post_rep):
    acc.count("evaluations")
    acc.count("transitions")
    acc.count("traces")
    acc.obs((init, hist, c, op, got, post_rep, sorted(map(repr, post_cat.items()))))
    acc.outcome((op[0], got[0], got[2] if got[0] == "err" else None, ctx_kind(pre_ctx[c])))
    rp = {"init": init, "history": hist, "conn": c, "op": op, "sql": sql}
    base = (
        f"op={op[0]}"
        + (f",level={op[1]}" if len(op) > 1 and isinstance(op[1], int) else (",qualified" if len(op) > 2 and op[1] else ""))
        + f",ctx={ctx_kind(pre_ctx[c])}"
    )
    if op[0] == "query":
        # class = the syntactic role of the references that lack their context and of those that have it (one root
        # cause - e.g. "only the first table is looked at" - is one class whatever the shape and the levels)
        cd, cs = pre_ctx[c]
        refs = [(SHAPE_ROLES[op[1]][p], r) for p, r in (("A", op[2]), ("B", op[3])) if r is not None]
        lacks = [role for role, r in refs if (cd is None and r[0] < 2) or (cs is None and r[0] == 0)]
        has = [role for role, r in refs if role not in lacks]
        beside_cte = ",beside_cte_name" if op[1] in SHAPES_WITH_CTE_NAME_IN_FROM else ""
        recreated = any(o[0] == "create_schema" for _c, o in hist) and any(o[0] == "drop_schema" for _c, o in hist)
        base = (
            f"op=query,lacking={'+'.join(lacks) or '-'},having={'+'.join(has) or '-'}{beside_cte}"
            f",ctx={ctx_kind(pre_ctx[c])}{'(dropped schema made again)' if recreated else ''}"
        )
    if op[0] == "reconnect":
        pre_cat_m = m_pre.cat
        base = (
            f"op=reconnect,database={'none' if not op[1] else ('exists' if op[1] in pre_cat_m else 'missing')}"
            f",schema={'none' if not op[2] else ('exists' if op[1] in pre_cat_m and op[2] in pre_cat_m[op[1]] else 'missing')}"
            f",same_args_connected_before={'yes' if any(o[0] == 'reconnect' and o[1:] == op[1:] for _c, o in hist) or (op[1], op[2]) in [tuple(x and x.upper() for x in a) for a in INITS[init][:2]] else 'no'}"
        )
    diverged = False
    changed = m.key() != pre_model_key
    if changed or exp[0] == "err":
        acc.nontrivial((pre_model_key, c, op))
        acc.sample({"init": init, "history": hist, "conn": c, "sql": sql, "expected": exp, "observed": got, "reporters_after": post_rep}, cap=3)
    # (a) success / failure as the model says
    if exp[0] == "any":
        pass
    elif exp[0] == "ok_any":
        if got[0] != "ok":
            acc.violation("C03.must_succeed", base + f",exc={got[1].split('.')[-1]}", {"sql": sql, "ctx": pre_ctx[c], "got": got}, rp)
    elif exp[0] == "ok_names":
        if got[0] != "ok":
            b_ = base if op[0].endswith("_q") else base.split(",ctx=")[0]
            acc.violation("C03.must_succeed", b_ + f",exc={got[1].split('.')[-1]}", {"sql": sql, "ctx": pre_ctx[c], "got": got}, rp)
        elif got[1] != exp[1]:
            acc.violation("C03.resolution", base + ",listing", {"sql": sql, "expected": exp[1], "got": got[1], "ctx": pre_ctx[c]}, rp)
    elif exp[0] == "err":
        if op[0] == "query" and exp[1] in (90105, 90106):  # homogeneity audit of the statement-shape classes
            acc.member("C03.must_fail", base, got[0] != "err")
            if got[0] == "err":
                acc.member("C03.no_context_error", base + f",want={exp[1]}", (got[2], got[3]) != (exp[1], "22000"))
        if got[0] != "err":
            acc.violation("C03.must_fail", base, {"sql": sql, "ctx": pre_ctx[c], "got": got}, rp)
            diverged = True
        else:
            if exp[1] in (90105, 90106) and (got[2], got[3]) != (exp[1], "22000"):
                acc.violation("C03.no_context_error", base + f",want={exp[1]}", {"sql": sql, "got": got}, rp)
            if post_cat != pre_cat:
                acc.violation("C03.failed_changes_nothing", base, {"sql": sql}, rp)
                diverged = True
    else:
        if op[0] == "drop_db":
            acc.member("C03.must_succeed", "op=drop_db,exc=ParserException", got[0] == "err")
        if got[0] == "err":
            acc.violation(
                "C03.must_succeed", base.split(",ctx=")[0] + f",exc={got[1].split('.')[-1]}", {"sql": sql, "ctx": pre_ctx[c], "got": got}, rp
            )
            if post_cat == pre_cat and [r[:2] for r in post_rep] == [r[:2] for r in pre_rep]:
                # nothing happened: continue from the unchanged state (model = pre-state)
                m.cat, m.ctx = m_pre.cat, m_pre.ctx
            else:
                diverged = True
        elif exp[0] == "ok" and exp[1] is not None and got[1] != exp[1]:
            acc.violation(
                "C03.resolution", base + ",select", {"sql": sql, "expected": exp[1], "got": got[1], "ctx": pre_ctx[c]}, rp
            )
    # (b) ground truth = model catalog (name resolution: where did the object / row land)
    if not diverged and post_cat != model_catalog(m):
        acc.violation(
            "C03.resolution", base, {"sql": sql, "ctx": pre_ctx[c], "expected": model_catalog(m), "got": post_cat}, rp
        )
        diverged = True
    # (c) reported context = model context, and the four reporters agree; other connection untouched
    for i, rep in enumerate(post_rep):
        want = tuple(m.ctx[i])
        who = "own" if i == c else "other"
        if rep[:2] != want:
            acc.violation(
                "C03.context", base + f",conn={who}", {"sql": sql, "expected": want, "reported": rep, "before": pre_rep[i]}, rp
            )
            diverged = True
        # explain from the reported context: which reporter disagrees and in which situation
        if rep[0] is None:
            acc.member("C03.reporters_agree", "CURRENT_DATABASE@nodb", rep[2] != rep[0])
        if rep[1] is None:
            acc.member("C03.reporters_agree", "CURRENT_SCHEMA@noschema", rep[3] != rep[1])
        if rep[2] != rep[0]:
            why = "CURRENT_DATABASE" + ("@nodb" if rep[0] is None else "")
            acc.violation("C03.reporters_agree", why, {"reported": rep, "after": sql, "conn": who}, rp)
        if rep[3] != rep[1]:
            why = "CURRENT_SCHEMA" + ("@noschema" if rep[1] is None else "")
            acc.violation("C03.reporters_agree", why, {"reported": rep, "after": sql, "conn": who}, rp)
    if diverged:
        return None
    return (m.key(), list(hist) + [(c, op)])


def run(ctx: core.Ctx):
    depth = 3
    ctx.rule = (
        "BFS over histories of (connection, op) with op from the written-out alphabet (CREATE/DROP DATABASE|SCHEMA|"
        "TABLE|VIEW, INSERT, SELECT at 3 qualification levels, USE DATABASE, USE SCHEMA plain/qualified, existing and "
        "missing names) on 2 connections from 3 initial states; dedupe on model state (catalog + both contexts); each "
        "transition rebuilt on a fresh instance; non-trivial = transition that changes the model state or must fail. "
        "Plus the product SHAPES x reference levels x SHAPE_CONTEXTS (statement shapes with the table reference in nested / "
        "joined / source position or beside a CTE name), each judged by the same oracle from init S"
    )
    ctx.assumptions = ["ground truth is read through a raw DuckDB cursor", "state = catalog with row tags + per-connection context"]
    seen = set()
    frontier = [(k, []) for k in (("A",) if ctx.quick else ("A", "B", "C"))]
    if ctx.quick:
        frontier += [("B", []), ("C", [])]
    d = 0
    while frontier and d < depth:
        # quick: inits B and C are explored to depth 1 only, A (one driving connection) to depth 3;
        # thorough: A to depth 3 with both connections driving, B and C to depth 2
        if ctx.quick and d >= 1:
            frontier = [f for f in frontier if f[0] == "A"]
        if not ctx.quick and d >= 2:
            frontier = [f for f in frontier if f[0] == "A"]
        items = [t for init, hist in frontier for t in transitions_of(init, hist, ctx.tier)]
        res = ctx.pmap(expand, items, recheck=(d == 0))
        cands = []
        for (init, _h, _c, _ops), outs in res:
            for _op, succ in outs:
                if succ is not None:
                    cands.append((init, succ[0], succ[1]))
        cands.sort(key=lambda x: (x[0], repr(x[1]), len(x[2]), repr(x[2])))
        frontier = []
        for init, key, hist in cands:
            if (init, key) not in seen:
                seen.add((init, key))
                frontier.append((init, hist))
        d += 1
    # explicit same-text-in-another-context histories: [o, switch context, o] for every context-dependent op o.
    # BFS deduplication never repeats a statement text along a shortest path, so state hidden behind the statement
    # text (e.g. a cache of resolved statements) would stay invisible; these histories execute the identical text
    # twice under two different contexts and judge the second execution with the full oracle.
    ctx_ops = [o for o in alphabet(ctx.tier) if (o[0] in ("create_table", "drop_table", "insert", "select", "create_view") and o[1] in (0, 1)) or (o[0] in ("use_schema", "create_schema", "drop_schema") and o[1] is None and o[2] != "NOPE")]
    switches = [("use_db", "DB2"), ("use_schema", None, "S2"), ("use_schema", "DB2", "S1"), ("use_db", "DB1")]
    extra = []
    for o in ctx_ops:
        for sw in switches:
            extra.append(("A", [(0, o), (0, sw)], 0, [o]))
            if o[0] in ("insert", "select", "drop_table"):
                extra.append(("A", [(0, ("create_table", 2, "DB2", "S1")), (0, ("create_table", 2, "DB1", "S2")), (0, o), (0, sw)], 0, [o]))
    ctx.pmap(expand, extra, recheck=False)
    ctx.extra["same_text_other_context_histories"] = len(extra)
    # statement shapes x qualification levels of every table reference x ways of reaching each kind of session context
    sops = shape_ops(ctx.tier)
    sops.sort(key=lambda o: SHAPES[o[1]][1] == "dml")  # the read-only ones first: they share an instance
    contexts = SHAPE_CONTEXTS + ([] if ctx.quick else SHAPE_CONTEXTS_THOROUGH)
    shape_items = [("S", h, c, sops[i : i + SHAPE_GROUP]) for c, h in contexts for i in range(0, len(sops), SHAPE_GROUP)]
    ctx.pmap(expand, shape_items, recheck=False)
    ctx.extra["statement_shapes"] = {"shapes": len(SHAPES), "statements_per_context": len(sops), "contexts": len(contexts)}
    for s in seen:
        ctx.acc.add("states", s)
    ctx.extra["bound"] = "quick: init A depth 3 (connection 0 drives, connection 1 observed), B/C depth 1; thorough: A depth 3 both connections, B/C depth 2"
    ctx.extra["frontier_left_unexpanded"] = len(frontier)
    ctx.exhaustive = False


def replay(payload):
    r = payload["replay"]

    def tup(x):
        return tuple(tup(i) for i in x) if isinstance(x, list) else x

    hist = [(c, tup(op)) for c, op in r["history"]]
    fs, conns, m, tag = build(r["init"], hist)
    print("state before:", model_catalog(m), m.ctx)
    op = tup(r["op"])
    exp = m.step(r["conn"], op, tag + 1)
    try:
        cur = conns[r["conn"]].cursor()
        cur.execute(op_sql(op, tag + 1))
        got = ("ok", cur.fetchall())
    except Exception as e:  # noqa: BLE001
        got = exc_info(e)
    print("sql:", op_sql(op, tag + 1), "on connection", r["conn"])
    print("expected:", exp, "model ctx", m.ctx)
    print("observed:", got)
    print("reporters:", [reporters(x) for x in conns])
    print("ground truth:", real_catalog(fs))
    fs.duck_conn.close()
    return True
