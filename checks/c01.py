"""C01 — stored values read back unchanged, in the connector's Python types.

Engine E2: complete finite product   column type x boundary value x ingestion path x NULL placement,
batched one fresh FakeSnow instance per (type, path).  Every cell (one value, one NULL placement) is written by ONE
statement / ONE write_pandas call of the path, everything is read back with SELECT ... fetchall() and compared with
the reference model mc/ref/c01_model.py (which derives the expectation from the input alone).

Alphabets (written out in mc/ref/c01_model.py, echoed in evidence): TYPES (39 spellings of the types named in the
property statement), values_for(type) (boundary values exactly representable in the type, each with a shape label),
PATHS (14; insert_select_cast / ctas_cast = the derived paths with the declared type spelling inside a cast of the selected column; lit_bs = literal INSERT with a quote inside a string constant spelled \\' instead of ''; wp_opts = a 5-row DataFrame x chunk_size {None,1,2,n-1,n,n+1} x DataFrame index {default, shifted,
reversed, string labels, duplicate labels} x parallel {4,1} x quote_identifiers {True,False}), PLACEMENTS (NULL none / first / middle / last, plus one all-NULL cell per batch).
PLACEMENTS also has "after_identity": the value preceded by the identity value of its type (0, '', False, {}, epoch..).
quick = every type x every path x QUICK_SHAPES (keeps every identity value) x {none, first, middle, after_identity}
+ all-NULL;  thorough = the full product.

Text values (SQL-text paths) also contain every ordered pair of the "syntactically active" sequences of the lexers a
statement passes through (' \\ $name $1 $$ -- /* */ %s %(x)s ? :1 ; newline), adjacent and apart (c01_model.ACTIVE_TOKENS).
Every (type, path) batch runs in two session states: pristine, and "used" (session variables NAME and X defined -
their names occur in the values -, USE of another schema that holds a table of the target's name and back, and on
the same cursor, right before the writes, a failing statement for every route through cursor.execute / executemany
(c01_model.FAILING_STATEMENTS: single step, several steps failing on name resolution - CREATE with VARCHAR(n) /
COMMENT of an existing table, CLONE / MERGE / RENAME of a missing one -, several steps failing on data, executemany),
then a result and a variable read).

Oracle clauses
  C01.accept     the write of a representable value is accepted (no exception from execute / write_pandas)
  C01.rows       every written row is returned exactly once (by row id), and nothing else appears in the table
  C01.null       NULL <-> None in every type, at every placement
  C01.pytype     the Python type the connector uses for the column family (int | Decimal | float | str | date | time |
                 naive datetime | UTC-aware datetime | bytes-like | str holding JSON)
  C01.value      the equal value: exact numbers (Decimal numerically and with at most the declared scale), bit-exact
                 floats, code-point exact text, microsecond-exact temporals, equal JSON documents, equal bytes
  C01.bystander  ground truth (raw DuckDB, mc/observe.py): every other table (definition and rows) and the bystander
                 row of the target table are unchanged by the writes; a source table is unchanged by CTAS / CLONE /
                 INSERT..SELECT
  C01.wp_result  write_pandas returns (True, nchunks, nrows = rows written, COPY results adding up to the same)
  C01.stored     the rows are stored, not just visible to the writer: a session of the same instance opened before the
                 batch, a session opened after it, and the writing session after conn.rollback() (no transaction is
                 open: a no-op) all read exactly what the writing session read back.  Class = path + observer.

Not demanded (left out of the product, reasons in c01_model.allowed):
  * JSON whitespace / key order; nanosecond fractions; TIMESTAMP_TZ offsets other than +00:00; TIMESTAMP_LTZ
  * -0.0 written as SQL text or bound (in SQL '-0.0' is a negated fixed-point constant); it IS demanded for
    write_pandas and for copies of a stored -0.0
  * years < 1000 through pyformat binding (the connector's own client-side rendering is '1-01-01' here)
  * qmark binding into TIMESTAMP_TZ (the connector binds datetimes as TIMESTAMP_NTZ; offset comes from the session)
  * DataFrame timestamps outside datetime64[ns]; scalar JSON (str/number/bool cells) through write_pandas
  * auto_create_table for anything but bool / int64 / float64 / str / date / datetime64[ns] columns
  * hex strings implicitly cast to BINARY; strings longer than VARCHAR(n); NaN / infinity
  * write_pandas overwrite / table_type / create_temp_table / on_error / compression (the statement does not say what
    they do to "no other row changes" or to column types); the number of chunks write_pandas reports
  * rowcount / status rows of the INSERT (C04), description (C06), fetch_pandas_all dtypes (C05)

Staging tables of the derived paths (INSERT..SELECT / CTAS / CLONE) are filled through a raw DuckDB cursor and then
read through fakesnow: a cell whose *source* does not read back as the expected value is 'blocked' (counted, not
judged) — that defect belongs to the read path / the column type and is reported by the direct paths.

Class keys (classify): synonym group of the declared type, path, value class; one key per clause.  Listed classes are
homogeneous (every member fails); a breakage of anything that passes today lands in a key that is not listed.
"""
from __future__ import annotations

import contextlib
import json
import os
import time

# The property leans on conn.py setting DuckDB's TimeZone to UTC (anchor "TimeZone=UTC").  With the harness default
# TZ=UTC that setting would never be exercised, so every C01 process (parent and spawned workers inherit it) runs with
# a non-UTC *process* time zone: it is then fakesnow's own setting which makes TIMESTAMP_TZ values come back UTC.
# DuckDB reads the process zone when the module is first imported, hence before anything imports duckdb.
PROCESS_TZ = "Pacific/Auckland"
os.environ["TZ"] = PROCESS_TZ
time.tzset()

from mc import core, observe  # noqa: E402
from mc.ref import c01_model as M  # noqa: E402

PID = "C01"
LEVEL = "exploration"

DB, SCHEMA, SCHEMA2, SCHEMA3 = "DB1", "S1", "S2", "S3"
OBSERVERS = ("session_opened_before", "session_opened_after", "writer_after_rollback")


# ---- real side ------------------------------------------------------------------------------------------------------


@contextlib.contextmanager
def _instance(path):
    """Fresh in-memory instance + connection.  snowflake.connector.paramstyle is read when the connection is created;
    it is set for that moment only and restored."""
    import fakesnow.instance as inst
    import snowflake.connector

    fs = inst.FakeSnow()
    old = snowflake.connector.paramstyle
    try:
        snowflake.connector.paramstyle = "qmark" if path == "qmark" else "pyformat"
        conn = fs.connect(database=DB, schema=SCHEMA)
    finally:
        snowflake.connector.paramstyle = old
    try:
        yield fs, conn
    finally:
        with contextlib.suppress(Exception):
            fs.duck_conn.close()


_TZ_SEEN = []


def _engine_default_tz():
    """Time zone a fresh DuckDB instance starts with in this process (once per process)."""
    if not _TZ_SEEN:
        import duckdb

        c = duckdb.connect()
        _TZ_SEEN.append(c.execute("select current_setting('TimeZone')").fetchall()[0][0])
        c.close()
    return _TZ_SEEN[0]


def _err(e):
    return ("err", f"{type(e).__module__}.{type(e).__name__}", str(getattr(e, "msg", None) or e).split("\n")[0][:200])


def _try(f):
    try:
        return ("ok", f())
    except Exception as e:  # noqa: BLE001
        return _err(e)


def _raw_insert(rawc, table, ts, rows):
    """Ground-truth set-up write that bypasses fakesnow (bystanders, staging tables)."""
    for i, v in rows:
        if ts["family"] == "fixed0" and v is not None and not (-(2**63) <= v < 2**63):
            v = M.D(v)  # the DuckDB client binds big Python ints through a double; a Decimal is bound exactly
        rawc.execute(f"insert into {table} values (?, ?)", [i, v])


def _user_digest(fs):
    # own raw cursor with a *session-local* UTC zone: the ground truth is read the same way whatever fakesnow has (or
    # has not) configured, and 9999-12-31 UTC cannot overflow while being rendered in the process zone
    rawc = observe.raw(fs)
    rawc.execute("SET TimeZone='UTC'")
    c = observe.user_view(observe.catalog(fs, cur=rawc))
    tabs = {f"{d}.{s}.{t}": sql for d, s, t, sql in c["tables"]}
    data = dict(c["data"])
    return tabs, data


def _bystander_diff(pre, post, target, new_tables=()):
    """What changed that must not have: [(what, name)]"""
    ptabs, pdata = pre
    qtabs, qdata = post
    diffs = []
    for name in sorted(set(ptabs) | set(qtabs)):
        if name in new_tables:
            continue
        if name == target:
            if ptabs.get(name) != qtabs.get(name):
                diffs.append(("target_definition", name))
            by_pre = tuple(r for r in pdata.get(name, ()) if r.startswith("(-"))
            by_post = tuple(r for r in qdata.get(name, ()) if r.startswith("(-"))
            if by_pre != by_post:
                diffs.append(("bystander_row", name))
            continue
        if name not in ptabs:
            diffs.append(("table_appeared", name))
        elif name not in qtabs:
            diffs.append(("table_vanished", name))
        elif ptabs[name] != qtabs[name]:
            diffs.append(("other_table_definition", name))
        elif pdata.get(name) != qdata.get(name):
            diffs.append(("other_table_rows", name))
    return diffs


def execute_batch(ts, path, cells, state="pristine"):
    """Run one (type, path, session state) batch on a fresh instance.  Returns a picklable dict of raw observations."""
    out = {"setup": None, "cells": {}, "readback": None, "bystander": None, "blocked": [], "stmts": 0, "views": {},
           "unexpected_success": []}
    with _instance(path) as (fs, conn):
        # a second session of the same instance, opened BEFORE the batch: one of the observers of C01.stored
        obs_before = _try(lambda: fs.connect(database=DB, schema=SCHEMA))
        targets = _batch_body(ts, path, cells, state, fs, conn, out)
        if targets is None:
            return out

        def view(c):
            rows = []
            k = c.cursor()
            for t in targets:
                out["stmts"] += 1
                rows.extend(k.execute(f"SELECT ID, V FROM {t}").fetchall())
            return rows

        # Every statement ran in autocommit: what the writing session reads back must be what everybody else reads -
        # a session opened before the writes, a session opened after them - and must still be there after a ROLLBACK
        # issued outside any transaction (a no-op in Snowflake; connection pools issue it routinely).
        if obs_before[0] == "ok":
            out["views"]["session_opened_before"] = _try(lambda: view(obs_before[1]))
        else:
            out["views"]["session_opened_before"] = obs_before
        out["views"]["session_opened_after"] = _try(lambda: view(fs.connect(database=DB, schema=SCHEMA)))
        rb = _try(lambda: conn.rollback())
        out["views"]["writer_after_rollback"] = _try(lambda: view(conn)) if rb[0] == "ok" else rb
    return out


def _batch_body(ts, path, cells, state, fs, conn, out):
    """Set-up, the writes of every cell, the read-back on the writing connection.  Returns the fully qualified tables
    that hold the written rows (None when the set-up failed)."""
    sqlt = ts["sql"]
    vals = M.values_for(ts)
    by_rows = [(-1, vals[0][1]), (-2, None), (-3, vals[-1][1] if ts["family"] != "fixed0" else vals[1][1])]
    cur = conn.cursor()
    rawc = observe.raw(fs)
    q = f'"{DB}"."{SCHEMA}"'

    def ex(sql, params=None):
        out["stmts"] += 1
        return cur.execute(sql, params) if params is not None else cur.execute(sql)

    # ---- session state "used": the writes do not happen in a pristine session.  Session variables whose names
    # occur in the values are defined, the session has been in another schema (holding a table of the target's
    # name) and came back; the failing statements follow after the set-up. ----
    if state == "used":
        try:
            for name, value in M.SESSION_VARIABLES:
                ex(f"SET {name} = {value}")
            ex(f"CREATE SCHEMA {SCHEMA3}")
            ex(f"USE SCHEMA {SCHEMA3}")
            ex(f"CREATE TABLE T1 (ID INT, V {sqlt})")
            _raw_insert(rawc, f'"{DB}"."{SCHEMA3}".T1', ts, by_rows[:2])
            ex(f"USE SCHEMA {SCHEMA}")
        except Exception as e:  # noqa: BLE001
            out["setup"] = _err(e)
            return None

    # ---- set-up: bystander table (+ bystander rows in the target) ----
    try:
        ex(f"CREATE TABLE BY1 (ID INT, V {sqlt})")
        _raw_insert(rawc, f"{q}.BY1", ts, by_rows)
        target = f"{DB}.{SCHEMA}.T1"
        new_tables = ()
        if path in M.SQL_PATHS or path in ("wp", "wp_opts", "insert_select", "insert_select_cast"):
            ex(f"CREATE TABLE T1 (ID INT, V {sqlt})")
            _raw_insert(rawc, f"{q}.T1", ts, by_rows[:2])
        elif path == "wp_subset":
            ex(f"CREATE TABLE T1 (ID INT, X VARCHAR, V {sqlt})")
            rawc.execute(f"insert into {q}.T1 values (-1, 'keep', ?)", [by_rows[0][1]])
        elif path == "wp_dbschema":
            ex(f"CREATE SCHEMA {SCHEMA2}")
            ex(f"CREATE TABLE {SCHEMA2}.T1 (ID INT, V {sqlt})")
            ex(f"CREATE TABLE T1 (ID INT, V {sqlt})")  # same name in the *current* schema: must stay untouched
            _raw_insert(rawc, f'"{DB}"."{SCHEMA2}".T1', ts, by_rows[:2])
            _raw_insert(rawc, f"{q}.T1", ts, by_rows[:2])
            target = f"{DB}.{SCHEMA2}.T1"
        if path in M.DERIVED_PATHS:
            ex(f"CREATE TABLE STG (ID INT, V {sqlt})")
    except Exception as e:  # noqa: BLE001
        out["setup"] = _err(e)
        return None

    # ---- session state "used", second part (after the committed set-up, right before the writes): statements that
    # FAIL, one for every route a statement takes through cursor.execute / executemany (c01_model.FAILING_STATEMENTS),
    # then a result and a variable read on the same cursor.  A failed statement must leave nothing behind - in
    # particular no open transaction: that is what the observers of C01.stored see. ----
    if state == "used":
        ph = "?" if path == "qmark" else "%s"
        for kind, sql in M.FAILING_STATEMENTS:
            sql = sql.format(ph=ph, s3=SCHEMA3)
            try:
                out["stmts"] += 1
                if kind == "executemany":
                    cur.executemany(sql, [(1,), (2,)])
                else:
                    cur.execute(sql)
                out["unexpected_success"].append(sql)
            except Exception:  # noqa: BLE001
                pass
        try:
            ex("SELECT 1").fetchall()
            live = ex("SELECT $name, $x").fetchall()
            if [tuple(r) for r in live] != [(42, "VARVAL")]:
                raise RuntimeError(f"session variables not live: {live!r}")
        except Exception as e:  # noqa: BLE001
            out["setup"] = _err(e)
            return None

    # ---- derived paths: stage through raw DuckDB, verify the source through fakesnow ----
    if path in M.DERIVED_PATHS:
        staged = {}
        for c in cells:
            try:
                _raw_insert(rawc, f"{q}.STG", ts, c["rows"])
                staged[c["k"]] = True
            except Exception as e:  # noqa: BLE001
                # duckdb rolls back the failing statement only; earlier rows of this cell stay: remove them
                rawc.execute(f"delete from {q}.STG where ID between ? and ?", [c["rows"][0][0], c["rows"][-1][0]])
                staged[c["k"]] = False
                out["blocked"].append((c["k"], "stage:" + type(e).__name__))
        src = _try(lambda: ex("SELECT ID, V FROM STG").fetchall())
        if src[0] != "ok":
            out["setup"] = src
            return None
        srcmap = {}
        for r in src[1]:
            srcmap.setdefault(int(r[0]), []).append(r[1])
        for c in cells:
            if not staged[c["k"]]:
                continue
            good = all(len(srcmap.get(i, [])) == 1 and M.same_value(ts, v, srcmap[i][0]) for i, v in c["rows"])
            if not good:
                out["blocked"].append((c["k"], "source_readback"))
        pre = _user_digest(fs)
        if path == "insert_select":
            act = _try(lambda: ex("INSERT INTO T1 (ID, V) SELECT ID, V FROM STG") and None)
        elif path == "insert_select_cast":
            act = _try(lambda: ex(f"INSERT INTO T1 (ID, V) SELECT ID, V::{sqlt} FROM STG") and None)
        elif path == "ctas":
            act = _try(lambda: ex("CREATE TABLE T1 AS SELECT ID, V FROM STG") and None)
            new_tables = (target,)
        elif path == "ctas_cast":
            act = _try(lambda: ex(f"CREATE TABLE T1 AS SELECT ID, CAST(V AS {sqlt}) AS V FROM STG") and None)
            new_tables = (target,)
        else:
            act = _try(lambda: ex("CREATE TABLE T1 CLONE STG") and None)
            new_tables = (target,)
        for c in cells:
            out["cells"][c["k"]] = {"act": act if act[0] != "ok" else ("ok",)}
        rb = _try(lambda: ex("SELECT ID, V FROM T1").fetchall())
        out["readback"] = rb
        out["bystander"] = _bystander_diff(pre, _user_digest(fs), target, new_tables)
        return [target]

    # ---- SQL-text paths ----
    if path in M.SQL_PATHS:
        pre = _user_digest(fs)
        for c in cells:
            sql, params = M.build_insert(ts, "T1", c["rows"], path)
            r = _try(lambda: ex(sql, params) and None)
            out["cells"][c["k"]] = {"act": r if r[0] != "ok" else ("ok",), "sql": sql}
        out["readback"] = _try(lambda: ex("SELECT ID, V FROM T1").fetchall())
        out["bystander"] = _bystander_diff(pre, _user_digest(fs), target)
        return [target]

    # ---- write_pandas ----
    import pandas as pd

    from fakesnow.pandas_tools import write_pandas

    pre = _user_digest(fs)
    auto_rows = []
    auto_tables = []
    auto_ok = []
    for c in cells:
        ids = [i for i, _ in c["rows"]]
        col = M.df_column(ts, [v for _, v in c["rows"]])
        idcol = pd.Series(ids, dtype="int64")
        kw = {}
        if ts["family"] == "tz":
            kw["use_logical_type"] = True  # needed by the real connector for tz-aware columns
        if path == "wp_subset":
            df = pd.DataFrame({"V": col, "ID": idcol})
            name = "T1"
        elif path == "wp_dbschema":
            df = pd.DataFrame({"ID": idcol, "V": col})
            name = "T1"
            kw.update(database=DB, schema=SCHEMA2)
        elif path == "wp_auto":
            df = pd.DataFrame({"ID": idcol, "V": col})
            name = f"A{c['k']}"
            kw.update(auto_create_table=True)
            auto_tables.append(f"{DB}.{SCHEMA}.{name}")
        else:
            df = pd.DataFrame({"ID": idcol, "V": col})
            name = "T1"
        if path == "wp_opts":
            o = c["opts"]
            labels = M.df_index(o["index"], len(ids))
            if labels is not None:
                df.index = labels
            kw.update(chunk_size=o["chunk_size"], parallel=o["parallel"], quote_identifiers=o["quote_identifiers"])
        out["stmts"] += 1
        r = _try(lambda: write_pandas(conn, df, name, **kw))
        rec = {"act": ("ok",) if r[0] == "ok" else r, "dtype": M.df_dtype_label(ts, [v for _, v in c["rows"]])}
        if r[0] == "ok":
            rec["wp_ok"] = M.check_wp_result(r[1], len(ids))
            rec["wp_ret"] = repr(r[1])[:200]
            if path == "wp_auto":
                rb = _try(lambda: ex(f"SELECT ID, V FROM {name}").fetchall())
                if rb[0] == "ok":
                    auto_rows.extend(rb[1])
                    auto_ok.append(f"{DB}.{SCHEMA}.{name}")
                else:
                    rec["act"] = rb  # table not readable: the write is not usable
        out["cells"][c["k"]] = rec
    if path == "wp_auto":
        out["readback"] = ("ok", auto_rows)
        out["bystander"] = _bystander_diff(pre, _user_digest(fs), None, tuple(auto_tables))
        return auto_ok
    else:
        sel = "SELECT ID, V, X FROM T1" if path == "wp_subset" else f"SELECT ID, V FROM {target}"
        out["readback"] = _try(lambda: ex(sel).fetchall())
        out["bystander"] = _bystander_diff(pre, _user_digest(fs), target)
    return [target]


# ---- classifier ---------------------------------------------------------------------------------------------------


def classify(clause, ts, path, cell, rec):
    """Deterministic class key, a function of the *input shape* only: synonym group of the declared type, ingestion
    path, value class of the written value (mc/ref/c01_model: tgroup, vclass, df_dtype_label).  Never derived from the
    observed value, the message text or fakesnow internals.  The NULL placement is not part of the key."""
    tg = M.tgroup(ts)
    if path == "wp_auto":
        # the declared type plays no role with auto_create_table: the DataFrame column decides.  Whether the write is
        # accepted is a matter of its dtype; what comes back is a matter of the kind of column it stands for.
        return f"path=wp_auto,dtype={rec['dtype']}" if clause == "C01.accept" else f"path=wp_auto,column={tg}"
    if clause == "C01.pytype":
        return f"type={tg}"  # the Python type of a column is a function of its declared type alone
    if path == "wp_opts":
        # whether every row arrives once and is counted once is a matter of the options, not of the column type
        # (parallel / quote_identifiers are in the shape label of the replay, not in the key)
        o = cell["opts"]
        key = f"path=wp_opts,chunk={o['chunk']},index={o['index']}"
        return key if clause in ("C01.accept", "C01.rows", "C01.wp_result") else f"type={tg},{key}"
    vals = [v for _, v in cell["rows"] if v is not None]
    value = vals[-1] if vals else None  # the value the shape label names (an identity value may precede it)
    vc = M.vclass(ts, cell["shape"], value, vals[:-1])
    if tg == "int_synonyms" and vc != "within_int64" and vc != "null_only":
        # INT/INTEGER/BIGINT/SMALLINT/TINYINT/BYTEINT are NUMBER(38,0): one input feature (|v| beyond 64 bit) whatever
        # the path and whichever of the 38-digit boundary values
        return f"type={tg},value=beyond_int64"
    return f"type={tg},path={path},value={vc}"


# ---- judging ------------------------------------------------------------------------------------------------------


def judge(ts, path, cells, out, acc, tier, verbose=None, state="pristine"):
    """Apply every oracle clause to the observations of one batch."""
    tname = ts["sql"]
    item = {"type": tname, "path": path, "tier": tier, "session": state}

    def report(clause, cell, rec, failed, detail):
        cls = classify(clause, ts, path, cell, rec)
        acc.member(clause, cls, failed)
        if failed:
            acc.violation(clause, cls, detail, dict(item, shape=cell["shape"], null=cell["null"]))
        if verbose is not None and (cell["shape"], cell["null"]) == verbose:
            print(f"  {clause:14s} {'FAIL' if failed else 'ok  '} class={cls} {detail if failed else ''}")

    if out["setup"] is not None:
        acc.violation("C01.accept", f"type={M.tgroup(ts)},path={path},stage=setup", {"error": out["setup"]}, item)
        return
    rb = out["readback"]
    if rb[0] != "ok":
        acc.violation("C01.accept", f"type={M.tgroup(ts)},path={path},stage=readback", {"error": rb}, item)
        return
    got = {}
    for r in rb[1]:
        got.setdefault(int(r[0]), []).append(tuple(r[1:]))
    blocked = {k for k, _ in out["blocked"]}
    known_ids = set()
    views = {}
    for oname, v in out.get("views", {}).items():
        if v[0] == "ok":
            m = {}
            for r in v[1]:
                m.setdefault(int(r[0]), []).append(r[1])
            views[oname] = ("ok", m)
        else:
            views[oname] = v
    for sql in out.get("unexpected_success", ()):
        acc.note(f"a statement of the used-session set-up that is expected to fail succeeded: {sql[:80]}")
    for c in cells:
        k = c["k"]
        acc.count("evaluations")
        if k in blocked:
            acc.count("cells_blocked_by_source")
            known_ids.update(i for i, _ in c["rows"])  # they are copied along, just not judged
            continue
        rec = out["cells"][k]
        key = (tname, path, state, c["shape"], c["null"])
        if c["shape"] != "null":
            acc.nontrivial(key)
        accepted = rec["act"][0] == "ok"
        report("C01.accept", c, rec, not accepted, {"error": rec["act"], "sql": rec.get("sql"), "dtype": rec.get("dtype")})
        if not accepted:
            acc.outcome((ts["family"], path, "raise", rec["act"][1]))
            continue
        known_ids.update(i for i, _ in c["rows"])
        once = all(len(got.get(i, [])) == 1 for i, _ in c["rows"])
        report("C01.rows", c, rec, not once, {"ids": [i for i, _ in c["rows"]], "returned": {i: len(got.get(i, [])) for i, _ in c["rows"]}})
        if "wp_ok" in rec:
            report("C01.wp_result", c, rec, not rec["wp_ok"], {"returned": rec["wp_ret"], "rows": len(c["rows"])})
        if not once:
            continue
        # C01.stored: the other observers see exactly what the writing session read back
        for oname in OBSERVERS:
            v = views.get(oname)
            if v is None:
                continue
            if v[0] != "ok":
                ok_o, det = False, {"observer": oname, "error": v}
            else:
                seen = {i: v[1].get(i, []) for i, _ in c["rows"]}
                ok_o = all(len(seen[i]) == 1 and repr(seen[i][0]) == repr(got[i][0][0]) for i, _ in c["rows"])
                det = {"observer": oname, "writer_read": {i: got[i][0][0] for i, _ in c["rows"]}, "observer_read": seen, "session": state}
            cls = f"path={path},observer={oname}"
            acc.member("C01.stored", cls, not ok_o)
            if not ok_o:
                acc.violation("C01.stored", cls, det, dict(item, shape=c["shape"], null=c["null"]))
            if verbose is not None and (c["shape"], c["null"]) == verbose:
                print(f"  {'C01.stored':14s} {'ok  ' if ok_o else 'FAIL'} class={cls} {'' if ok_o else det}")
        bad = set()
        first = {}
        for i, v in c["rows"]:
            g = got[i][0]
            b = M.check_value(ts, v, g[0])
            if path == "wp_subset" and g[1] is not None:
                b = b | {"null"}  # the column that was not written must be NULL
            for x in b:
                first.setdefault(x, {"id": i, "written": v, "read": g[0], "read_type": type(g[0]).__name__})
            bad |= b
            acc.outcome((ts["family"], type(g[0]).__name__, tuple(sorted(b))))
        has_null = any(v is None for _, v in c["rows"])
        has_val = any(v is not None for _, v in c["rows"])
        if has_null or "null" in bad:
            report("C01.null", c, rec, "null" in bad, first.get("null"))
        if has_val:
            report("C01.pytype", c, rec, "pytype" in bad, dict(first.get("pytype", {}), expected_type=M.expected_pytype(ts)))
            report("C01.value", c, rec, "value" in bad, first.get("value"))
    # nothing else in the table: ids that nobody wrote (bystander ids are negative)
    extra = sorted(i for i in got if i > 0 and i not in known_ids)
    dup_by = sorted(i for i in got if i < 0 and len(got[i]) != 1)
    cls = f"type={M.tgroup(ts)},path={path},extra_rows"
    acc.member("C01.rows", cls, bool(extra or dup_by))
    if extra or dup_by:
        acc.violation("C01.rows", cls, {"unexpected_ids": extra[:10], "bystander_ids_multiplied": dup_by}, item)
    cls = f"type={M.tgroup(ts)},path={path}"
    acc.member("C01.bystander", cls, bool(out["bystander"]))
    if out["bystander"]:
        acc.violation("C01.bystander", cls, {"changed": out["bystander"]}, item)


def run_batch(item, acc: core.Acc, tier):
    tname, path, state = item
    ts = M.TYPE_BY_NAME[tname]
    cells = M.cells(ts, path, tier)
    out = execute_batch(ts, path, cells, state)
    local = core.Acc()
    local.add("engine_default_timezone", _engine_default_tz())
    local.count("batches")
    local.count("statements", out["stmts"])
    local.obs((item, out["setup"], sorted(out["blocked"]), repr(out["readback"]), repr(sorted(out["cells"].items())), out["bystander"],
               repr(sorted(out["views"].items())), out["unexpected_success"]))
    judge(ts, path, cells, out, local, tier, state=state)
    c = cells[min(1, len(cells) - 1)]
    sample = core.jsonable({"type": tname, "path": path, "session": state, "shape": c["shape"], "null_placement": c["null"],
                            "rows_written": c["rows"], "statement": out["cells"].get(c["k"], {}).get("sql"),
                            "cells_in_batch": len(cells)})
    first = {k: {"detail": v["detail"], "replay": v["replay"]} for k, v in local.viol.items()}
    acc.merge(local)
    return {"cells": len(cells), "first": first, "sample": sample}


def items_for(tier):
    """(type, path, session state).  quick: the wp_opts product and the "used" session state for one type per synonym
    group only."""
    out = []
    for t in M.TYPES:
        rep = t["sql"] in M.WP_OPTS_QUICK_TYPES
        for p in M.PATHS:
            if not M.type_applies(t, p) or (tier == "quick" and p == "wp_opts" and not rep):
                continue
            for st in M.SESSION_STATES:
                if st != "pristine" and (p == "wp_opts" or (tier == "quick" and not rep)):
                    continue  # the option product is not repeated per session state
                out.append((t["sql"], p, st))
    return out


def run(ctx: core.Ctx):
    ctx.rule = (
        "complete product: column type x boundary value (exactly representable, with shape label) x ingestion path x "
        "NULL placement; one cell = one value at one placement written by one statement / one write_pandas call; "
        "cells batched one fresh instance per (type, path); evaluations = cells; non-trivial = distinct "
        "(type, path, shape, placement) cells that write at least one non-NULL value and were judged (not blocked)"
    )
    ctx.assumptions = [
        "the reference model (mc/ref/c01_model.py) encodes the Snowflake documentation / connector type mapping, not the service",
        "values outside the boundary alphabets are not explored (all of Unicode, all 2^64 integers)",
        "staging tables and bystanders are written through a raw DuckDB cursor; derived-path cells whose source does not "
        "read back correctly are counted as blocked, not judged",
        "cells of one batch are independent (distinct row ids, one statement each)",
        f"every execution runs with process time zone {PROCESS_TZ} (not UTC) so that fakesnow's own TimeZone=UTC setting is exercised",
    ]
    items = items_for(ctx.tier)
    res = ctx.pmap(run_batch, items, chunk=2)
    # the stored example of each class is the one of the first batch in *canonical* order (independent of VERIF_SEED
    # and of pool scheduling)
    order = {it: n for n, it in enumerate(items)}
    chosen = {}
    for it, r in sorted(res, key=lambda x: order[tuple(x[0])]):
        for k, v in r["first"].items():
            chosen.setdefault(k, v)
    for k, v in chosen.items():
        if k in ctx.acc.viol:
            ctx.acc.viol[k].update(v)
    ordered = [r for _, r in sorted(res, key=lambda x: order[tuple(x[0])])]
    ctx.acc.samples = [ordered[i]["sample"] for i in sorted({0, len(ordered) // 3, 2 * len(ordered) // 3, len(ordered) - 1})]
    ctx.exhaustive = True
    ctx.extra["write_pandas_options"] = {
        "rows_per_dataframe": M.WP_OPTS_N, "chunk_size": [c for _, c in M.WP_CHUNKS], "index": M.WP_INDEXES,
        "parallel": M.WP_PARALLEL, "quote_identifiers": M.WP_QUOTE,
        "types": list(M.WP_OPTS_QUICK_TYPES) if ctx.quick else "all",
    }
    ctx.extra["alphabet"] = {
        "types": [t["sql"] for t in M.TYPES],
        "paths": M.PATHS,
        "placements": (M.QUICK_PLACEMENTS if ctx.quick else M.PLACEMENTS) + ["all"],
        "values_per_family": {
            f: [k for k, _ in M.values_for(next(t for t in M.TYPES if t["family"] == f))
                if not M.is_pair_shape(k) and (not ctx.quick or k in M.QUICK_SHAPES[f])]
            for f in M.QUICK_SHAPES
        },
        "active_tokens": [k for k, _ in M.ACTIVE_TOKENS],
        "token_pair_values": "every ordered pair, adjacent" + ("" if ctx.quick else " and apart") + "; types: "
        + (", ".join(M.PAIR_TYPES_QUICK) if ctx.quick else "every unbounded text type"),
        "session_states": M.SESSION_STATES,
        "session_variables": M.SESSION_VARIABLES,
    }
    zones = sorted(ctx.acc.sets.get("engine_default_timezone", ()))
    ctx.extra["engine_default_timezone_in_workers"] = zones
    if zones != [PROCESS_TZ]:
        ctx.acc.note(f"process time zone is {zones}, not {PROCESS_TZ}: the TimeZone=UTC setting of conn.py was not exercised")
    ctx.extra["batches_planned"] = len(items)
    ctx.extra["cells_planned"] = sum(r["cells"] for _, r in res)
    ctx.extra["bound"] = "full product of the stated alphabets" + (" (quick: reduced value/placement alphabets)" if ctx.quick else "")


def replay(payload):
    """Re-execute the batch of a stored counterexample (straight-line, no pool) and print the verdicts of its cell."""
    r = payload["replay"]
    ts = M.TYPE_BY_NAME[r["type"]]
    path, tier, state = r["path"], r.get("tier", "thorough"), r.get("session", "pristine")
    cells = M.cells(ts, path, tier)
    want = (r.get("shape"), r.get("null"))
    print(f"type={ts['sql']} path={path} session={state} tier={tier} cell={want} expected python type: {M.expected_pytype(ts)}")
    out = execute_batch(ts, path, cells, state)
    for c in cells:
        if (c["shape"], c["null"]) == want:
            print("  rows written:", c["rows"])
            print("  observation :", out["cells"].get(c["k"]))
            if out["readback"] and out["readback"][0] == "ok":
                ids = {i for i, _ in c["rows"]}
                print("  read back   :", [x for x in out["readback"][1] if int(x[0]) in ids])
    print("  setup:", out["setup"], "blocked:", [b for b in out["blocked"]], "bystander diff:", out["bystander"])
    acc = core.Acc()
    judge(ts, path, cells, out, acc, tier, verbose=want, state=state)
    hit = (payload["clause"], payload["class"]) in acc.viol
    print("verdict:", "VIOLATION reproduced" if hit else "not reproduced", json.dumps(acc.viol.get((payload["clause"], payload["class"]), {}).get("detail"), default=str)[:400])
    return hit
