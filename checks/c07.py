"""C07 — failures are Snowflake errors with the right codes, and change nothing.

E1: for every session state of a small generator (current database+schema / database only / none, with and without an
open transaction holding a pending row, rich and minimal catalog) every failing statement of a written-out catalogue
(every statement kind x every way of referring to something missing or duplicate, rendered at all three qualification
levels) is executed on a fresh instance; thorough also chains two failing statements. Then a fixed usability suffix.
Ground truth before/after is the raw-DuckDB digest incl. session context, variables; 'transaction still open' is decided from effects (pending row still visible to the session, invisible to
others, and committed by the suffix).

Not demanded: which of 2003/2043 is used for unknown column/function/schema/database/duplicate; message wording;
that SHOW ... IN <missing scope> or UNSET <undefined> fail; errno of the undefined-variable error.
"""
from __future__ import annotations

from mc import core, observe
from mc.util import exc_info

PID = "C07"
LEVEL = "model_checking"

ALLOWED = {(2003, "42S02"), (2043, "02000"), (90105, "22000"), (90106, "22000")}

ADMIN_SETUP = [
    "create table db1.s1.t (a int, b varchar)",
    "insert into db1.s1.t values (1, 'x'), (2, 'y')",
    "create table db1.s1.u (id int, c varchar)",
    "insert into db1.s1.u values (1, 'k')",
    "create view db1.s1.v as select a from db1.s1.t",
    "create schema db1.s2",
    "create database db2",
    "create schema db2.s1",
]


def q(level, name):
    return [name, f"s1.{name}", f"db1.s1.{name}"][level]


def catalogue(tier):
    """-> list of (id, level, sql, kind) ; kind in missing_table | any | undef_var | maybe"""
    out = []
    for lv in (0, 1, 2):
        N = q(lv, "nope")
        T = q(lv, "t")
        U = q(lv, "u")
        V = q(lv, "v")
        X = q(lv, "newx")
        tpl = [
            ("select_from", f"select * from {N}", "missing_table"),
            ("select_join", f"select * from {T} x join {N} y on x.a = y.a", "missing_table"),
            ("select_subquery", f"select * from (select * from {N}) z", "missing_table"),
            ("select_in_subquery", f"select * from {T} where a in (select a from {N})", "missing_table"),
            ("cte", f"with c as (select * from {N}) select * from c", "missing_table"),
            ("ctas_source", f"create table {X} as select * from {N}", "missing_table"),
            ("view_body", f"create view {X} as select * from {N}", "missing_table"),
            ("insert_target", f"insert into {N} values (1)", "missing_table"),
            ("insert_select_source", f"insert into {T} select * from {N}", "missing_table"),
            ("update_target", f"update {N} set a = 1", "missing_table"),
            ("delete_target", f"delete from {N}", "missing_table"),
            ("truncate_target", f"truncate table {N}", "missing_table"),
            ("drop_table", f"drop table {N}", "missing_table"),
            ("drop_view", f"drop view {N}", "missing_table"),
            ("alter_add", f"alter table {N} add column c int", "missing_table"),
            ("alter_rename", f"alter table {N} rename to nope2", "missing_table"),
            ("alter_set_comment", f"alter table {N} set comment = 'c'", "missing_table"),
            ("comment_on", f"comment on table {N} is 'c'", "missing_table"),
            ("comment_on_column", f"alter table {N} alter column a comment 'c'", "missing_table"),
            ("clone_source", f"create table {X} clone {N}", "missing_table"),
            ("describe_table", f"describe table {N}", "missing_table"),
            ("merge_target", f"merge into {N} using {U} on {N}.a = {U}.id when matched then update set {N}.a = 1", "missing_table"),
            ("merge_source", f"merge into {T} using {N} on {T}.a = {N}.id when matched then update set {T}.b = 'm'", "missing_table"),
            ("unknown_column_select", f"select zz from {T}", "any"),
            ("unknown_column_where", f"select a from {T} where zz = 1", "any"),
            ("unknown_column_set", f"update {T} set zz = 1", "any"),
            ("unknown_column_insert", f"insert into {T} (zz) values (1)", "any"),
            ("unknown_column_view", f"select zz from {V}", "any"),
            ("exists_table", f"create table {T} (a int)", "any"),
            ("exists_view", f"create view {V} as select 1 as a", "any"),
            ("too_few_values", f"insert into {T} values (1)", "any"),
            ("too_many_values", f"insert into {T} values (1, 'a', 3)", "any"),
            ("value_count_cols", f"insert into {T} (a) values (1, 2)", "any"),
            ("drop_table_if_exists", f"drop table if exists {N}", "maybe"),
            # statements that fail in a LATER internal step, after an earlier step has already changed something
            # (leaving everything unchanged needs an active roll-back, in whatever way the transaction state is tracked)
            ("merge_fails_in_second_clause", f"merge into {T} using {U} on {T}.a = {U}.id when matched then update set {T}.b = 'mm' when not matched then insert (zz) values (1)", "any"),
            ("exists_table_with_lengths", f"create table {T} (a int, b varchar(3)) comment = 'again'", "any"),
        ]
        for i, s, k in tpl:
            out.append((i, lv, s, k))
        # the same statements about a table that is missing where its qualified name points, while a table of the same
        # bare name exists in the current schema (db1.s1.t exists; db1.s2.t and db2.s1.t do not): a look-up that drops
        # the qualifier would find the decoy
        if lv in (1, 2):
            D = "s2.t" if lv == 1 else "db2.s1.t"
            for i, s, k in tpl:
                if k == "missing_table" and (tier != "quick" or i in ("select_from", "insert_target", "update_target", "drop_table", "alter_add", "alter_rename", "alter_set_comment", "comment_on", "comment_on_column", "clone_source", "describe_table", "merge_target", "merge_source", "truncate_target")):
                    out.append((i + "_decoy", lv, s.replace(N, D), k))
    out += [
        ("unknown_function", 2, "select nofunc(1)", "any"),
        ("undefined_variable", 2, "select $undefined_var", "undef_var"),
        ("unknown_schema_select", 1, "select * from nos.t", "any"),
        ("unknown_schema_select", 2, "select * from db1.nos.t", "any"),
        ("unknown_db_select", 2, "select * from nodb.s1.t", "any"),
        ("unknown_schema_create", 1, "create table nos.x (a int)", "any"),
        ("unknown_schema_create", 2, "create table db1.nos.x (a int)", "any"),
        ("unknown_db_create", 2, "create table nodb.s1.x (a int)", "any"),
        ("unknown_db_create_schema", 2, "create schema nodb.sx", "any"),
        ("use_missing_schema", 3, "use schema nos", "any"),  # level 3: needs a database, but real Snowflake answers 2043 without one
        ("use_missing_schema", 2, "use schema db1.nos", "any"),
        ("use_missing_schema_db", 2, "use schema nodb.s1", "any"),
        ("use_missing_db", 2, "use database nodb", "any"),
        ("drop_missing_schema", 1, "drop schema nos", "any"),
        ("drop_missing_schema", 2, "drop schema db1.nos", "any"),
        ("exists_schema", 1, "create schema s2", "any"),
        ("exists_schema", 2, "create schema db1.s2", "any"),
        ("exists_database", 2, "create database db2", "any"),
        ("show_tables_missing_schema", 2, "show tables in schema db1.nos", "maybe"),
    ]
    return out


STATES_QUICK = [("full", False), ("full", True), ("dbonly", False), ("none", False), ("dbonly", True), ("none", True)]
# the failing statement runs on the session's long-lived cursor, which earlier began a transaction (with a multi-step
# statement inside it) that was then ended through the CONNECTION's commit() / rollback(), not through that cursor
# ... or by a COMMIT that the engine rejected (two transactions inserted the same primary key): the transaction is over
STATES_ENDED = [("full", "commit()"), ("full", "rollback()"), ("full", "failed_commit")]
STATES_MORE = [("full_min", False), ("full_min", True)]


def build(state):
    import fakesnow.instance as inst

    ctxk, tx = state
    fs = inst.FakeSnow()
    admin = fs.connect(database="db1", schema="s1")
    cur = admin.cursor()
    if ctxk != "full_min":
        for s in ADMIN_SETUP:
            cur.execute(s)
    else:
        cur.execute("create table db1.s1.t (a int, b varchar)")
        cur.execute("create table db1.s1.u (id int, c varchar)")
        cur.execute("create view db1.s1.v as select a from db1.s1.t")
    if ctxk in ("full", "full_min"):
        conn = fs.connect(database="db1", schema="s1")
    elif ctxk == "dbonly":
        conn = fs.connect(database="db1")
    else:
        conn = fs.connect()
    c = conn.cursor()
    c.execute("set myvar = 5")
    if tx == "failed_commit":
        cur.execute("create table db1.s1.pk (k int primary key)")
        c.execute("begin")
        c.execute("insert into db1.s1.t values (50, 'pending')")
        c.execute("insert into db1.s1.pk values (1)")
        c.execute("create table db1.s1.made_in_tx (v varchar(3)) comment = 'c'")
        cur.execute("begin")
        cur.execute("insert into db1.s1.pk values (1)")
        cur.execute("commit")
        try:
            c.execute("commit")
        except Exception:  # noqa: BLE001  (the engine enforces the key at commit; the transaction is rolled back)
            pass
    elif tx in ("commit()", "rollback()"):
        c.execute("begin")
        c.execute("insert into db1.s1.t values (50, 'pending')")
        c.execute("create table db1.s1.made_in_tx (v varchar(3)) comment = 'c'")
        getattr(conn, tx[:-2])()
    elif tx:
        c.execute("begin")
        c.execute("insert into db1.s1.t values (50, 'pending')")
    conn._verif_cursor = c  # noqa: SLF001  the cursor that ran the set-up
    return fs, admin, conn


def expectation(ctxk, level, kind):
    has_db = ctxk != "none"
    has_schema = ctxk in ("full", "full_min")
    if level == 0 and not has_db:
        return ("noctx", 90105)
    if level == 0 and not has_schema:
        return ("noctx", 90106)
    if level == 1 and not has_db:
        return ("noctx", 90105)
    if level == 3 and not has_db:
        return ("any", None)
    return (kind, None)


def expand(item, acc: core.Acc, tier):
    state, stmts = item  # stmts: list of (id, level, sql, kind) executed in sequence (1 or 2 failing statements)
    ctxk, tx = state
    try:
        fs, admin, conn = build(state)
    except Exception as e:  # noqa: BLE001
        # the set-up consists of statements that succeed on a pristine process: if it fails, an earlier failing statement
        # (of another session in this worker process) has left something behind in the library itself
        acc.violation("C07.later_sessions_unaffected", f"setup_of_a_new_instance_fails,exc={type(e).__name__}", {"error": str(e)[:200], "state": state, "note": "needs the earlier items of the same worker process to reproduce"}, {"state": state, "stmts": stmts})
        return
    ended = tx if isinstance(tx, str) else None
    pending_visible = bool(tx) and ended not in ("rollback()", "failed_commit")
    tx = bool(tx) and ended is None  # is a transaction of the user open while the failing statement runs
    try:
        cur = conn._verif_cursor if ended else conn.cursor()  # noqa: SLF001
        ok_chain = True
        for sid, level, sql, kind in stmts:
            pre = observe.digest(fs, [conn], views=True)
            pre_rows = _rows(cur)
            try:
                cur.execute(sql)
                got = ("ok", None)
            except Exception as e:  # noqa: BLE001
                got = exc_info(e)
            sqlstate_after = cur.sqlstate
            post = observe.digest(fs, [conn], views=True)
            post_rows = _rows(cur)
            exp = expectation(ctxk, level, kind)
            acc.count("evaluations")
            acc.count("transitions")
            acc.count("traces")
            acc.obs((state, sid, level, got, post == pre))
            acc.outcome((sid, level, ctxk, got[0], got[1:4] if got[0] == "err" else None))
            acc.nontrivial((state, sid, level))
            rp = {"state": state, "stmts": stmts}
            cls = f"stmt={sid},level={level}" + ("" if ctxk.startswith("full") else f",ctx={ctxk}")
            txs = ("tx" if tx else "notx") if ended is None else f"notx,tx_ended_by={ended}"
            if got[0] == "ok":
                if exp[0] == "missing_table":
                    acc.violation("C07.should_fail", cls, {"sql": sql, "state": state}, rp)
                elif exp[0] == "noctx":
                    acc.violation("C07.no_context", cls, {"sql": sql, "want": exp[1], "got": "success"}, rp)
                if exp[0] != "maybe" and post != pre:
                    acc.violation("C07.should_fail_changed_state", cls, {"sql": sql, "diff": _diff(pre, post)}, rp)
                    ok_chain = False
                continue
            # the statement raised
            if got[1] != "snowflake.connector.errors.ProgrammingError":
                # engine exceptions can depend on the session state; parser/assertion failures do not
                ecls = f"stmt={sid},level={level},exc={got[1].split('.')[-1]}" + (f",ctx={ctxk},{txs}" if got[1].startswith("duckdb") else "")
                acc.violation("C07.error_type", ecls, {"sql": sql, "got": got, "state": state}, rp)
            else:
                pair = (got[2], got[3])
                if exp[0] == "noctx":
                    if pair != (exp[1], "22000"):
                        acc.violation("C07.no_context", cls, {"sql": sql, "want": exp[1], "got": got}, rp)
                elif exp[0] == "missing_table":
                    if pair != (2003, "42S02"):
                        acc.violation("C07.errno", cls, {"sql": sql, "want": [2003, "42S02"], "got": got}, rp)
                elif exp[0] == "undef_var":
                    if "Session variable '$UNDEFINED_VAR' does not exist" not in got[4]:
                        acc.violation("C07.errno", cls, {"sql": sql, "got": got}, rp)
                elif pair not in ALLOWED:
                    acc.violation("C07.errno", cls, {"sql": sql, "want": sorted(ALLOWED), "got": got}, rp)
                if sqlstate_after != got[3]:
                    acc.violation("C07.cursor_sqlstate", cls, {"sql": sql, "exception": got[3], "cursor": sqlstate_after}, rp)
            if post != pre or post_rows != pre_rows:
                acc.violation("C07.changes_nothing", cls + f",{txs}", {"sql": sql, "diff": _diff(pre, post), "rows": [pre_rows, post_rows]}, rp)
                ok_chain = False
        # usability suffix
        if ok_chain:
            bad = suffix(fs, admin, conn, cur, tx, pending_visible)
            if bad:
                last = stmts[-1]
                acc.violation("C07.usable_afterwards", f"stmt={last[0]},level={last[1]},{txs},step={bad[0]}", {"after": [s[2] for s in stmts], "problem": bad}, {"state": state, "stmts": stmts})
        acc.sample({"state": state, "statements": [s[2] for s in stmts], "outcome": got}, cap=3)
    finally:
        fs.duck_conn.close()


def _rows(cur):
    """rows of t as this session sees them (incl. its own pending rows)"""
    c2 = cur._conn.cursor()  # noqa: SLF001  a second cursor of the same connection
    try:
        c2.execute("select a, b from db1.s1.t order by a")
        return c2.fetchall()
    except Exception as e:  # noqa: BLE001
        return exc_info(e)


def _diff(pre, post):
    a, b = dict(pre), dict(post)
    return {k: {"before": repr(a[k])[:300], "after": repr(b[k])[:300]} for k in a if a[k] != b.get(k)}


def suffix(fs, admin, conn, cur, tx, pending_visible=None):
    if pending_visible is None:
        pending_visible = tx
    try:
        cur.execute("select 1")
        if cur.fetchall() != [(1,)]:
            return ("select1", "wrong rows")
        if cur.sqlstate is not None:
            return ("sqlstate_reset", cur.sqlstate)
        cur.execute("insert into db1.s1.t values (99, 'after')")
        cur.execute("select a from db1.s1.t where a >= 50 order by a")
        want = [(50,), (99,)] if pending_visible else [(99,)]
        if cur.fetchall() != want:
            return ("own_rows", "pending or new row not visible")
        ac = admin.cursor()
        ac.execute("select a from db1.s1.t where a >= 50 order by a")
        seen = ac.fetchall()
        if tx:
            if seen != []:
                return ("isolation", seen)
            cur.execute("commit")
            ac.execute("select a from db1.s1.t where a >= 50 order by a")
            seen = ac.fetchall()
        if seen != want:
            return ("commit", seen)
        cur.execute("select $myvar")
        if cur.fetchall() != [(5,)]:
            return ("variable", "lost")
        # statements answered by the library itself (no engine statement of their own) still work, here ...
        cur.execute("set after_failure = 1")
        cur.execute("select $after_failure")
        if cur.fetchall() != [(1,)]:
            return ("set_after_failure", "not set")
        cur.execute("unset after_failure")
        # ... and in a session of a NEW instance in this process (nothing of the failure may live in the library)
        import fakesnow.instance as inst

        fs2 = inst.FakeSnow()
        try:
            c2 = fs2.connect(database="db1", schema="s1").cursor()
            c2.execute("set other_instance = 2")
            c2.execute("create table o (v varchar(4)) comment = 'o'")
            c2.execute("alter table o set tag k = 'v'")
            c2.execute("select $other_instance")
            if c2.fetchall() != [(2,)]:
                return ("new_instance", "variable not set")
        except Exception as e:  # noqa: BLE001
            return ("new_instance", exc_info(e))
        finally:
            fs2.duck_conn.close()
    except Exception as e:  # noqa: BLE001
        return ("exception", exc_info(e))
    return None


CLOSED_OPS = [
    "execute", "executemany", "commit", "rollback", "execute_string", "description", "execute_on_old_cursor",
    "execute_multi_step_create", "execute_merge", "execute_comment", "execute_set", "execute_unset", "execute_use", "execute_nop_like",
    # on the cursor that already carried out such statements while the connection was open
    "multi_step_create_on_old_cursor", "merge_on_old_cursor", "comment_on_old_cursor",
]


def closed_case(op, acc: core.Acc, tier):
    import fakesnow.instance as inst

    fs = inst.FakeSnow()
    try:
        other = fs.connect(database="db1", schema="s1")
        conn = fs.connect(database="db1", schema="s1")
        old = conn.cursor()
        old.execute("create table t (a int)")
        old.execute("set before_close = 1")
        old.execute("create table made_before (v varchar(3)) comment = 'c'")
        old.execute("merge into t using (select 0 as a) s on t.a = s.a when matched then update set t.a = 0")
        old.execute("select 1")
        conn.close()
        try:
            if op == "execute":
                conn.cursor().execute("select 1")
            elif op == "executemany":
                conn.cursor().executemany("insert into t values (%s)", [(1,), (2,)])
            elif op == "commit":
                conn.commit()
            elif op == "rollback":
                conn.rollback()
            elif op == "execute_string":
                conn.execute_string("select 1; select 2")
            elif op == "description":
                _ = old.description
            elif op == "execute_on_old_cursor":
                old.execute("select 1")
            elif op == "execute_multi_step_create":
                conn.cursor().execute("create table tt (name varchar(10)) comment = 'c'")
            elif op == "execute_merge":
                conn.cursor().execute("merge into t using (select 1 as a) s on t.a = s.a when not matched then insert (a) values (s.a)")
            elif op == "execute_comment":
                conn.cursor().execute("comment on table t is 'c'")
            elif op == "execute_set":
                conn.cursor().execute("set closed_var = 1")
            elif op == "execute_unset":
                old.execute("unset before_close")
            elif op == "execute_use":
                conn.cursor().execute("use schema s1")
            elif op == "multi_step_create_on_old_cursor":
                old.execute("create table tt (name varchar(10)) comment = 'c'")
            elif op == "merge_on_old_cursor":
                old.execute("merge into t using (select 1 as a) s on t.a = s.a when not matched then insert (a) values (s.a)")
            elif op == "comment_on_old_cursor":
                old.execute("comment on table t is 'c'")
            elif op == "execute_nop_like":
                conn.cursor().execute("alter table t set tag k = 'v'")
            got = ("ok",)
        except Exception as e:  # noqa: BLE001
            got = exc_info(e)
        # the instance and other connections are unaffected
        oc = other.cursor()
        oc.execute("select count(*) from t")
        other_ok = oc.fetchall() == [(0,)]
    finally:
        fs.duck_conn.close()
    acc.count("evaluations")
    acc.count("transitions")
    acc.count("traces")
    acc.obs((op, got, other_ok))
    acc.outcome(("closed", op, got[:4]))
    acc.nontrivial(("closed", op))
    rp = {"closed_op": op}
    import snowflake.connector.errors as E

    want_cls = {"snowflake.connector.errors.DatabaseError"}
    if got[0] != "err" or got[1] not in want_cls or (got[2], got[3]) != (250002, "08003"):
        acc.violation("C07.closed_connection", f"op={op}", {"want": ["DatabaseError", 250002, "08003"], "got": got}, rp)
    if not other_ok:
        acc.violation("C07.closed_connection", f"op={op},other_connection_affected", {}, rp)
    _ = E


# ---- how long cursor.sqlstate shows a failure ------------------------------------------------------------------------------
# "cursor.sqlstate shows the failed state until the next execute resets it", whatever that next execute is and however
# it ends: every kind of failing statement (one per error code the catalogue produces, single- and multi-step) x every
# kind of next execute on the same cursor - statements the engine answers, statements the library answers itself (SET,
# USE, BEGIN, a statement skipped through the nop_regexes option), statements carried out in several steps, a script,
# and executes that fail for another reason (connection closed meanwhile; text the parser rejects).
LIFETIME_FAIL = [
    ("missing_table", "select * from db1.s1.table_that_is_missing", "42S02"),
    ("missing_table_multi_step", "comment on table db1.s1.table_that_is_missing is 'c'", "42S02"),
    ("no_context", "select * from unqualified_table_without_context", "22000"),
    ("unknown_column", "select no_such_column from db1.s1.t", "02000"),
]
LIFETIME_NEXT = [
    ("select", "select 1"),
    ("dml", "insert into db1.s1.t values (77, 'n')"),
    ("set_variable", "set lifetime_v = 1"),
    ("use_schema", "use schema db1.s1"),
    ("begin", "begin"),
    ("skipped_by_nop_regexes", "call skipped_procedure()"),
    ("multi_step_create", "create table db1.s1.lifetime_t (v varchar(3)) comment = 'c'"),
    ("describe", "describe table db1.s1.t"),
    ("show", "show terse schemas in database db1"),
    ("executemany", "EM:insert into db1.s1.t values (%s, %s)"),
    ("fails:closed_connection", "select 1"),
    ("fails:rejected_by_parser", "select from from from"),
]


def lifetime_case(item, acc: core.Acc, tier):
    import fakesnow.instance as inst

    (fid, fsql, fstate), (nid, nsql) = item
    fs = inst.FakeSnow(nop_regexes=[r"^call\s+skipped_procedure"])
    rp = {"lifetime": [fid, nid]}
    cls = f"failed={fid},next_execute={nid}"
    acc.count("evaluations")
    acc.count("transitions")
    acc.count("traces")
    try:
        admin = fs.connect(database="db1", schema="s1")
        ac = admin.cursor()
        for q in ADMIN_SETUP[:2]:
            ac.execute(q)
        conn = fs.connect(database="db1") if fid == "no_context" else fs.connect(database="db1", schema="s1")
        cur = conn.cursor()
        try:
            cur.execute(fsql)
            acc.violation("C07.cursor_sqlstate", cls + ",first_did_not_fail", {"sql": fsql}, rp)
            return None
        except Exception as e:  # noqa: BLE001
            first = exc_info(e)
        if cur.sqlstate != fstate or first[3] != fstate:
            acc.violation("C07.cursor_sqlstate", cls + ",after_failure", {"sql": fsql, "want": fstate, "cursor": cur.sqlstate, "exception": first}, rp)
            return None
        if nid == "fails:closed_connection":
            conn.close()
        nxt = ("ok",)
        try:
            if nsql.startswith("EM:"):
                cur.executemany(nsql[3:], [(78, "m"), (79, "m")])
            else:
                cur.execute(nsql)
        except Exception as e:  # noqa: BLE001
            nxt = exc_info(e)
        after = cur.sqlstate
        acc.obs((fid, nid, first[1:4], nxt[:4], after))
        acc.outcome((nid, nxt[0], after))
        acc.nontrivial((fid, nid))
        if nid.startswith("fails:"):
            if nxt[0] != "err":
                acc.violation("C07.cursor_sqlstate", cls + ",next_did_not_fail", {"sql": nsql, "got": nxt}, rp)
            elif after == fstate:
                # the new failure has its own state (or none): the old one must be gone
                acc.violation("C07.cursor_sqlstate", cls, {"first": fsql, "next": nsql, "next_outcome": nxt, "cursor_sqlstate_still": after}, rp)
        elif nxt[0] != "ok":
            acc.violation("C07.usable_afterwards", cls, {"first": fsql, "next": nsql, "got": nxt}, rp)
        elif after is not None:
            acc.violation("C07.cursor_sqlstate", cls, {"first": fsql, "next": nsql, "cursor_sqlstate_still": after}, rp)
    finally:
        fs.duck_conn.close()
    return None


def run(ctx: core.Ctx):
    cat = catalogue(ctx.tier)
    states = STATES_QUICK + ([] if ctx.quick else STATES_MORE)
    ctx.rule = (
        "every session state (context full/db-only/none x open transaction with a pending row or not [x minimal catalog in "
        "thorough]) x every failing statement of the catalogue (statement kinds x ways of referring to something missing or "
        "duplicate x 3 qualification levels); thorough adds all ordered pairs (first statement from a 12-statement subset) as "
        "depth-2 failure sequences; + the multi-step failing statements on the session's long-lived cursor after a transaction "
        "ended through the connection's commit()/rollback(); each followed by the usability suffix (incl. a new instance in "
        "the same process); + every operation on a closed connection; "
        "non-trivial = distinct (state, statement)"
    )
    ctx.assumptions = ["ground truth before/after = raw DuckDB digest + session context + variables + open-transaction probe"]
    # in the minimal catalog DB2 and S2 do not exist, so "already exists" statements about them are not failing ones
    def applicable(st, s):
        # ... and the decoy statements are about a table missing in a schema / database that exists (S2, DB2.S1)
        return not (st[0] == "full_min" and (s[0] in ("exists_schema", "exists_database") or s[0].endswith("_decoy")))

    items = [(st, [s]) for st in states for s in cat if applicable(st, s)]
    if not ctx.quick:
        firsts = [s for s in cat if s[0] in ("select_from", "insert_target", "comment_on", "exists_table", "undefined_variable", "use_missing_db") and s[1] in (0, 2)]
        for st in (("full", True), ("full", False), ("dbonly", True)):
            for f in firsts:
                for s in cat:
                    if s is not f:
                        items.append((st, [f, s]))
    multi = ("merge_target", "merge_source", "merge_fails_in_second_clause", "exists_table_with_lengths", "comment_on", "comment_on_column", "alter_set_comment", "alter_rename", "clone_source", "select_from", "exists_table")
    items += [(st, [s]) for st in STATES_ENDED for s in cat if s[0] in multi and s[1] in ((0, 2) if ctx.quick else (0, 1, 2))]
    states = states + STATES_ENDED
    ctx.pmap(expand, items)
    ctx.pmap(closed_case, CLOSED_OPS, recheck=False, parallel=False)
    life = [(f, n) for f in LIFETIME_FAIL for n in LIFETIME_NEXT]
    ctx.pmap(lifetime_case, life, recheck=False)
    ctx.extra["sqlstate_lifetime"] = {"failing": [f[0] for f in LIFETIME_FAIL], "next_execute": [n[0] for n in LIFETIME_NEXT], "cases": len(life)}
    for st in states:
        ctx.acc.add("states", st)
    ctx.acc.counters["states"] = len(states)
    ctx.extra["statements_in_catalogue"] = len(cat)
    ctx.extra["bound"] = "depth 1 (quick) / depth 2 failure chains (thorough) + usability suffix"
    ctx.exhaustive = True


def replay(payload):
    r = payload["replay"]
    acc = core.Acc()
    if "lifetime" in r:
        f = next(x for x in LIFETIME_FAIL if x[0] == r["lifetime"][0])
        n = next(x for x in LIFETIME_NEXT if x[0] == r["lifetime"][1])
        lifetime_case((f, n), acc, "quick")
    elif "closed_op" in r:
        closed_case(r["closed_op"], acc, "quick")
    else:
        expand((tuple(r["state"]), [tuple(s) for s in r["stmts"]]), acc, "quick")
    for k, v in acc.viol.items():
        print(k, v["detail"])
    return bool(acc.viol)
