"""C13 — transactions are atomic, isolated between connections, and sticky to theirs.

E1: BFS over all statement-level interleavings of transactional histories on two connections (A with two cursors
writing TA / creating CA, B writing TB; non-conflicting writes). The reference model is a committed store plus one
pending working copy per connection. After every transition every cursor of both connections reads both tables and
the DDL target, and the result is compared with the model's view for that connection.

Not demanded: nested BEGIN, START TRANSACTION, status rows of BEGIN/COMMIT with an open transaction, and which
committed version of the *other* connection's table a reader inside its own transaction sees (read committed as in
Snowflake or snapshot-at-BEGIN as in DuckDB: any version committed since its BEGIN is accepted).
"""
from __future__ import annotations

import copy

from mc import core
from mc.util import exc_info

PID = "C13"
LEVEL = "model_checking"

SUCCESS = [("Statement executed successfully.",)]

# op ids: (connection, kind)
OPS_A = [
    "begin", "begin_tx", "ins", "upd", "del", "create", "commit", "rollback", "commit()", "rollback()", "fail",
    # statements the library carries out in several steps (in a transaction of its own when the user has none):
    "ins_many", "merge", "fail_merge", "fail_create_multi",
    # a load that does not go through cursor.execute at all
    "wp",
    # leaving a `with connection:` block, normally and by an exception: neither is one of the ways the property names for
    # ending a transaction (COMMIT / ROLLBACK as SQL or as connection methods), so nothing is published or undone
    "with_exit", "with_exit_exc",
]
OPS_B = ["begin", "ins", "ins_many", "commit", "rollback()", "fail", "fail_merge"]


def all_ops(tier):
    a = OPS_A if tier != "quick" else [  # (the `with` exits are in phase 3 of the quick tier)
       "begin", "ins", "upd", "del", "create", "commit", "rollback", "commit()", "rollback()", "fail", "ins_many", "merge", "fail_merge", "fail_create_multi", "wp"]
    return [("A", o) for o in a] + [("B", o) for o in OPS_B]


class Model:
    def __init__(self):
        self.committed = {"TA": [], "TB": [], "CA": None}  # CA: None = does not exist, [] = exists
        self.pending = {"A": None, "B": None}  # working copy of the whole store while a tx is open
        self.versions = {"A": None, "B": None}  # per reader in tx: acceptable versions of the other's tables
        self.n = 0

    def key(self):
        f = lambda st: None if st is None else tuple((k, None if v is None else tuple(v)) for k, v in sorted(st.items()))  # noqa: E731
        fv = lambda v: None if v is None else tuple(sorted((k, tuple(tuple(x) if x is not None else None for x in vs)) for k, vs in v.items()))  # noqa: E731
        return (f(self.committed), f(self.pending["A"]), f(self.pending["B"]), fv(self.versions["A"]), fv(self.versions["B"]))

    def own(self, c):
        return ("TA", "CA") if c == "A" else ("TB",)

    def enabled(self, c, kind):
        p = self.pending[c]
        st = p if p is not None else self.committed
        if kind in ("begin", "begin_tx"):
            return p is None
        if kind in ("upd", "del"):
            return bool(st["TA"])
        if kind == "create":
            return st["CA"] is None
        if kind in ("fail", "fail_merge", "fail_create_multi"):
            return True
        return True

    def _publish(self, c, tables, store):
        """the other connection, if inside a tx, may see this newly committed version or its snapshot"""
        o = "B" if c == "A" else "A"
        if self.versions[o] is not None:
            for t in tables:
                self.versions[o][t].append(copy.deepcopy(store[t]))

    def step(self, c, kind):
        """returns expected status ('success' | 'any' | 'fail')"""
        p = self.pending[c]
        if kind in ("begin", "begin_tx"):
            self.pending[c] = copy.deepcopy(self.committed)
            o = "B" if c == "A" else "A"
            self.versions[c] = {t: [copy.deepcopy(self.committed[t])] for t in self.own(o)}
            return "any"
        if kind in ("commit", "commit()"):
            if p is None:
                return "success"
            for t in self.own(c):
                self.committed[t] = p[t]
            self.pending[c] = None
            self.versions[c] = None
            self._publish(c, self.own(c), self.committed)
            return "any"
        if kind in ("rollback", "rollback()"):
            if p is None:
                return "success"
            self.pending[c] = None
            self.versions[c] = None
            return "any"
        if kind in ("fail", "fail_merge", "fail_create_multi"):
            return "fail"
        if kind in ("with_exit", "with_exit_exc"):
            return "any"
        st = p if p is not None else self.committed
        t = "TA" if c == "A" else "TB"
        if kind in ("ins", "merge", "wp"):
            self.n += 1
            st[t] = st[t] + [self.n]
        elif kind == "ins_many":
            st[t] = st[t] + [self.n + 1, self.n + 2]
            self.n += 2
        elif kind == "upd":
            st[t] = st[t][:-1] + [st[t][-1] + 100]
        elif kind == "del":
            st[t] = st[t][:-1]
        elif kind == "create":
            st["CA"] = []
        if p is None:
            self._publish(c, self.own(c), self.committed)
        return "any"

    def view(self, c):
        """-> {table: [acceptable row lists]} for connection c"""
        p = self.pending[c]
        out = {}
        for t in ("TA", "TB", "CA"):
            if t in self.own(c):
                out[t] = [(p if p is not None else self.committed)[t]]
            elif p is not None:
                out[t] = self.versions[c][t]
            else:
                out[t] = [self.committed[t]]
        return out


def op_sql(c, kind, m: Model):
    st = m.pending[c] if m.pending[c] is not None else m.committed
    t = "ta" if c == "A" else "tb"
    if kind == "begin":
        return "begin"
    if kind == "begin_tx":
        return "BEGIN TRANSACTION"
    if kind == "commit":
        return "commit"
    if kind == "rollback":
        return "rollback"
    if kind == "ins":
        return f"insert into {t} values ({m.n + 1})"
    if kind == "upd":
        return f"update ta set x = x + 100 where x = {st['TA'][-1]}"
    if kind == "del":
        return f"delete from ta where x = {st['TA'][-1]}"
    if kind == "create":
        return "create table ca (x int)"
    if kind == "fail":
        return "select * from table_that_does_not_exist"
    if kind == "ins_many":
        return f"EM:insert into {t} values (%s)|{m.n + 1},{m.n + 2}"
    if kind == "merge":
        # an unmatched source row is inserted: same effect as ins, carried out as a multi-step statement
        return f"merge into {t} using (select {m.n + 1} as x) s on {t}.x = s.x when not matched then insert (x) values (s.x)"
    if kind == "wp":
        return f"WP:{t.upper()}|{m.n + 1}"
    if kind == "fail_merge":
        return "merge into table_that_does_not_exist using (select 1 as x) s on table_that_does_not_exist.x = s.x when not matched then insert (x) values (s.x)"
    if kind == "fail_create_multi":
        return "create table schema_that_does_not_exist.tt (v varchar(10)) comment = 'c'"
    return None


def pick_cursor(conns, c, policy):
    """Which cursor object issues the next statement of connection c. 'fresh': a new cursor per statement; 'one': one
    cursor object per connection for the whole history; 'two': the statements of a connection alternate between two
    cursor objects. (COMMIT / ROLLBACK as connection methods never go through these cursors.)"""
    conn = conns[c]
    if policy == "fresh":
        return conn.cursor()
    pool = conns.setdefault("_cursors", {}).setdefault(c, {"n": 0, "curs": [conn.cursor() for _ in range(1 if policy == "one" else 2)]})
    cur = pool["curs"][pool["n"] % len(pool["curs"])]
    pool["n"] += 1
    return cur


def do(conns, c, kind, sql, policy="fresh"):
    if policy == "thread":
        # the statement is issued from a thread of its own (started and joined here: no concurrency); a transaction
        # belongs to the connection, whichever thread its statements come from
        import threading

        box = []
        t = threading.Thread(target=lambda: box.append(do(conns, c, kind, sql, "fresh")))
        t.start()
        t.join()
        return box[0]
    conn = conns[c]
    try:
        if kind == "with_exit":
            with conn:
                pass
            return ("ok", None)
        if kind == "with_exit_exc":
            try:
                with conn:
                    raise KeyError("raised inside the with block")
            except KeyError:
                pass
            return ("ok", None)
        if kind == "commit()":
            conn.commit()
            return ("ok", None)
        if kind == "rollback()":
            conn.rollback()
            return ("ok", None)
        if sql.startswith("WP:"):
            import pandas as pd
            from fakesnow.pandas_tools import write_pandas

            table, val = sql[3:].split("|")
            ok_, _chunks, nrows, _ = write_pandas(conn, pd.DataFrame({"X": [int(val)]}), table)
            return ("ok", [(ok_, nrows)])
        cur = pick_cursor(conns, c, policy)
        if sql.startswith("EM:"):
            stmt, vals = sql[3:].split("|")
            cur.executemany(stmt, [(int(v),) for v in vals.split(",")])
            return ("ok", None)
        cur.execute(sql)
        return ("ok", cur.fetchall())
    except Exception as e:  # noqa: BLE001
        return exc_info(e)


def read(cur, t):
    try:
        cur.execute(f"select x from {t} order by x")
        return sorted(r[0] for r in cur.fetchall())
    except Exception as e:  # noqa: BLE001
        return ("missing", exc_info(e)[1].split(".")[-1])


def observe_all(conns):
    out = {}
    for name, conn in (("A.cur1", conns["A"]), ("A.cur2", conns["A"]), ("B.cur1", conns["B"])):
        cur = conn.cursor()
        out[name] = {t: read(cur, t.lower()) for t in ("TA", "TB", "CA")}
    return out


def build(hist, policy="fresh"):
    import fakesnow.instance as inst

    fs = inst.FakeSnow()
    conns = {"A": fs.connect(database="db1", schema="s1"), "B": fs.connect(database="db1", schema="s1")}
    cur = conns["A"].cursor()
    cur.execute("create table ta (x int)")
    cur.execute("create table tb (x int)")
    m = Model()
    for c, kind in hist:
        sql = op_sql(c, kind, m)
        m.step(c, kind)
        do(conns, c, kind, sql, policy)
    return fs, conns, m


def txstate(m, c):
    return "in_tx" if m.pending[c] is not None else "no_tx"


def expand(item, acc: core.Acc, tier):
    policy = "fresh"
    if len(item) == 3:
        hist, (c, kind), policy = item
    else:
        hist, (c, kind) = item
    fs, conns, m = build(hist, policy)
    try:
        pre_tx = {x: txstate(m, x) for x in "AB"}
        sql = op_sql(c, kind, m)
        want = m.step(c, kind)
        got = do(conns, c, kind, sql, policy)
        obs = observe_all(conns)
    finally:
        fs.duck_conn.close()
    acc.count("evaluations")
    acc.count("transitions")
    acc.count("traces")
    acc.obs((hist, c, kind, got, sorted((k, sorted(v.items())) for k, v in obs.items())))
    acc.outcome((c, kind, got[0], pre_tx[c], repr(sorted(obs["B.cur1"].items()))[:60]))
    rp = {"history": hist, "op": [c, kind], "sql": sql, "cursors": policy}
    cls0 = f"conn={c},op={kind},self={pre_tx[c]},other={pre_tx['B' if c == 'A' else 'A']}"
    if policy == "thread":
        cls0 += ",issued_from=thread_of_its_own"
    elif policy != "fresh":
        # how the connection's previous transaction (if any) ended matters for state kept per cursor object
        ended, mm = "never", Model()
        for cc, k in hist:
            if cc == c and k in ("commit", "rollback", "commit()", "rollback()") and mm.pending[cc] is not None:
                ended = k
            mm.step(cc, k)
        cls0 += f",cursors={policy},last_tx_end={ended}"
    ok = True
    if want == "fail":
        if got[0] != "err":
            acc.violation("C13.fail_in_tx", cls0, {"got": got}, rp)
    elif got[0] != "ok":
        acc.violation("C13.statement_works", cls0 + f",exc={got[1].split('.')[-1]}", {"sql": sql, "got": got}, rp)
        ok = False
    elif want == "success" and kind in ("commit", "rollback") and got[1] != SUCCESS:
        acc.violation("C13.noop_status", cls0, {"sql": sql, "got": got}, rp)
    # every cursor's view = model view
    for cname, tables in sorted(obs.items()):
        cc = cname[0]
        view = m.view(cc)
        for t, rows in sorted(tables.items()):
            acceptable = [("missing",) if v is None else sorted(v) for v in view[t]]
            g = ("missing",) if isinstance(rows, tuple) else rows
            if g not in acceptable:
                who = "own" if t in m.own(cc) else "other"
                clause = "C13.own_writes_visible" if who == "own" else "C13.isolation"
                acc.violation(
                    clause,
                    f"after={c}.{kind},reader={cname},table={t},reader_tx={txstate(m, cc)}" + ("" if policy == "fresh" else f",cursors={policy}"),
                    {"expected_one_of": acceptable, "got": rows, "after": sql},
                    rp,
                )
                ok = False
    acc.nontrivial(m.key())
    acc.sample({"history": hist, "op": [c, kind], "sql": sql, "observed": got, "views": obs}, cap=3)
    if not ok:
        return None
    # A transition that does not change the model state (COMMIT/ROLLBACK without a transaction, a failing statement)
    # must not change the implementation either. State hidden from the model (e.g. a flag shared between
    # connections) would make such a step matter for what follows, so the step is kept as part of the state key:
    # the successor is explored again "after a no-op by <connection>".
    noop = kind in ("commit", "rollback", "commit()", "rollback()") and pre_tx[c] == "no_tx" or kind.startswith("fail") or kind.startswith("with_exit")
    if policy == "thread":
        return (m.key(), ("thread", (c, kind) if noop else None))
    if policy != "fresh":
        # Cursor objects live as long as the history, so what a cursor remembers is state the model does not have.
        # A history that returns to a known model state (BEGIN .. COMMIT) is therefore NOT merged with it: the key
        # keeps the last operation of either connection and how its last transaction ended (finite refinement of every
        # model state).
        full = list(hist) + [(c, kind)]
        last = {x: next((k for cc, k in reversed(full) if cc == x), None) for x in "AB"}
        ended = {"A": None, "B": None}  # how the connection's last *open* transaction was ended
        mm = Model()
        for cc, k in full:
            if k in ("commit", "rollback", "commit()", "rollback()") and mm.pending[cc] is not None:
                ended[cc] = k
            mm.step(cc, k)
        return (m.key(), ("cursors", policy, last["A"], last["B"], ended["A"], ended["B"]))
    return (m.key(), (c, kind) if noop else None)


def run(ctx: core.Ctx):
    depth = 5 if ctx.quick else 7
    ops = all_ops(ctx.tier)
    ctx.rule = (
        "BFS over all interleavings of transactional operations on two connections (A: BEGIN, INSERT/UPDATE/DELETE on TA, "
        "CREATE TABLE, COMMIT/ROLLBACK as SQL and as connection methods, failing statement; B: BEGIN, INSERT on TB, COMMIT, "
        "rollback(), failing statement); state = committed store + pending working copies + acceptable snapshot versions; "
        "after every transition all three cursors read all three tables; non-trivial = distinct reached model state. "
        "Phase 2 repeats the search with long-lived cursor objects (one per connection / two alternating) on a reduced "
        "alphabet, keeping the last operation of each connection in the state key so that histories returning to a "
        "known model state are still continued"
    )
    ctx.assumptions = ["writes of the two connections never conflict (different tables)", "DuckDB MVCC is the trusted base for visibility"]
    m0 = Model()
    seen = {(m0.key(), None)}
    frontier = [[]]
    d = 0
    cap = 16000 if ctx.quick else 90000
    capped = False
    while frontier and d < depth:
        items = []
        for hist in frontier:
            m = Model()
            for c, kind in hist:
                m.step(c, kind)
            for c, kind in ops:
                if m.enabled(c, kind):
                    items.append((hist, (c, kind)))
        res = ctx.pmap(expand, items, recheck=(d == 2))
        cands = sorted(((k, hist + [op]) for (hist, op), k in res if k is not None), key=lambda x: (repr(x[0]), repr(x[1])))
        frontier = []
        for k, hist in cands:
            if k not in seen:
                seen.add(k)
                frontier.append(hist)
        d += 1
        if len(frontier) * len(ops) > cap and d < depth:
            capped = True
            break
    main_left = len(frontier)
    # ---- phase 2: long-lived cursor objects (reduced alphabet, refined state key, see expand) ------------------------
    ops2 = [("A", o) for o in ("begin", "ins", "commit", "rollback", "commit()", "rollback()", "fail")] + [("B", o) for o in ("begin", "ins")]
    depth2 = 4 if ctx.quick else 5
    phase2 = {}
    for policy in ("one", "two"):
        seen2 = {(m0.key(), ("cursors", policy, None, None, None, None))}
        frontier = [[]]
        d2 = 0
        n2 = 0
        while frontier and d2 < depth2:
            items = []
            for hist in frontier:
                m = Model()
                for c, kind in hist:
                    m.step(c, kind)
                for c, kind in ops2:
                    if m.enabled(c, kind):
                        items.append((hist, (c, kind), policy))
            n2 += len(items)
            res = ctx.pmap(expand, items, recheck=(d2 == 2))
            cands = sorted(((k, it[0] + [it[1]]) for it, k in res if k is not None), key=lambda x: (repr(x[0]), repr(x[1])))
            frontier = []
            for k, hist in cands:
                if k not in seen2:
                    seen2.add(k)
                    frontier.append(hist)
            d2 += 1
        for k in seen2:
            ctx.acc.add("states", k)
        phase2[policy] = {"depth_completed": d2, "transitions": n2, "states": len(seen2), "frontier_left_unexpanded": len(frontier)}
    ctx.extra["long_lived_cursors"] = phase2
    # ---- phase 3: who issues the statement and how a block is left (reduced alphabet with `with connection:` exits), once
    # with every statement issued from the main thread and once with every statement issued from a thread of its own ----
    ops3 = [("A", o) for o in ("begin", "ins", "merge", "commit", "rollback", "commit()", "rollback()", "fail", "with_exit", "with_exit_exc")] + [("B", o) for o in ("begin", "ins")]
    depth3 = 4 if ctx.quick else 5
    phase3 = {}
    for policy in ("fresh", "thread"):
        seen3 = {(m0.key(), None), (m0.key(), ("thread", None))}
        frontier = [[]]
        d3 = n3 = 0
        while frontier and d3 < depth3:
            items = []
            for hist in frontier:
                m = Model()
                for c, kind in hist:
                    m.step(c, kind)
                for c, kind in ops3:
                    if m.enabled(c, kind):
                        items.append((hist, (c, kind), policy))
            n3 += len(items)
            res = ctx.pmap(expand, items, recheck=False)
            cands = sorted(((k, it[0] + [it[1]]) for it, k in res if k is not None), key=lambda x: (repr(x[0]), repr(x[1])))
            frontier = []
            for k, hist in cands:
                if k not in seen3:
                    seen3.add(k)
                    frontier.append(hist)
            d3 += 1
        for k in seen3:
            ctx.acc.add("states", ("phase3", policy, k))
        phase3[policy] = {"depth_completed": d3, "transitions": n3, "states": len(seen3), "frontier_left_unexpanded": len(frontier)}
    ctx.extra["issuing_thread_and_with_blocks"] = phase3
    for k in seen:
        ctx.acc.add("states", k)
    ctx.extra["bound"] = f"depth {d} completed" + (f" (stopped before depth {d + 1}: transition cap {cap})" if capped else "")
    ctx.extra["cap_hit"] = capped
    ctx.extra["frontier_left_unexpanded"] = main_left
    ctx.exhaustive = False


def replay(payload):
    r = payload["replay"]
    acc = core.Acc()
    expand(([tuple(x) for x in r["history"]], tuple(r["op"]), r.get("cursors", "fresh")), acc, "thorough")
    for k, v in acc.viol.items():
        print(k, v["detail"])
    return bool(acc.viol)
