"""C19 — concurrent sessions behave as if their statements ran one at a time.

E3 (mc/sched.py): k real threads run unmodified scripts of fakesnow API calls; scheduling point = every DuckDB engine
call; all schedules with at most B preemptions are enumerated (B = 0, 1, 2, ...). Oracle: the tuple (per-thread results
incl. exceptions, final raw-DuckDB digest) must be one that some *serial* execution of the same scripts, interleaved
at whole-API-call granularity on the real implementation, produces (differential, no hand-written expectation); no
deadlock.

Harnesses (each forces a collision):
  H1a/b/c  2 threads connect() with equal / overlapping / disjoint (database, schema), auto-create on
  H1e      2 threads connect() to the same database/schema spelled in different letter case
  H1d      3 threads connect() with equal arguments                                   (thorough)
  H7       COMMENT ON TABLE and ALTER TABLE SET COMMENT on the same table against a reader of the comment
  H8       executemany (two UPDATEs of one row, two MERGE upserts) against another session's UPDATE / MERGE of the same row / key
  H2       two writers insert tagged rows into one table, one reader counts
  H3a      CREATE TABLE .. COMMENT + VARCHAR length (multi-step) against a metadata reader
  H3b      MERGE (multi-step) against a reader of the target
  H3c      DROP + re-CREATE with another comment against a metadata reader          (thorough)
  H4       connect bootstrap of a new database against a running statement of another session
  H6       two sessions execute different queries, then read description/rows/rowcount (nobody receives another's result)

Not reached: races inside DuckDB below engine-call granularity; unsynchronised Python-level sharing is audited
separately (shared_state_audit) because the scheduler's hand-offs are happens-before edges.
"""
from __future__ import annotations

import itertools

from mc import core, observe, sched

PID = "C19"
LEVEL = "model_checking"


# ---- harness definitions -------------------------------------------------------------------------------------------------
_FREE_RUNNING = {"on": False}


def _mk(setup=(), conns=(), options=None, pre_sql=(), routes=None):
    """options: non-default FakeSnow options; pre_sql: statements run first on a connection without context;
    routes: {connection name: how the session got its context} - "args" (default: connect(database=, schema=)), "use"
    (connect() without arguments, then USE DATABASE / USE SCHEMA), "other_db" (connect to another database, then USE
    SCHEMA db1.s1): sessions are equal citizens of DB1.S1 however they got there"""

    def make_env():
        import fakesnow.instance as inst

        sched.install_threading_shim(on=not _FREE_RUNNING["on"])
        fs = inst.FakeSnow(**(options or {}))
        if not _FREE_RUNNING["on"]:
            sched.coop_locks(fs)
        env = {"fs": fs, "conns": {}}
        if pre_sql:
            c0 = fs.connect().cursor()
            for s in pre_sql:
                c0.execute(s)
        if setup:
            c = fs.connect(database="db1", schema="s1")
            cur = c.cursor()
            for s in setup:
                cur.execute(s)
        for name in conns:
            route = (routes or {}).get(name, "args")
            if route == "args":
                env["conns"][name] = fs.connect(database="db1", schema="s1")
            elif route == "use":
                env["conns"][name] = fs.connect()
                cur = env["conns"][name].cursor()
                cur.execute("use database db1")
                cur.execute("use schema s1")
            else:
                env["conns"][name] = fs.connect(database="db7", schema="s7")
                env["conns"][name].cursor().execute("use schema db1.s1")
        return env

    return make_env


def s_connect(db, schema, key):
    def step(env, loc):
        c = env["fs"].connect(database=db, schema=schema)
        loc[key] = c
        return (c.database, c.schema)

    return step


def s_exec(key, sql, fetch=True, pre=None):
    def step(env, loc):
        c = loc.get(key) or env["conns"][key]
        cur = c.cursor()
        cur.execute(sql)
        return (cur.fetchall() if fetch else None, cur.rowcount)

    return step


def s_exec_catch(key, sql):
    """a statement that is expected to fail: the step's result is the kind of error, the thread carries on"""

    def step(env, loc):
        c = loc.get(key) or env["conns"][key]
        cur = c.cursor()
        try:
            cur.execute(sql)
            return ("ok", cur.fetchall())
        except Exception as e:  # noqa: BLE001
            return ("failed", type(e).__name__)

    return step


def s_executemany(key, sql, seq):
    def step(env, loc):
        c = loc.get(key) or env["conns"][key]
        cur = c.cursor()
        cur.executemany(sql, seq)
        return cur.rowcount

    return step


def s_ctx(key):
    def step(env, loc):
        c = loc.get(key) or env["conns"][key]
        cur = c.cursor()
        cur.execute("select current_database(), current_schema()")
        return cur.fetchall()

    return step


def s_meta_table(key, table):
    def step(env, loc):
        c = loc.get(key) or env["conns"][key]
        cur = c.cursor()
        cur.execute(f"select table_name, comment from information_schema.tables where table_name = '{table}' and table_schema = 'S1'")
        return ("tables", cur.fetchall())

    return step


def s_meta_columns(key, table):
    def step(env, loc):
        c = loc.get(key) or env["conns"][key]
        cur = c.cursor()
        cur.execute(f"select column_name, character_maximum_length from information_schema.columns where table_name = '{table}' and table_schema = 'S1' order by ordinal_position")
        return ("columns", cur.fetchall())

    return step


MERGE_SETUP = [
    "create table tgt (k int, v varchar)",
    "insert into tgt values (1, 'old1'), (2, 'old2')",
    "create table src (k int, v varchar)",
    "insert into src values (2, 'new2'), (3, 'new3')",
]
MERGE_SQL = (
    "merge into tgt using src on tgt.k = src.k when matched then update set tgt.v = src.v "
    "when not matched then insert (k, v) values (src.k, src.v)"
)

def s_query_desc(key, sql):
    """execute, then read description and rows: a session must receive its own result, whatever others do meanwhile"""

    def step(env, loc):
        c = loc.get(key) or env["conns"][key]
        cur = c.cursor()
        cur.execute(sql)
        loc["cur"] = cur
        return "executed"

    return step


def s_read(key):
    def step(env, loc):
        cur = loc["cur"]
        return ([d.name for d in cur.description], cur.fetchall(), cur.rowcount)

    return step


HARNESSES = {
    "H1a": (_mk(), [[s_connect("db1", "s1", "c"), s_ctx("c")], [s_connect("db1", "s1", "c"), s_ctx("c")]]),
    "H1b": (_mk(), [[s_connect("db1", "s1", "c"), s_ctx("c")], [s_connect("db1", "s2", "c"), s_ctx("c")]]),
    "H1c": (_mk(), [[s_connect("db1", "s1", "c"), s_ctx("c")], [s_connect("db2", "s2", "c"), s_ctx("c")]]),
    "H1e": (_mk(), [[s_connect("db1", "s1", "c"), s_ctx("c")], [s_connect("DB1", "S1", "c"), s_ctx("c")]]),
    "H1d": (_mk(), [[s_connect("db1", "s1", "c")], [s_connect("db1", "s1", "c")], [s_connect("db1", "s1", "c")]]),
    # the same races from a NON-initial state: the database has been connected to before (anything the instance
    # remembers about "already set up" is in play), the schema is new / both schemas are new
    "H1f": (_mk(conns=("w",)), [[s_connect("db1", "s9", "c"), s_ctx("c")], [s_connect("db1", "s9", "c"), s_ctx("c")]]),
    "H1g": (_mk(conns=("w",)), [[s_connect("db1", "s8", "c"), s_ctx("c")], [s_connect("db1", "s9", "c"), s_ctx("c")]]),
    # non-default options: the database is never created by connect (it exists), the schema is
    "H1i": (_mk(conns=("w",), options={"create_database_on_connect": False}, pre_sql=["create database db1"]), [[s_connect("db1", "s9", "c"), s_ctx("c")], [s_connect("db1", "s9", "c"), s_ctx("c")]]),
    "H1h": (_mk(conns=("w",)), [[s_connect("db1", "s1", "c"), s_ctx("c")], [s_connect("db2", "s1", "c"), s_ctx("c")]]),
    "H2": (
        _mk(setup=["create table t (x int)"], conns=("w1", "w2", "r")),
        [[s_exec("w1", "insert into t values (1)")], [s_exec("w2", "insert into t values (2)")], [s_exec("r", "select x from t order by x")]],
    ),
    "H3a": (
        _mk(setup=["create table other (z int)"], conns=("w", "r")),
        [[s_exec("w", "create table t2 (a varchar(10), b int) comment = 'c1'")], [s_meta_columns("r", "T2"), s_meta_table("r", "T2")]],
    ),
    "H3b": (
        _mk(setup=MERGE_SETUP, conns=("w", "r")),
        [[s_exec("w", MERGE_SQL)], [s_exec("r", "select k, v from tgt order by k")]],
    ),
    "H3c": (
        _mk(setup=["create table t3 (a varchar(5)) comment = 'old'"], conns=("w", "r")),
        [[s_exec("w", "drop table t3"), s_exec("w", "create table t3 (a varchar(7)) comment = 'new'")], [s_meta_columns("r", "T3"), s_meta_table("r", "T3")]],
    ),
    "H6": (
        _mk(setup=["create table t (x int)", "insert into t values (1), (2)"], conns=("a", "b")),
        [
            [s_query_desc("a", "select x as from_a from t order by x"), s_read("a")],
            [s_query_desc("b", "select 'b' as from_b, 5 as n"), s_read("b"), s_exec("b", "create table tb (y varchar(3)) comment = 'cb'", fetch=True)],
        ],
    ),
    "H7": (
        _mk(setup=["create table t7 (a varchar(4)) comment = 'old'"], conns=("a", "b", "r")),
        [
            [s_exec("a", "comment on table t7 is 'from A'")],
            [s_exec("b", "alter table t7 set comment = 'from B'")],
            [s_meta_table("r", "T7")],
        ],
    ),
    # the same two comment setters, the sessions having reached DB1.S1 by different routes (connect arguments / USE after
    # a connect without arguments / USE SCHEMA db1.s1 from another database)
    "H7r": (
        _mk(setup=["create table t7 (a varchar(4)) comment = 'old'"], conns=("a", "b", "r"), routes={"a": "use", "r": "other_db"}),
        [
            [s_exec("a", "comment on table t7 is 'from A'")],
            [s_exec("b", "alter table t7 set comment = 'from B'")],
            [s_meta_table("r", "T7")],
        ],
    ),
    "H7s": (
        _mk(setup=["create table t7 (a varchar(4)) comment = 'old'"], conns=("a", "b"), routes={"a": "other_db", "b": "use"}),
        [
            # (between the two renames there is no T7: the comment then legitimately fails - a result, not a fault)
            [s_exec_catch("a", "comment on table t7 is 'from A'"), s_meta_table("a", "T7")],
            [s_exec("b", "alter table t7 rename to t8"), s_exec("b", "alter table t8 rename to t7")],
        ],
    ),
    "H8": (
        _mk(setup=["create table acc (id int, n int)", "insert into acc values (1, 0)", "create table kv (k int, v varchar)"], conns=("a", "b")),
        [
            [s_executemany("a", "update acc set n = n + %s where id = 1", [(1,), (10,)]), s_executemany("a", "merge into kv using (select %s as k, %s as v) s on kv.k = s.k when matched then update set kv.v = s.v when not matched then insert (k, v) values (s.k, s.v)", [(1, "a1"), (2, "a2")])],
            [s_exec("b", "update acc set n = n + 100 where id = 1"), s_exec("b", "merge into kv using (select 2 as k, 'b' as v) s on kv.k = s.k when matched then update set kv.v = s.v when not matched then insert (k, v) values (s.k, s.v)")],
        ],
    ),
    # a multi-step statement that FAILS in a later step with an error of the engine (NOT NULL violated by the INSERT
    # after the UPDATE step succeeded), next to another session writing the row its first step touched
    "H9": (
        _mk(setup=["create table tn (k int, v varchar not null)", "insert into tn values (1, 'old')", "create table sn (k int, v varchar)", "insert into sn values (1, 'new'), (2, NULL)"], conns=("a", "b")),
        [
            [s_exec_catch("a", "merge into tn using sn on tn.k = sn.k when matched then update set tn.v = sn.v when not matched then insert (k, v) values (sn.k, sn.v)"), s_exec("a", "select k, v from tn order by k")],
            [s_exec("b", "update tn set v = 'b' where k = 1"), s_exec("b", "select k, v from tn order by k")],
        ],
    ),
    "H4": (
        _mk(setup=["create table t (x int)"], conns=("w",)),
        [[s_connect("db9", "s9", "c"), s_ctx("c")], [s_exec("w", "insert into t values (7)"), s_exec("w", "select x from t order by x")]],
    ),
}
QUICK = ["H1a", "H1b", "H1c", "H1e", "H1f", "H1i", "H9", "H2", "H3a", "H3b", "H4", "H6", "H7", "H7r", "H7s", "H8"]
BOUNDS = {"quick": {h: 1 for h in HARNESSES}, "thorough": {h: 2 for h in HARNESSES}}
BOUNDS["thorough"].update({"H1a": 3, "H2": 3})


# ---- per-harness invariants on tagged values: every thread's results are its own ---------------------------------------------
def _inv_h1(args):
    def inv(results):
        for t, (db, sc) in enumerate(args):
            r = results[t]
            if r[0] != "ok":
                continue
            want = (db.upper(), sc.upper())
            if r[1][0] != want:
                return f"thread{t}:connect_reports_other_names"
            if len(r[1]) > 1 and r[1][1] != [want]:
                return f"thread{t}:session_context_is_not_its_own"
        return None

    return inv


def _inv_h6(results):
    a, b = results[0], results[1]
    if a[0] == "ok" and len(a[1]) > 1 and a[1][1] != (["FROM_A"], [(1,), (2,)], 2):
        return "thread0:received_other_result"
    if b[0] == "ok" and len(b[1]) > 1 and b[1][1] != (["FROM_B", "N"], [("b", 5)], 1):
        return "thread1:received_other_result"
    return None


def _inv_h2(results):
    for t, tag in ((0, 1), (1, 2)):
        if results[t][0] == "ok" and results[t][1][0] != ([(1,)], 1):
            return f"thread{t}:insert_status_not_its_own"
    r = results[2]
    if r[0] == "ok" and not set(x[0] for x in r[1][0][0]) <= {1, 2}:
        return "reader:foreign_rows"
    return None


INVARIANTS = {
    "H1a": _inv_h1([("db1", "s1"), ("db1", "s1")]),
    "H1b": _inv_h1([("db1", "s1"), ("db1", "s2")]),
    "H1c": _inv_h1([("db1", "s1"), ("db2", "s2")]),
    "H1e": _inv_h1([("db1", "s1"), ("DB1", "S1")]),
    "H1f": _inv_h1([("db1", "s9"), ("db1", "s9")]),
    "H1i": _inv_h1([("db1", "s9"), ("db1", "s9")]),
    "H1g": _inv_h1([("db1", "s8"), ("db1", "s9")]),
    "H1h": _inv_h1([("db1", "s1"), ("db2", "s1")]),
    "H4": _inv_h1([("db9", "s9")]),
    "H6": _inv_h6,
    "H2": _inv_h2,
}


def body_of(steps):
    def body(env):
        loc = {}
        return [st(env, loc) for st in steps]

    return body


def final_digest(env):
    d = observe.digest(env["fs"], views=False, data=True)
    try:
        env["fs"].duck_conn.close()
    except Exception:  # noqa: BLE001
        pass
    return core.h(d), d


def norm_results(results, n):
    out = []
    for t in range(n):
        r = results.get(t, ("missing",))
        out.append(r)
    return tuple(out)


# ---- serial oracle ------------------------------------------------------------------------------------------------------
_SERIAL = {}


def interleavings(lengths):
    """all orders of step indices: sequences over thread ids with lengths[t] occurrences of t"""
    pool = [t for t, n in enumerate(lengths) for _ in range(n)]
    return sorted(set(itertools.permutations(pool)))


def serial_outcomes(hname):
    if hname in _SERIAL:
        return _SERIAL[hname]
    make_env, scripts = HARNESSES[hname]
    outs = {}
    for order in interleavings([len(s) for s in scripts]):
        env = make_env()
        locs = [dict() for _ in scripts]
        res = [["ok", []] for _ in scripts]
        pos = [0] * len(scripts)
        for t in order:
            if res[t][0] != "ok":
                continue
            st = scripts[t][pos[t]]
            pos[t] += 1
            try:
                res[t][1].append(st(env, locs[t]))
            except Exception as e:  # noqa: BLE001
                res[t] = ["exc", type(e).__module__.split(".")[0] + "." + type(e).__name__, str(e).split("\n")[0][:100]]
        dh, _ = final_digest(env)
        key = (tuple(tuple(r) if r[0] != "ok" else ("ok", r[1]) for r in res), dh)
        outs[repr(key)] = order
        _SERIAL_RAW.setdefault(hname, []).append((order, [list(r) for r in res]))
    _SERIAL[hname] = outs
    return outs


_SERIAL_RAW = {}


def serial_baseline(hname, acc: core.Acc, tier):
    """The serial orders are the reference of the differential oracle, so they are judged on their own first: every
    script is written so that each of its steps succeeds when the sessions take turns (statements that are meant to fail
    are caught inside their step and return the kind of error). A step raising in a SERIAL order is a fault that needs
    no race - and one the differential oracle alone would accept as 'also happens serially'."""
    serial_outcomes(hname)
    acc.count("evaluations")
    for order, res in _SERIAL_RAW.get(hname, []):
        for t, r in enumerate(res):
            if r[0] != "ok":
                acc.violation("C19.serial_baseline", f"{hname}:thread{t}:{r[1].split('.')[-1]}", {"order": list(order), "results": res}, {"harness": hname, "serial_order": list(order)})
    if hname == "H9":
        for order, res in _SERIAL_RAW.get(hname, []):
            if res[0][0] == "ok" and res[0][1] and res[0][1][0] != ("failed", "ConstraintException"):
                acc.violation("C19.serial_baseline", "H9:failing_merge_outcome", {"order": list(order), "results": res}, {"harness": hname, "serial_order": list(order)})
    return None


# ---- explanation of deviations (class keys) -------------------------------------------------------------------------------
def _h9_overlap(hname, labels):
    if hname != "H9" or not labels:
        return ""
    a_calls = [i for i, l in enumerate(labels) if l.startswith("0:") and "SELECT K, V FROM TN" not in l and not l.startswith("0:start")]
    b_upd = next((i for i, l in enumerate(labels) if l.startswith("1:UPDATE TN")), None)
    if not a_calls or b_upd is None:
        return ""
    return ",update_ran=" + ("during_the_failing_merge" if a_calls[0] < b_upd < a_calls[-1] else ("after_it_returned" if b_upd > a_calls[-1] else "before_it_started"))


def explain(hname, results, serial_keys, labels=None):
    """name the deviation from what is observed (never from fakesnow internals)"""
    parts = []
    for t, r in enumerate(results):
        if r[0] == "exc":
            parts.append(f"thread{t}:exception:{r[1].split('.')[-1]}")
        elif r[0] == "deadlock":
            parts.append(f"thread{t}:deadlock")
    if parts:
        return ",".join(parts) + _h9_overlap(hname, labels)
    if hname in ("H3a", "H3c"):
        # each reader step is one statement (atomic), so a deviation is a half-done statement of the writer
        steps = dict(results[1][1])
        tabs, cols = steps.get("tables", []), steps.get("columns", [])
        final_comment = {"H3a": "c1", "H3c": "new"}[hname]
        final_len = {"H3a": 10, "H3c": 7}[hname]
        prev = {"H3a": (None, None), "H3c": ("old", 5)}[hname]
        bits = []
        if tabs and tabs[0][1] not in (final_comment, prev[0]):
            bits.append("comment_other")
        elif tabs and cols and tabs[0][1] == prev[0] and cols[0][1] == final_len:
            bits.append("lengths_recorded_before_comment")
        elif tabs and tabs[0][1] != final_comment and hname == "H3a":
            bits.append("table_visible_before_comment")
        if cols and cols[0][1] not in (final_len, prev[1]):
            bits.append("length_other" if cols[0][1] is not None else "table_visible_before_lengths")
        elif cols and cols[0][1] is None:
            bits.append("table_visible_before_lengths")
        if bits:
            return "reader:half_done_create:" + "+".join(sorted(set(bits)))
    if hname in ("H7", "H7r"):
        got = results[2][1][-1][1]
        comment = got[0][1] if got else "<table not listed>"
        if comment not in ("old", "from A", "from B"):
            return f"reader:comment_neither_old_nor_new:{'null' if comment is None else 'other'}"
    overlap = ""
    if hname == "H9" and labels:
        # did the other session's UPDATE run while the failing MERGE was being carried out (between its first and its
        # last engine call), or only after the MERGE had returned its error? (read off the schedule, not off fakesnow)
        a_calls = [i for i, l in enumerate(labels) if l.startswith("0:") and "SELECT K, V FROM TN" not in l and not l.startswith("0:start")]
        b_upd = next((i for i, l in enumerate(labels) if l.startswith("1:UPDATE TN")), None)
        if a_calls and b_upd is not None:
            overlap = ",update_ran=" + ("during_the_failing_merge" if a_calls[0] < b_upd < a_calls[-1] else ("after_it_returned" if b_upd > a_calls[-1] else "before_it_started"))
    if hname == "H9" and not any(r[0] in ("exc", "deadlock") for r in results):
        # the MERGE is expected to fail (NOT NULL); what differs from every serial order is HOW it fails
        a = results[0][1][0] if results[0][0] == "ok" else None
        if a and a[0] == "failed" and a[1] != "ConstraintException":
            return f"failing_merge_fails_differently:{a[1]}" + overlap
    if hname == "H3b":
        rows = results[1][1][-1][0]
        before = [(1, "old1"), (2, "old2")]
        after = [(1, "old1"), (2, "new2"), (3, "new3")]
        if rows not in (before, after):
            upd = (2, "new2") in rows
            ins = (3, "new3") in rows
            return f"reader:half_done_merge:updated={'y' if upd else 'n'},inserted={'y' if ins else 'n'}"
    return "unexplained:" + core.h(repr(results))


# ---- one schedule -----------------------------------------------------------------------------------------------------------
def run_one(item, acc: core.Acc, tier):
    hname, prefix, bound = item
    make_env, scripts = HARNESSES[hname]
    serial = serial_outcomes(hname)
    x = sched.run_schedule(prefix, make_env, [body_of(s) for s in scripts])
    dh, _ = final_digest(x["env"])
    results = norm_results(x["results"], len(scripts))
    key = repr((tuple(tuple(r) if r[0] != "ok" else ("ok", r[1]) for r in results), dh))
    acc.count("evaluations")
    acc.count("transitions", len(x["choices"]))
    acc.count("traces")
    acc.add("states", (hname, key))
    acc.outcome((hname, key))
    acc.obs((hname, prefix, x["choices"], key))
    npre = sched.preemptions(x["choices"], x["points"])
    if npre:
        acc.nontrivial((hname, tuple(x["choices"])))
    acc.counters["max_schedule_points"] = max(acc.counters.get("max_schedule_points", 0), len(x["choices"]))
    rp = {"harness": hname, "schedule": x["choices"], "labels": [p[2][c] for p, c in zip(x["points"], x["choices"])]}
    if x["deadlock"]:
        acc.violation("C19.no_deadlock", f"{hname}", {"results": results}, rp)
    elif key not in serial:
        cls = f"{hname}:{explain(hname, results, serial, rp['labels'])}"
        acc.violation("C19.serializable", cls, {"results": results, "preemptions": npre, "serial_outcomes": len(serial)}, rp)
    inv = INVARIANTS.get(hname)
    if inv is not None:
        bad = inv(results)
        if bad:
            acc.violation("C19.own_results", f"{hname}:{bad}", {"results": results, "preemptions": npre}, rp)
    if npre and len(acc.samples) < 2:
        acc.sample({"harness": hname, "schedule": x["choices"], "switches": [p[2][c] for p, c in zip(x["points"], x["choices"]) if c != 0], "results": results})
    return sched.children(len(prefix), x["choices"], x["points"], bound)


def free_running(hname, rounds):
    """Supplementary, NOT deciding: the same bodies on free-running real threads."""
    import threading

    make_env, scripts = HARNESSES[hname]
    serial = serial_outcomes(hname)
    seen = {}
    _FREE_RUNNING["on"] = True  # real locks, no scheduler
    for _ in range(rounds):
        env = make_env()
        res = {}

        def w(t, steps):
            loc = {}
            try:
                res[t] = ("ok", [st(env, loc) for st in steps])
            except Exception as e:  # noqa: BLE001
                res[t] = ("exc", type(e).__module__.split(".")[0] + "." + type(e).__name__, str(e).split("\n")[0][:100])

        ths = [threading.Thread(target=w, args=(t, s)) for t, s in enumerate(scripts)]
        for t in ths:
            t.start()
        for t in ths:
            t.join(20)
        dh, _ = final_digest(env)
        results = norm_results(res, len(scripts))
        key = repr((results, dh))
        k = "serial" if key in serial else explain(hname, results, serial)
        seen[k] = seen.get(k, 0) + 1
    _FREE_RUNNING["on"] = False
    return seen


def shared_state_audit():
    """Static listing of module-level mutable objects of fakesnow/* (scheduler blind spot: Python-level sharing)."""
    import importlib
    import pkgutil
    import types

    import fakesnow

    found = []
    for mi in pkgutil.iter_modules(fakesnow.__path__):
        if mi.name in ("__main__",):
            continue
        try:
            m = importlib.import_module(f"fakesnow.{mi.name}")
        except Exception:  # noqa: BLE001
            continue
        for k, v in vars(m).items():
            if k.startswith("__"):
                continue
            import sqlglot.expressions as E

            if isinstance(v, (dict, list, set, bytearray, E.Expression)) or type(v).__module__.startswith("fakesnow") or type(v).__name__ == "Starlette":
                found.append(f"fakesnow.{mi.name}.{k}:{type(v).__name__}")
    return sorted(found)


ALLOWED_SHARED = {
    "fakesnow.transforms.SUCCESS_NOP:Select",  # shared parse tree, must only ever be copied
    "fakesnow.server.sessions:dict",
    "fakesnow.server.shared_fs:FakeSnow",
    "fakesnow.server.app:Starlette",
    "fakesnow.server.routes:list",
    "fakesnow.types.duckdb_to_sf_type:dict",
}


def run(ctx: core.Ctx):
    names = QUICK if ctx.quick else list(HARNESSES)
    bounds = BOUNDS[ctx.tier]
    ctx.rule = (
        "per harness: all schedules of the real threads with at most B preemptions at engine-call granularity (iterative "
        "context bounding, B per harness in coverage.bounds); oracle = membership of (thread results, final digest) in the "
        "set of outcomes of all serial interleavings at API-call granularity computed on the real code; non-trivial = "
        "schedule with at least one preemption; states = distinct (harness, outcome)"
    )
    ctx.assumptions = [
        "fetch* after execute is a thread-local step (DuckDB materialises results at execute; probe p20)",
        "DuckDB engine calls are atomic at this granularity; races inside DuckDB are not reached",
    ]
    total = {}
    ctx.pmap(serial_baseline, list(names), recheck=False)
    frontier = [(h, [], bounds[h]) for h in names]
    rounds = 0
    while frontier:
        res = ctx.pmap(run_one, frontier, recheck=(rounds == 1))
        nxt = []
        for (h, _p, b), kids in res:
            total[h] = total.get(h, 0) + 1
            for k in kids:
                nxt.append((h, k, b))
        nxt.sort(key=repr)
        frontier = nxt
        rounds += 1
    ctx.extra["bounds"] = {h: bounds[h] for h in names}
    ctx.extra["schedules_per_harness"] = total
    ctx.extra["serial_outcomes_per_harness"] = {h: len(serial_outcomes(h)) for h in names}
    audit = shared_state_audit()
    unexpected = [a for a in audit if a not in ALLOWED_SHARED]
    ctx.extra["shared_state_audit"] = {"module_level_mutable": audit, "not_on_allow_list": unexpected}
    if unexpected:
        # a harness warning, never a verdict: such an object is a place where sessions could share state unseen
        ctx.acc.note("scheduler blind spot: module-level mutable object(s) not on the allow-list: " + ", ".join(unexpected))
    if not ctx.quick:
        fr = {}
        for h in ("H1a", "H2", "H3a"):
            fr[h] = free_running(h, 40)
        ctx.extra["free_running_supplementary_not_deciding"] = fr
    ctx.exhaustive = True
    ctx.extra["bound"] = "all schedules within the preemption bound per harness (complete below the bound)"


def replay(payload):
    r = payload["replay"]
    if "audit" in r:
        print(shared_state_audit())
        return True
    make_env, scripts = HARNESSES[r["harness"]]
    x = sched.run_schedule(r["schedule"], make_env, [body_of(s) for s in scripts])
    dh, _ = final_digest(x["env"])
    results = norm_results(x["results"], len(scripts))
    key = repr((tuple(tuple(q) if q[0] != "ok" else ("ok", q[1]) for q in results), dh))
    serial = serial_outcomes(r["harness"])
    print("schedule:", x["choices"])
    for p, c in zip(x["points"], x["choices"]):
        print("  ", "*" if c else " ", p[2][c])
    print("results:", results)
    print("in serial outcomes:", key in serial, f"({len(serial)} serial outcomes)")
    return key not in serial
