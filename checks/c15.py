"""C15 — session variables substitute exactly, per connection.

E1: BFS over histories of state-changing operations (SET / UNSET / SET from another variable / execute_string with
SET) on two connections; the state is the pair of variable maps (finite: thorough runs to fixpoint). After every
transition the complete observation battery is run on the same instance: every name in both letter cases through
two cursors of connection 0 and one of connection 1, references inside WHERE and IDENTIFIER(), an expression
variable inside a product, an undefined reference, and texts containing `$` that are not references.

Not demanded: UNSET of an undefined variable, multi-assignment SET, positional `$1` column references.
"""
from __future__ import annotations

from mc import core
from mc.util import exc_info

PID = "C15"
LEVEL = "model_checking"

BS = "back\\slash"  # python value with ONE backslash; SQL literal 'back\\slash'

# (op id) -> (connection, sql, effect on model: (name, value) or (name, None) for unset or ("copy", dst, src))
OPS = {
    "A=7": (0, "set A = 7", ("A", 7)),
    "A='x'": (0, "set A = 'x'", ("A", "x")),
    "A=bs": (0, "set A = 'back\\\\slash'", ("A", BS)),
    # an escaped backslash followed by a letter that is itself an escape (the value is backslash + n, not a newline),
    # and a real escape (the value contains a line break)
    "A=bsn": (0, "set A = 'x\\\\ny'", ("A", "x\\ny")),
    "A=nl": (0, "set A = 'l\\nb'", ("A", "l\nb")),
    "a=70": (0, "set a = 70", ("A", 70)),
    "A1=8": (0, "set A1 = 8", ("A1", 8)),
    "A10=9": (0, "set A10 = 9", ("A10", 9)),
    "AB=its": (0, "set AB = 'it''s'", ("AB", "it's")),
    "AB=$A": (0, "set AB = $A", ("copy", "AB", "A")),
    "S=a$b": (0, "set S = 'a$b'", ("S", "a$b")),
    "S=$A": (0, "set S = '$A'", ("S", "$A")),
    "E=1+1": (0, "set E = 1+1", ("E", 2)),
    "N=-5": (0, "set N = -5", ("N", -5)),
    "unset A": (0, "unset A", ("A", None)),
    "unset a1": (0, "unset a1", ("A1", None)),
    "unset A10": (0, "unset A10", ("A10", None)),
    "unset AB": (0, "unset AB", ("AB", None)),
    "unset S": (0, "unset S", ("S", None)),
    "unset E": (0, "unset E", ("E", None)),
    "unset N": (0, "unset N", ("N", None)),
    "es Q=5": (0, "ES:set Q = 5; select $Q", ("Q", 5)),
    "c1 A=1000": (1, "set A = 1000", ("A", 1000)),
    "c1 A10=1009": (1, "set A10 = 1009", ("A10", 1009)),
    "c1 unset A": (1, "unset A", ("A", None)),
}
QUICK_OPS = ["N=-5", "A=7", "A=bs", "A=bsn", "A=nl", "a=70", "A1=8", "A10=9", "AB=$A", "S=a$b", "S=$A", "E=1+1", "unset A", "unset a1", "es Q=5", "c1 A=1000", "c1 unset A"]
NAMES = ["A", "A1", "A10", "AB", "S", "E", "Q", "N"]
NUMS = [7, 8, 9, 70, 1000, 1009]
NONREF = [
    ("select 'cost $A' as c", "cost $A"),
    ("select '$5 off' as c", "$5 off"),
    ("select $$a $A b$$ as c", "a $A b"),
    ("select 'it''s $a1' as c", "it's $a1"),
    ("select 'it\\'s $a1 and $A' as c", "it's $a1 and $A"),  # backslash-escaped quote: the literal does not end there
    ("select 'don\\'t' as c, 'x $A' as d", None),  # two literals, the first with an escaped quote (both verbatim)
]


def model_apply(m, opid):
    """m = (dict0, dict1) -> new tuple, or None if the op is not applicable (unset of undefined / copy from undefined)"""
    c, _sql, eff = OPS[opid]
    d = [dict(m[0]), dict(m[1])]
    if eff[0] == "copy":
        if eff[2] not in d[c]:
            return None
        d[c][eff[1]] = d[c][eff[2]]
    elif eff[1] is None:
        if eff[0] not in d[c]:
            return None
        del d[c][eff[0]]
    else:
        d[c][eff[0]] = eff[1]
    return (d[0], d[1])


def mkey(m):
    return (tuple(sorted(m[0].items(), key=repr)), tuple(sorted(m[1].items(), key=repr)))


def vkind(v):
    if isinstance(v, int):
        return "int"
    if "\n" in v:
        return "newline"
    if "\\" in v:
        return "backslash_before_escape_letter" if "\\n" in v else "backslash"
    if "$" in v:
        return "dollar"
    if "'" in v:
        return "quote"
    return "str"


def has_prefix_defined(name, defs):
    return any(d != name and name.startswith(d) for d in defs)


def run_one(cur, sql):
    try:
        cur.execute(sql)
        return ("ok", cur.fetchall())
    except Exception as e:  # noqa: BLE001
        return exc_info(e)


def do_op(conns, opid):
    c, sql, _ = OPS[opid]
    if sql.startswith("ES:"):
        try:
            curs = list(conns[c].execute_string(sql[3:]))
            return ("ok", [x.fetchall() for x in curs])
        except Exception as e:  # noqa: BLE001
            return exc_info(e)
    return run_one(conns[c].cursor(), sql)


def reexecution_probes(conns, m, acc, rp, opid, probes):
    """One dedicated cursor per (connection, name) that never executes anything but `select $NAME as p`, once per
    battery: the identical text is re-executed on the same cursor object with nothing in between on that cursor, while
    the variables change through other cursors of the connection (whatever a cursor remembers about its last statement
    must not outlive a SET / UNSET issued elsewhere)."""
    obs = []
    for ci, conn in enumerate(conns):
        d = m[ci]
        for n in NAMES:
            key = (ci, n)
            if key not in probes:
                probes[key] = conn.cursor()
            got = run_one(probes[key], f"select ${n} as p")
            obs.append(got)
            if n in d:
                ok = got == ("ok", [(d[n],)])
            else:
                ok = got[0] == "err" and got[1] == "snowflake.connector.errors.ProgrammingError" and f"Session variable '${n}' does not exist" in got[4]
            cls = f"reexecuted_on_its_own_cursor,now={'defined' if n in d else 'undefined'}"
            acc.member("C15.per_connection", cls, not ok)
            if not ok:
                acc.violation("C15.per_connection", cls, {"sql": f"select ${n} as p", "connection": ci, "defined": d, "got": got, "after": opid}, rp)
    return obs


def battery(conns, m, acc, rp, opid):
    """Observe everything observable about variables in this state and compare with the model dicts m."""
    cursors = [("c0.cur1", conns[0].cursor(), m[0]), ("c0.cur2", conns[0].cursor(), m[0]), ("c1.cur1", conns[1].cursor(), m[1])]
    obs = []
    for cname, cur, d in cursors:
        defs = sorted(d)
        for case in ("upper", "lower"):
            if cname == "c0.cur2" and case == "lower":
                continue
            refs = [(n, ("$" + n) if case == "upper" else ("$" + n.lower())) for n in defs]
            if refs:
                batch = "select " + ", ".join(f"{r} as c{i}" for i, (_, r) in enumerate(refs))
                got = run_one(cur, batch)
                obs.append(got)
                want = ("ok", [tuple(d[n] for n, _ in refs)])
                if got != want:
                    # fall back to one reference per statement to name the failing reference precisely
                    any_bad = False
                    for n, r in refs:
                        g1 = run_one(cur, f"select {r} as c")
                        obs.append(g1)
                        bad = g1 != ("ok", [(d[n],)])
                        any_bad = any_bad or bad
                        cls = f"value={vkind(d[n])},prefix_defined={'yes' if has_prefix_defined(n, defs) else 'no'}"
                        acc.member("C15.value", cls, bad)
                        if bad:
                            acc.violation("C15.value", cls, {"ref": r, "cursor": cname, "defined": d, "expected": d[n], "got": g1, "after": opid}, rp)
                    if not any_bad:
                        # the statement with all references is wrong although each reference alone is right: the
                        # fault depends on the statement (its text, or what ran before it), not on one reference
                        other = m[1] if d is m[0] else m[0]
                        shared = sorted(n for n in defs if n in other and other[n] != d[n])
                        cls = f"statement=all_references,same_text_ran_on_other_connection={'yes' if shared and cname != 'c0.cur1' else 'no'}"
                        acc.violation("C15.value", cls, {"sql": batch, "cursor": cname, "defined": d, "other_connection": other, "expected": want, "got": got, "after": opid}, rp)
                else:
                    for n, _ in refs:
                        acc.member("C15.value", f"value={vkind(d[n])},prefix_defined={'yes' if has_prefix_defined(n, defs) else 'no'}", False)
        # undefined references
        for n in NAMES:
            if n not in d and cname != "c0.cur2":
                got = run_one(cur, f"select ${n.lower()} as c")
                obs.append(got)
                ok = (
                    got[0] == "err"
                    and got[1] == "snowflake.connector.errors.ProgrammingError"
                    and f"Session variable '${n}' does not exist" in got[4]
                )
                cls = f"prefix_defined={'yes' if has_prefix_defined(n, defs) else 'no'}"
                if not ok:
                    acc.violation("C15.undefined", cls, {"ref": "$" + n.lower(), "cursor": cname, "defined": d, "got": got, "after": opid}, rp)
    # the same statement text on both connections, back to back: each connection answers from its own variables
    # (anything remembered per statement text must not cross connections, nor outlive a redefinition)
    for n in NAMES:
        if n not in m[0] and n not in m[1]:
            continue
        text = f"select ${n} as st"
        for cname, cur, d in (cursors[0], cursors[2], cursors[1]):
            got = run_one(cur, text)
            obs.append(got)
            if n in d:
                ok = got == ("ok", [(d[n],)])
            else:
                ok = got[0] == "err" and got[1] == "snowflake.connector.errors.ProgrammingError" and f"Session variable '${n}' does not exist" in got[4]
            other = m[1] if d is m[0] else m[0]
            cls = f"same_text_on_both_connections,own={'defined' if n in d else 'undefined'},other={'same' if other.get(n, None) == d.get(n, None) and (n in other) == (n in d) else ('defined' if n in other else 'undefined')}"
            acc.member("C15.per_connection", cls, not ok)
            if not ok:
                acc.violation("C15.per_connection", cls, {"sql": text, "cursor": cname, "defined": d, "other_connection": other, "got": got, "after": opid}, rp)
    # positions: WHERE, IDENTIFIER(), expression value inside a product (connection 0, cursor 1)
    cur = cursors[0][1]
    d = m[0]
    for n in ("A", "A10"):
        if n in d and isinstance(d[n], int):
            got = run_one(cur, f"select n from nums where n = ${n} order by n")
            obs.append(got)
            want = ("ok", [(d[n],)] if d[n] in NUMS else [])
            if got != want:
                acc.violation("C15.position", f"where,prefix_defined={'yes' if has_prefix_defined(n, sorted(d)) else 'no'}", {"ref": n, "defined": d, "expected": want, "got": got}, rp)
    got = run_one(cur, "select count(*) from identifier($TN)")
    obs.append(got)
    if got != ("ok", [(len(NUMS),)]):
        acc.violation("C15.position", "identifier", {"defined": d, "got": got}, rp)
    if "E" in d:
        got = run_one(cur, "select $E * 2 as c")
        obs.append(got)
        if got != ("ok", [(4,)]):
            acc.violation("C15.value", "value=expression,context=product", {"expected": 4, "got": got}, rp)
    # a numeric variable stands for its value next to any operator (no token pasting: 10-$N with N=-5 is 15, not "10--5")
    for n in ("N", "A"):
        if n in d and isinstance(d[n], int):
            for sql, want in ((f"select 10-${n} as c, 7 as other", [(10 - d[n], 7)]), (f"select -${n} as c", [(-d[n],)]), (f"select ${n}::varchar as c", [(str(d[n]),)])):
                got = run_one(cur, sql)
                obs.append(got)
                if got != ("ok", want):
                    acc.violation("C15.value", f"value={'negative_int' if d[n] < 0 else 'int'},context=adjacent_operator", {"sql": sql, "expected": want, "got": got, "defined": d}, rp)
    # text that is not a variable reference is returned verbatim, whatever is defined
    for sql, want in NONREF:
        got = run_one(cur, sql)
        obs.append(got)
        if want is None:
            ok = got == ("ok", [("don't", "x $A")])
        else:
            ok = got == ("ok", [(want,)])
        if not ok:
            defs = sorted(d)
            inner = sql[sql.index("$") + 1 :].split()[0].strip("'").upper() if "$" in sql else ""
            cls = f"text={'dollar_quoted' if '$$' in sql else 'literal'},names_defined={'yes' if any(inner.startswith(x) for x in defs) else 'no'}"
            acc.violation("C15.nonref_verbatim", cls, {"sql": sql, "expected": want, "got": got, "defined": d}, rp)
    # the connection stays usable
    for cname, cur, _ in cursors[::2]:
        got = run_one(cur, "select 1")
        obs.append(got)
        if got != ("ok", [(1,)]):
            kinds = sorted({vkind(v) for dd in m for v in dd.values()})
            acc.violation("C15.usable", "defined_value_kinds=" + "+".join(kinds), {"cursor": cname, "got": got, "after": opid}, rp)
    return obs


SETUP = ["create table nums (n int)", "insert into nums values " + ",".join(f"({n})" for n in NUMS), "set TN = 'nums'"]


def expand(item, acc: core.Acc, tier):
    """item = (history of op ids, op id): replay history on a fresh instance, apply op, run the battery."""
    hist, opid = item
    import fakesnow.instance as inst

    fs = inst.FakeSnow()
    try:
        conns = [fs.connect(database="db1", schema="s1"), fs.connect(database="db1", schema="s1")]
        cur = conns[0].cursor()
        for s in SETUP:
            cur.execute(s)
        m = ({}, {})
        probes = {}
        reexecution_probes(conns, m, acc, {"history": [], "op": None, "then": hist + [opid]}, "connect", probes)
        for i, h in enumerate(hist):
            m = model_apply(m, h)
            do_op(conns, h)
            reexecution_probes(conns, m, acc, {"history": hist[:i], "op": h, "then": hist[i + 1 :] + [opid]}, h, probes)
            # the battery also runs after every earlier step, in this same session: its statement texts repeat, so an
            # answer remembered from before the next SET / UNSET (and not invalidated by it) shows up after that step
            battery(conns, m, acc, {"history": hist[:i], "op": h, "then": hist[i + 1 :] + [opid]}, h)
        m2 = model_apply(m, opid)
        assert m2 is not None
        got = do_op(conns, opid)
        rp = {"history": hist, "op": opid}
        acc.count("evaluations")
        acc.count("transitions")
        acc.count("traces")
        _c, sql, eff = OPS[opid]
        val = eff[1] if eff[0] != "copy" else m2[_c][eff[1]]
        kind = "unset" if val is None else ("set_from_var" if eff[0] == "copy" else f"set,value={vkind(val)}")
        if sql.startswith("ES:"):
            kind = "execute_string"
            if got != ("ok", [[("Statement executed successfully.",)], [(5,)]]):
                acc.violation("C15.statement_works", kind, {"sql": sql, "got": got}, rp)
        elif got != ("ok", [("Statement executed successfully.",)]):
            acc.violation("C15.statement_works", kind, {"sql": sql, "got": got, "defined": m}, rp)
        obs = reexecution_probes(conns, m2, acc, rp, opid, probes) + battery(conns, m2, acc, rp, opid)
        acc.obs((hist, opid, got, obs))
        acc.outcome((got[0], tuple(o[0] for o in obs)))
        acc.nontrivial(mkey(m2))
        acc.sample({"history": hist, "op": sql, "observed": got, "variables_after": m2, "battery_size": len(obs)}, cap=3)
    finally:
        fs.duck_conn.close()
    return mkey(m2)


def run(ctx: core.Ctx):
    ops = QUICK_OPS if ctx.quick else list(OPS)
    depth = 3 if ctx.quick else 4
    ctx.rule = (
        "BFS over histories of SET/UNSET/SET-from-variable/execute_string operations on two connections (names A, a, A1, "
        "A10, AB, S, E, Q; values: ints, strings with quote, backslash, dollar, an expression); state = the two variable "
        "maps; every applicable op is executed from every reached state (history replayed on a fresh instance) and "
        "followed by the full observation battery; non-trivial = distinct reached state"
    )
    ctx.assumptions = ["Snowflake evaluates SET v = <expr> at SET time (value 2 for 1+1)", "a '$name' inside a string literal or $$...$$ is text"]
    init = ({}, {})
    seen = {mkey(init): []}
    frontier = [(init, [])]
    d = 0
    while frontier and d < depth:
        items = []
        for m, hist in frontier:
            for o in ops:
                if model_apply(m, o) is not None:
                    items.append((hist, o))
        res = ctx.pmap(expand, items, recheck=(d == 1))
        cands = sorted(((k, hist + [o]) for (hist, o), k in res), key=lambda x: (repr(x[0]), len(x[1]), repr(x[1])))
        frontier = []
        for k, hist in cands:
            if k not in seen:
                seen[k] = hist
                m = ({}, {})
                for h in hist:
                    m = model_apply(m, h)
                frontier.append((m, hist))
        d += 1
    # An operation repeated after it was undone: [o, u, o] (and [u, o, u, o] where o needs u first, e.g. o = UNSET) for
    # every ordered pair of different operations o, u on the same variable of the same connection.  BFS over shortest
    # histories never runs the same SET / UNSET text twice with another statement about that variable in between (the
    # history returns to a known state and is cut), so whatever the session remembers per statement text about a
    # state-changing statement is only exercised here.  The battery after every step compares with the model.
    def target(o):
        c, _sql, eff = OPS[o]
        return (c, eff[1] if eff[0] == "copy" else eff[0])

    extra = []
    for o in ops:
        for u in ops:
            if o == u or target(o) != target(u):
                continue
            for hist in ([o, u], [u, o, u]):
                m = init
                for h in hist + [o]:
                    m = model_apply(m, h) if m is not None else None
                if m is not None:
                    extra.append((hist, o))
                    break
    ctx.extra["repeat_after_undo_histories"] = len(extra)
    ctx.pmap(expand, extra, recheck=False)
    for k in seen:
        ctx.acc.add("states", k)
    ctx.exhaustive = not frontier
    ctx.extra["bound"] = "fixpoint" if not frontier else f"depth {depth} ({len(frontier)} frontier states left)"


def replay(payload):
    r = payload["replay"]
    acc = core.Acc()
    expand((r["history"], r["op"]), acc, "quick")
    for k, v in acc.viol.items():
        print(k, v["detail"])
    return bool(acc.viol)
