"""C05 — fetch calls hand out every result row once, in order, at full width.

Engine E1: explicit-state BFS to fixpoint. The abstract state is (cursor kind, result shape, rows handed out,
arraysize); the transition function is the real cursor (fresh cursor per transition, history replayed); the
reference model is a list plus an index.
"""
from __future__ import annotations

import datetime
import decimal

from mc import core

PID = "C05"
LEVEL = "model_checking"

# ---- fixture (rows are known to the model independently of fakesnow) --------------------------------------------
N_ROWS = 5
T_ROWS = [(i, f"r{i}") for i in range(1, N_ROWS + 1)]
U_ROWS = [(i, i * 10) for i in range(1, N_ROWS + 1)]
MIXED = [
    (i, f"s{i}", decimal.Decimal(f"{i}.50"), datetime.date(2020, 1, i), None, float(i) / 2, i % 2 == 0)
    for i in range(1, N_ROWS + 1)
]

FIXTURE = [
    "create table t (a int, b varchar)",
    "insert into t values " + ",".join(f"({a},'{b}')" for a, b in T_ROWS),
    "create table u (id int, x int)",
    "insert into u values " + ",".join(f"({a},{b})" for a, b in U_ROWS),
    "create table w (id int, x int)",
    "insert into w values " + ",".join(f"({a},{b})" for a, b in U_ROWS),
    "create table m2 (id int, p0 number(10,0), d number(10,2), s varchar)",
    "insert into m2 values " + ",".join(f"({i},{i * 100},{i}.75,'v{i}')" for i in range(1, N_ROWS + 1)),
    # NULLs scattered differently over columns of different kinds (a NULL must not shorten or shift any column)
    "create table m3 (id int, p0n number(10,0), dn number(10,2), sn varchar, alln number(8,0))",
    "insert into m3 values " + ",".join(
        f"({i},{'NULL' if i in (2, 4) else i * 100},{'NULL' if i in (1, 2) else str(i) + '.25'},{'NULL' if i % 2 else repr('n' + str(i))},NULL)" for i in range(1, N_ROWS + 1)
    ),
    "create table m (i int, s varchar, d number(10,2), dt date, z varchar, f float, bo boolean)",
    "insert into m values "
    + ",".join(f"({i},'{s}',{d},'{dt.isoformat()}',NULL,{f},{str(bo).lower()})" for i, s, d, dt, z, f, bo in MIXED),
]

# column lists: id -> (sql template with {n}, names, row builder from row index 1..n)
COLSETS = {
    "a": ("select a from t where a <= {n} order by a", ["A"], lambda i: (i,)),
    "ab": ("select a, b from t where a <= {n} order by a", ["A", "B"], lambda i: (i, f"r{i}")),
    "aa": ("select a, a from t where a <= {n} order by a", ["A", "A"], lambda i: (i, i)),
    "aqa": (
        'select a, b as "a", b as a from t where a <= {n} order by 1',
        ["A", "a", "A"],
        lambda i: (i, f"r{i}", f"r{i}"),
    ),
    "join": (
        "select u.id, w.id, w.x from u join w on u.id = w.id where u.id <= {n} order by u.id",
        ["ID", "ID", "X"],
        lambda i: (i, i, i * 10),
    ),
    "mixed": (
        "select i, s, d, dt, z, f, bo from m where i <= {n} order by i",
        ["I", "S", "D", "DT", "Z", "F", "BO"],
        lambda i: MIXED[i - 1],
    ),
    # repeated column name over columns of *different* types (NUMBER(p,0) -> int, NUMBER(p,s) -> Decimal, text)
    "numdup": (
        "select p0 as n, d as n, s as n from m2 where id <= {n} order by id",
        ["N", "N", "N"],
        lambda i: (i * 100, decimal.Decimal(f"{i}.75"), f"v{i}"),
    ),
    "numdup2": (
        "select d as x, p0 as x, p0 from m2 where id <= {n} order by id",
        ["X", "X", "P0"],
        lambda i: (decimal.Decimal(f"{i}.75"), i * 100, i * 100),
    ),
    "nulls": (
        "select id, p0n, dn, sn, alln from m3 where id <= {n} order by id",
        ["ID", "P0N", "DN", "SN", "ALLN"],
        lambda i: (i, None if i in (2, 4) else i * 100, None if i in (1, 2) else decimal.Decimal(f"{i}.25"), None if i % 2 else f"n{i}", None),
    ),
    "desc": ("select a, b from t where a <= {n} order by a desc", ["A", "B"], None),  # reverse order
    # a statement answered by the nop_regexes option (the instance is created with nop_regexes=[NOP_REGEX]): also an
    # execute, so it must replace the previous result set completely
    "nop": ("call some_procedure({n})", ["status"], None),
}
NOP_REGEX = r"^call\b"


def shape_rows(cs: str, n: int):
    if cs == "nop":
        return [("Statement executed successfully.",)]
    if cs == "desc":
        return [(i, f"r{i}") for i in range(n, 0, -1)]
    return [COLSETS[cs][2](i) for i in range(1, n + 1)]


def shapes(tier):
    ns = [0, 2, 3] if tier == "quick" else [0, 1, 2, 3, 5]
    return [(cs, n) for cs in COLSETS if cs != "nop" for n in ns] + [("nop", 1)]


REEXEC_TARGETS = [("aa", 2), ("ab", 0), ("mixed", 3), ("nop", 1), ("nulls", 3)]


def ops_for(state, tier):
    kind, shape, pos, asz = state
    out = []
    if shape is None:
        out += [("exec", s) for s in shapes(tier)]
        out += [("one",), ("many", 2), ("many0",), ("all",), ("pandas",), ("rowcount",), ("asz", 2)]
        return out
    n = shape[1]
    ks = sorted({1, 2, 3, max(n, 1), n + 1})
    out += [("one",)] + [("many", k) for k in ks] + [("many0",), ("all",), ("pandas",), ("rowcount",), ("desc",)]
    out += [("asz", v) for v in (1, 2, 5) if v != asz]
    out += [("exec", s) for s in REEXEC_TARGETS] + [("exec", shape)]
    return out


# ---- model ---------------------------------------------------------------------------------------------------------
class Model:
    def __init__(self):
        self.shape = None
        self.rows = None
        self.names = None
        self.pos = 0
        self.asz = 1

    def key(self, kind):
        return (kind, self.shape, min(self.pos, len(self.rows)) if self.rows is not None else 0, self.asz)

    def step(self, op):
        """returns expected observation: ('rows', [...]) | ('row', r|None) | ('raise',) | ('none',) | ('int', n)"""
        o = op[0]
        if o == "exec":
            self.shape = tuple(op[1])
            self.rows = shape_rows(*self.shape)
            self.names = COLSETS[self.shape[0]][1]
            self.pos = 0
            return ("none",)
        if o == "asz":
            self.asz = op[1]
            return ("none",)
        if self.rows is None:
            if o == "rowcount":
                return ("int", None)
            return ("raise",)
        if o == "one":
            r = self.rows[self.pos] if self.pos < len(self.rows) else None
            self.pos += 1
            return ("row", r)
        if o in ("many", "many0"):
            k = op[1] if o == "many" else self.asz
            r = self.rows[self.pos : self.pos + k]
            self.pos += k
            return ("rows", r)
        if o == "all":
            r = self.rows[self.pos :]
            self.pos = max(self.pos, len(self.rows))
            return ("rows", r)
        if o == "pandas":
            return ("pandas", self.rows)
        if o == "rowcount":
            return ("int", len(self.rows))
        if o == "desc":
            return ("names", self.names)
        raise AssertionError(op)


# ---- real side ------------------------------------------------------------------------------------------------------
_WORK = {}


def _conn():
    """One instance per worker process, fixture created once; every transition uses a fresh cursor."""
    if "conn" not in _WORK:
        import fakesnow.instance as inst

        fs = inst.FakeSnow(nop_regexes=[NOP_REGEX])
        conn = fs.connect(database="db1", schema="s1")
        cur = conn.cursor()
        for s in FIXTURE:
            cur.execute(s)
        _WORK["fs"], _WORK["conn"] = fs, conn
    return _WORK["conn"]


def _norm(v):
    # numpy scalars from pandas -> python
    if hasattr(v, "item") and not isinstance(v, (bytes, str)):
        try:
            return v.item()
        except Exception:
            return v
    return v


def apply_real(cur, op):
    o = op[0]
    try:
        if o == "exec":
            cs, n = op[1]
            cur.execute(COLSETS[cs][0].format(n=n))
            return ("none",)
        if o == "asz":
            cur.arraysize = op[1]
            return ("none",)
        if o == "one":
            return ("row", cur.fetchone())
        if o == "many":
            return ("rows", cur.fetchmany(op[1]))
        if o == "many0":
            return ("rows", cur.fetchmany())
        if o == "all":
            return ("rows", cur.fetchall())
        if o == "pandas":
            df = cur.fetch_pandas_all()
            return ("pandas", (list(df.columns), df.shape, [tuple(_norm(x) for x in r) for r in df.itertuples(index=False, name=None)]))
        if o == "rowcount":
            return ("int", cur.rowcount)
        if o == "desc":
            d = cur.description
            return ("names", [c.name for c in d])
    except Exception as e:  # noqa: BLE001
        return ("raise", type(e).__module__ + "." + type(e).__name__, str(e)[:100])
    raise AssertionError(op)


def _eqv(a, b):
    """value equality that is type-aware (1 != True, 1 != 1.0 unless same type) and NaN/NaT tolerant for None"""
    if a is None or b is None:
        return a is None and b is None
    return type(a) is type(b) and a == b


def _pandas_cell_eq(got, exp):
    import math

    if exp is None:
        return got is None or (isinstance(got, float) and math.isnan(got)) or str(got) in ("NaT", "nan", "<NA>", "None")
    if isinstance(exp, bool) or isinstance(got, bool):
        return bool(got) == bool(exp) and isinstance(got, bool) == isinstance(exp, bool)
    if isinstance(exp, (int, float, decimal.Decimal)):
        try:
            return decimal.Decimal(str(got)) == decimal.Decimal(str(exp))
        except Exception:
            return False
    if isinstance(exp, datetime.date):
        return str(got)[:10] == exp.isoformat()
    return got == exp


def compare(kind, model, op, exp, got, names_unique):
    """returns (clause, cls, detail) or None"""
    ncols = len(model.names) if model.names else 0
    shape_cls = f"cols={model.shape[0]}" if model.shape else "noexec"
    if exp[0] == "raise":
        if got[0] != "raise":
            return ("C05.fetch_before_execute", f"op={op[0]}", {"expected": "raise", "got": got})
        okt = ("builtins.TypeError", "snowflake.connector.errors.NotSupportedError")
        if got[1] not in okt and not got[1].startswith("snowflake.connector.errors."):
            return ("C05.fetch_before_execute", f"op={op[0]},exc={got[1]}", {"expected": okt, "got": got})
        return None
    if got[0] == "raise":
        return ("C05.no_exception", f"op={op[0]},{shape_cls},exc={got[1]}", {"expected": exp, "got": got})
    if exp[0] in ("none",):
        return None
    if exp[0] == "int":
        if got[1] != exp[1]:
            return ("C05.rowcount", f"{shape_cls}", {"expected": exp[1], "got": got[1]})
        return None
    if exp[0] == "names":
        if got[1] != exp[1]:
            return ("C05.description_names", f"{shape_cls}", {"expected": exp[1], "got": got[1]})
        return None
    if exp[0] == "pandas":
        cols, shp, rows = got[1]
        if shp != (len(exp[1]), ncols):
            # pandas cannot hold... it can hold duplicate names; full width is demanded
            return ("C05.pandas", f"{shape_cls},shape", {"expected": (len(exp[1]), ncols), "got": shp})
        if list(cols) != list(model.names):
            return ("C05.pandas", f"{shape_cls},columns", {"expected": model.names, "got": list(cols)})
        for er, gr in zip(exp[1], rows):
            if len(er) != len(gr) or not all(_pandas_cell_eq(g, e) for g, e in zip(gr, er)):
                return ("C05.pandas", f"{shape_cls},values", {"expected": er, "got": gr})
        return None
    # row / rows
    erows = [exp[1]] if exp[0] == "row" else exp[1]
    grows = [got[1]] if exp[0] == "row" else got[1]
    if exp[0] == "rows" and not isinstance(grows, list):
        return ("C05.sequence", f"op={op[0]},type", {"expected": "list", "got": type(grows).__name__})
    if len(erows) != len(grows):
        return ("C05.sequence", f"op={op[0]},{shape_cls},count", {"expected": erows, "got": grows})
    for er, gr in zip(erows, grows):
        if er is None or gr is None:
            if er is not gr:
                return ("C05.sequence", f"op={op[0]},{shape_cls},exhaustion", {"expected": er, "got": gr})
            continue
        if kind == "tuple":
            if not isinstance(gr, tuple):
                return ("C05.sequence", f"op={op[0]},rowtype", {"expected": "tuple", "got": type(gr).__name__})
            if len(gr) != ncols:
                return ("C05.width", f"{shape_cls}", {"expected": er, "got": gr})
            if not all(_eqv(g, e) for g, e in zip(gr, er)):
                return ("C05.sequence", f"op={op[0]},{shape_cls},values", {"expected": er, "got": gr})
        else:
            if not isinstance(gr, dict):
                return ("C05.sequence", f"op={op[0]},rowtype", {"expected": "dict", "got": type(gr).__name__})
            if names_unique:
                if list(gr.keys()) != model.names or not all(_eqv(gr[k], e) for k, e in zip(model.names, er)):
                    return ("C05.dict_row", f"{shape_cls}", {"expected": dict(zip(model.names, er)), "got": gr})
            else:
                # a dict cannot carry repeated names: demand only that every key is a description name and that
                # each value is one of the values of a column of that name
                for k, v in gr.items():
                    cands = [e for nme, e in zip(model.names, er) if nme == k]
                    if not cands or not any(_eqv(v, c) for c in cands):
                        return ("C05.dict_row", f"{shape_cls},dupnames", {"expected": list(zip(model.names, er)), "got": gr})
    return None


def run_history(kind, hist, last_op):
    """Replay hist on a fresh cursor (checking nothing), then apply last_op; returns (model, exp, got)."""
    from snowflake.connector.cursor import DictCursor, SnowflakeCursor

    conn = _conn()
    cur = conn.cursor(DictCursor if kind == "dict" else SnowflakeCursor)
    model = Model()
    for op in hist:
        model.step(op)
        apply_real(cur, op)
    exp = model.step(last_op)
    got = apply_real(cur, last_op)
    return model, exp, got


def expand(item, acc: core.Acc, tier):
    """item = (state, history). Explore every op enabled in the state; return successors [(state', history')]."""
    state, hist = item
    state = tuple(tuple(x) if isinstance(x, list) else x for x in state)
    kind = state[0]
    succ = []
    for op in ops_for(state, tier):
        model, exp, got = run_history(kind, hist, op)
        acc.count("transitions")
        acc.count("evaluations")
        acc.count("traces")
        acc.obs((state, op, got))
        acc.outcome((op[0], got[0], repr(got[1:])[:80]))
        names_unique = bool(model.names) and len(set(model.names)) == len(model.names)
        bad = compare(kind, model, op, exp, got, names_unique)
        if exp[0] in ("rows", "row", "raise", "pandas") and (exp[0] == "raise" or exp[1]):
            acc.nontrivial((state, op))
        if bad:
            clause, cls, detail = bad
            acc.violation(clause, cls, detail, {"kind": kind, "history": list(hist), "op": op})
        # lookahead: after *every* transition the rest of the result must be exactly what the model says is left
        # (state hidden from the abstract state, e.g. a stale fetch index surviving a re-execute, shows up here even
        # though the successor state is deduplicated against a state reached by a shorter history)
        if model.rows is not None and not bad:
            m2, exp2, got2 = run_history(kind, list(hist) + [op], ("all",))
            acc.count("evaluations")
            acc.count("lookahead_drains")
            acc.obs(("drain", got2))
            bad2 = compare(kind, m2, ("all",), exp2, got2, names_unique)
            if bad2:
                clause, cls, detail = bad2
                acc.violation(clause, cls + f",after={op[0]}", detail, {"kind": kind, "history": list(hist) + [op], "op": ("all",)})
            elif op[0] in ("one", "many", "many0", "all", "pandas", "desc"):
                # ... and the same through fetchone calls (fetchone and the batch fetches must share one position)
                left = len(m2.rows) - min(model.pos, len(model.rows)) if model.rows is not None else 0
                h2 = list(hist) + [op]
                for _i in range(min(left, 2) + 1):
                    m3, exp3, got3 = run_history(kind, h2, ("one",))
                    acc.count("evaluations")
                    acc.count("lookahead_fetchone")
                    acc.obs(("drain1", got3))
                    bad3 = compare(kind, m3, ("one",), exp3, got3, names_unique)
                    if bad3:
                        clause, cls, detail = bad3
                        acc.violation(clause, cls + f",after={op[0]}", detail, {"kind": kind, "history": h2, "op": ("one",)})
                        break
                    h2 = h2 + [("one",)]
        nk = model.key(kind)
        succ.append((nk, list(hist) + [op]))
    acc.sample({"state": state, "history": hist, "ops_explored": len(ops_for(state, tier))})
    return succ


# ---- several result sets alive at once ------------------------------------------------------------------------------------
# Every cursor owns its result set: the cursors returned by a multi-statement execute_string, and two cursors of one
# connection, are fetched from in every interleaving (3 fetch calls from {fetchone, fetchmany(2), fetchall} x {cursor 0,
# cursor 1}), then drained; each cursor must have handed out exactly the rows of its own statement, in order.
MULTI_PAIRS = {
    "tuple": [(("ab", 3), ("aa", 2)), (("numdup", 2), ("a", 3)), (("a", 0), ("mixed", 2))],
    "dict": [(("ab", 3), ("a", 2)), (("a", 0), ("mixed", 2))],
}
MULTI_OPS = [(c, o) for c in (0, 1) for o in ("one", "many2", "all")]


def multi_items(tier):
    import itertools

    out = []
    for kind, pairs in MULTI_PAIRS.items():
        for source in ("execute_string", "two_cursors"):
            for pair in pairs if tier != "quick" else pairs[:2]:
                for seq in itertools.product(range(len(MULTI_OPS)), repeat=3):
                    out.append((kind, source, pair, seq))
    return out


def multi_case(item, acc: core.Acc, tier):
    from snowflake.connector.cursor import DictCursor, SnowflakeCursor

    kind, source, pair, seq = item
    conn = _conn()
    cls_ = DictCursor if kind == "dict" else SnowflakeCursor
    sqls_ = [COLSETS[cs][0].format(n=n) for cs, n in pair]
    want = [shape_rows(cs, n) for cs, n in pair]
    names = [COLSETS[cs][1] for cs, _ in pair]
    rp = {"multi": [kind, source, [list(x) for x in pair], list(seq)]}
    cls = f"kind={kind},source={source}"
    acc.count("evaluations")
    acc.count("transitions")
    acc.count("traces")
    try:
        if source == "execute_string":
            curs = list(conn.execute_string("; ".join(sqls_), cursor_class=cls_))
        else:
            curs = [conn.cursor(cls_), conn.cursor(cls_)]
            for c_, q_ in zip(curs, sqls_):
                c_.execute(q_)
        if len(curs) != 2:
            acc.violation("C05.own_result_set", cls + ",cursor_count", {"cursors": len(curs)}, rp)
            return None
        handed = [[], []]
        for oi in seq:
            ci, o = MULTI_OPS[oi]
            left = len(want[ci]) - len(handed[ci])
            if o == "one":
                r = curs[ci].fetchone()
                got = [] if r is None else [r]
                exp_n = min(1, left)
            elif o == "many2":
                got = curs[ci].fetchmany(2)
                exp_n = min(2, left)
            else:
                got = curs[ci].fetchall()
                exp_n = left
            if len(got) != exp_n:
                acc.violation("C05.own_result_set", cls + f",op={o},count", {"cursor": ci, "expected_rows": exp_n, "got": [repr(x) for x in got], "sql": sqls_}, rp)
                return None
            handed[ci] += got
        for ci in (0, 1):
            handed[ci] += curs[ci].fetchall()
            rows = [tuple(r.values()) if isinstance(r, dict) else tuple(r) for r in handed[ci]]
            ok = len(rows) == len(want[ci]) and all(len(a) == len(b) and all(_eqv(x, y) for x, y in zip(a, b)) for a, b in zip(rows, want[ci]))
            if not ok:
                acc.violation("C05.own_result_set", cls + ",rows", {"cursor": ci, "sql": sqls_[ci], "expected": [repr(x) for x in want[ci]], "got": [repr(x) for x in rows]}, rp)
            if curs[ci].rowcount != len(want[ci]):
                acc.violation("C05.own_result_set", cls + ",rowcount", {"cursor": ci, "expected": len(want[ci]), "got": curs[ci].rowcount}, rp)
            if [d.name for d in curs[ci].description] != names[ci]:
                acc.violation("C05.own_result_set", cls + ",description", {"cursor": ci, "expected": names[ci], "got": [d.name for d in curs[ci].description]}, rp)
    except Exception as e:  # noqa: BLE001
        acc.violation("C05.own_result_set", cls + f",exc={type(e).__name__}", {"error": str(e)[:200], "sql": sqls_}, rp)
        return None
    acc.obs((item, "ok"))
    acc.nontrivial(("multi", item))
    return None


# ---- the same statement text, another result ----------------------------------------------------------------------------
# "A new execute replaces the old result set completely" also when the new statement has the very text of the old one and
# only its result differs: one long-lived cursor executes `select * from vs order by 1` twice while the view vs is replaced
# in between (by another cursor of the connection / by another connection), for every ordered pair of result shapes and
# every way of having looked at the first result (nothing, description, description + fetchone, fetchall + description).
# Whatever the cursor remembers about a statement (its description, its rows, its fetch position) must be the second
# result's afterwards: description names, tuple width, DictCursor keys, rows, rowcount, fetch_pandas_all columns.
VIA_SHAPES = [("a", 2), ("ab", 3), ("ab", 0), ("mixed", 2), ("nulls", 3)]
VIA_TEXT = "select * from vs order by 1"
VIA_LOOKS = ["none", "desc", "desc+one", "all+desc"]


def via_items(tier):
    out = []
    for kind in ("tuple", "dict"):
        for a in VIA_SHAPES:
            for b in VIA_SHAPES:
                if a != b:
                    for look in VIA_LOOKS:
                        for replacer in ("other_cursor", "other_connection"):
                            out.append((kind, a, b, look, replacer))
    return out


def via_case(item, acc: core.Acc, tier):
    from snowflake.connector.cursor import DictCursor, SnowflakeCursor

    kind, a, b, look, replacer = item
    conn = _conn()
    if "conn2" not in _WORK:
        _WORK["conn2"] = _WORK["fs"].connect(database="db1", schema="s1")
    helper = (conn if replacer == "other_cursor" else _WORK["conn2"]).cursor()
    cur = conn.cursor(DictCursor if kind == "dict" else SnowflakeCursor)
    rp = {"via": [kind, list(a), list(b), look, replacer]}
    cls = f"same_text_other_result,first={a[0]},second={b[0]},looked_at_first={look}"
    acc.count("evaluations")
    acc.count("transitions")
    acc.count("traces")
    want = shape_rows(*b)
    names = COLSETS[b[0]][1]
    try:
        helper.execute("create or replace view db1.s1.vs as " + COLSETS[a[0]][0].format(n=a[1]))
        cur.execute(VIA_TEXT)
        if "desc" in look:
            first_names = [d.name for d in cur.description]
            if first_names != COLSETS[a[0]][1]:
                acc.violation("C05.description_names", cls + ",result=first", {"expected": COLSETS[a[0]][1], "got": first_names}, rp)
                return None
        if "one" in look:
            cur.fetchone()
        if "all" in look:
            cur.fetchall()
        helper.execute("create or replace view db1.s1.vs as " + COLSETS[b[0]][0].format(n=b[1]))
        cur.execute(VIA_TEXT)
        got_names = [d.name for d in cur.description]
        rowcount = cur.rowcount
        rows = cur.fetchall()
        after = cur.fetchone()
        df = cur.fetch_pandas_all()
    except Exception as e:  # noqa: BLE001
        acc.violation("C05.no_exception", cls + f",exc={type(e).__name__}", {"error": str(e)[:200]}, rp)
        return None
    acc.obs((item, got_names, rowcount, repr(rows), repr(after), list(df.columns)))
    acc.nontrivial(("via", item))
    if got_names != names:
        acc.violation("C05.description_names", cls, {"expected": names, "got": got_names}, rp)
    if rowcount != len(want):
        acc.violation("C05.rowcount", cls, {"expected": len(want), "got": rowcount}, rp)
    if list(df.columns) != names or len(df) != len(want):
        acc.violation("C05.pandas", cls, {"expected_columns": names, "got_columns": list(df.columns), "rows": len(df)}, rp)
    if after is not None:
        acc.violation("C05.sequence", cls + ",exhaustion", {"got": repr(after)}, rp)
    ok = len(rows) == len(want)
    for gr, er in zip(rows, want):
        if kind == "tuple":
            ok = ok and isinstance(gr, tuple) and len(gr) == len(er) and all(_eqv(g, e) for g, e in zip(gr, er))
        else:
            ok = ok and isinstance(gr, dict) and list(gr.keys()) == names and all(_eqv(gr[k], e) for k, e in zip(names, er))
    if not ok:
        acc.violation("C05.dict_row" if kind == "dict" else "C05.sequence", cls, {"expected": [repr(x) for x in want], "got": [repr(x) for x in rows]}, rp)
    return None


def run(ctx: core.Ctx):
    ctx.rule = (
        "BFS to fixpoint over abstract cursor states (kind, shape, rows handed out, arraysize); every enabled op "
        "(fetchone/fetchmany(k)/fetchmany()/arraysize/fetchall/fetch_pandas_all/rowcount/description/re-execute) is "
        "applied to the real cursor after replaying the state's history; non-trivial = transition whose expected "
        "observation is a non-empty row list or a raise; each state is expanded from up to 2 distinct histories"
    )
    ctx.assumptions = [
        "result order is defined by ORDER BY in every shape",
        "fixture rows are known to the model independently of fakesnow",
        "states with equal (kind, shape, min(pos,n), arraysize) have equal futures; cross-checked by expanding a "
        "second, different history for each state",
    ]
    seen: dict = {}
    frontier = []
    for kind in ("tuple", "dict"):
        st = (kind, None, 0, 1)
        seen[st] = 1
        frontier.append((st, []))
    depth = 0
    while frontier:
        res = ctx.pmap(expand, frontier, recheck=(depth == 1))
        cands = []
        for _item, succ in res:
            for st, hist in succ:
                st = tuple(tuple(x) if isinstance(x, list) else x for x in st)
                cands.append((st, hist))
        # canonical order so that the result does not depend on pool scheduling or seed rotation
        cands.sort(key=lambda x: (repr(x[0]), len(x[1]), repr(x[1])))
        keep = []
        last = None
        for st, hist in cands:
            if seen.get(st, 0) < 2 and (st, hist) != last:  # expand each state from up to two different histories
                seen[st] = seen.get(st, 0) + 1
                keep.append((st, hist))
            last = (st, hist)
        frontier = keep
        depth += 1
        ctx.acc.counters["max_depth"] = depth
    mi = multi_items(ctx.tier)
    ctx.pmap(multi_case, mi, recheck=False)
    ctx.extra["several_result_sets_alive"] = {"cases": len(mi), "sources": ["execute_string (2 statements)", "two cursors of one connection"], "fetch_calls_interleaved": 3}
    vi = via_items(ctx.tier)
    ctx.pmap(via_case, vi, recheck=False)
    ctx.extra["same_text_other_result"] = {"cases": len(vi), "shapes": [list(x) for x in VIA_SHAPES], "looked_at_first": VIA_LOOKS, "replaced_by": ["other_cursor", "other_connection"]}
    for st in seen:
        ctx.acc.add("states", st)
    ctx.exhaustive = True
    ctx.extra["bound"] = "fixpoint (frontier emptied)"


def replay(payload):
    r = payload["replay"]
    if "via" in r:
        kind, a, b, look, replacer = r["via"]
        acc = core.Acc()
        via_case((kind, tuple(a), tuple(b), look, replacer), acc, "quick")
        print(acc.viol or "ok")
        return bool(acc.viol)
    if "multi" in r:
        kind, source, pair, seq = r["multi"]
        acc = core.Acc()
        multi_case((kind, source, tuple(tuple(x) for x in pair), tuple(seq)), acc, "quick")
        print(acc.viol or "ok")
        return bool(acc.viol)
    model, exp, got = run_history(r["kind"], [tuple(o) if not isinstance(o[-1], list) else (o[0], tuple(o[1])) for o in r["history"]], tuple(r["op"]) if not isinstance(r["op"][-1], list) else (r["op"][0], tuple(r["op"][1])))
    print("history:", r["history"], "op:", r["op"])
    print("expected:", exp)
    print("observed:", got)
    names_unique = bool(model.names) and len(set(model.names)) == len(model.names)
    bad = compare(r["kind"], model, r["op"], exp, got, names_unique)
    print("verdict:", bad or "ok")
    return bool(bad)
